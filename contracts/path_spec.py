"""Specification of the path semantics of move / rotate / setters (property C09),
written from the property statement, independent of the code.

  * extend the old path to Z by edge values: ext(j) = old[clamp(j, 0, N-1)]
  * s0 = start, or 0 (scalar input) / N (vector input) for 'auto'
  * s1 = N + s0 if s0 < 0 else s0
  * scalar input occupies [s1, oo) (index s1 must exist), vector input of length n occupies [s1, s1+n)
  * new path = indices [min(0, s1), max(N, s1 + n')) re-based to 0   (n' = 1 for scalar)
  * new[k] = ext(k+mn) (+) op[k+mn-s1] on occupied indices, ext(k+mn) elsewhere
  * position and orientation get the same index map
  * move: P + d.  rotate: O' = rho∘O ; P' = act(rho, P - a) + a (anchor a; none -> P unchanged)
  * rotation / anchor inputs of unequal length are edge-padded to the longer one

Two renderings of the same spec: z3 terms (for the obligations) and NumPy (for native replay).
"""
import numpy as np
import z3
from scipy.spatial.transform import Rotation as R

from engine.idx import act, clamp, mul, vadd, vsub


# ---------------------------------------------------------------- z3 rendering
def z_index_map(N, nn, scalar, start):
    """start: None for 'auto' or z3 Int.  returns (s1, mn, newlen)"""
    s0 = (z3.IntVal(0) if scalar else N) if start is None else start
    s1 = z3.If(s0 < 0, N + s0, s0)
    mn = z3.If(s1 < 0, s1, z3.IntVal(0))
    hi = z3.If(s1 + nn > N, s1 + nn, N)
    return s1, mn, hi - mn


def z_occupied(j, s1, nn, scalar):
    return (j >= s1) if scalar else z3.And(s1 <= j, j < s1 + nn)


def z_move_post(N, P, O, k, newP, newO, newlenP, newlenO, scalar, n, start, d_at):
    """d_at(i): displacement term at op index i"""
    nn = z3.IntVal(1) if scalar else n
    s1, mn, newlen = z_index_map(N, nn, scalar, start)
    j = k + mn
    occ = z_occupied(j, s1, nn, scalar)
    oldP, oldO = P(clamp(j, N)), O(clamp(j, N))
    return z3.And(
        newlenP == newlen,
        newlenO == newlen,
        newlen >= 1,
        z3.Implies(
            z3.And(0 <= k, k < newlen),
            z3.And(newP(k) == z3.If(occ, vadd(oldP, d_at(j - s1)), oldP), newO(k) == oldO),
        ),
    )


def z_rotate_post(N, P, O, k, newP, newO, newlenP, newlenO, scalar, nn, start, rot_at, anc_at):
    """rot_at(i) rotation term at op index i; anc_at(i, j) anchor term or None"""
    s1, mn, newlen = z_index_map(N, nn, scalar, start)
    j = k + mn
    occ = z_occupied(j, s1, nn, scalar)
    oldP, oldO = P(clamp(j, N)), O(clamp(j, N))
    rho = rot_at(j - s1)
    nO = mul(rho, oldO)
    if anc_at is None:
        nP = oldP
    else:
        a = anc_at(j - s1, j)
        nP = vadd(act(rho, vsub(oldP, a)), a)
    return z3.And(
        newlenP == newlen,
        newlenO == newlen,
        newlen >= 1,
        z3.Implies(
            z3.And(0 <= k, k < newlen),
            z3.And(newP(k) == z3.If(occ, nP, oldP), newO(k) == z3.If(occ, nO, oldO)),
        ),
    )


# ---------------------------------------------------------------- NumPy rendering
def n_index_map(N, nn, scalar, start):
    s0 = (0 if scalar else N) if start == "auto" else int(start)
    s1 = N + s0 if s0 < 0 else s0
    mn = min(s1, 0)
    hi = max(N, s1 + nn)
    return s1, mn, hi - mn


def n_expected(pos, quat, op, scalar, nn, start, rot=None, anchor=None, disp=None, parent=None):
    """pos (N,3), quat (N,4) old path. op in {'move','rotate'}.
    rot: Rotation (single or length nn); anchor: None | (3,) | (na,3); disp: (3,) | (n,3)
    parent: (N,3) parent path used as anchor when anchor is None (children of a rotated collection).
    returns expected (pos', quat')"""
    N = len(pos)
    s1, mn, newlen = n_index_map(N, nn, scalar, start)
    outP = np.empty((newlen, 3))
    outQ = np.empty((newlen, 4))
    for k in range(newlen):
        j = k + mn
        jc = min(max(j, 0), N - 1)
        p, q = pos[jc], quat[jc]
        occ = j >= s1 if scalar else s1 <= j < s1 + nn
        if occ:
            i = j - s1
            if op == "move":
                p = p + (disp if np.ndim(disp) == 1 else disp[i])
            else:
                r = rot if rot.single else rot[min(i, len(rot) - 1)]
                if anchor is not None:
                    a = anchor if np.ndim(anchor) == 1 else anchor[min(i, len(anchor) - 1)]
                elif parent is not None:
                    a = parent[min(max(j, 0), len(parent) - 1)]
                else:
                    a = None
                if a is not None:
                    p = r.apply(p - a) + a
                q = (r * R.from_quat(q)).as_quat()
        outP[k], outQ[k] = p, q
    return outP, outQ


def same_rot(q1, q2, tol=1e-9):
    """quaternions equal up to sign"""
    q1, q2 = np.atleast_2d(q1), np.atleast_2d(q2)
    if q1.shape != q2.shape:
        return False
    d = np.abs(np.sum(q1 * q2, axis=1))
    return bool(np.all(np.abs(d - 1) < tol))
