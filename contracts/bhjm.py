"""Sidecar contracts for the BHJM_* wrappers: how each real wrapper is re-bound over the
row-generic shim, which callees are contract stubs, and the geometric interior / exterior
predicates (written from the geometry, independent of the code's masks).
"""
import importlib

import numpy as np
from fractions import Fraction
import z3

import magpylib._src.utility as UT
from engine.rebind import rebind
from engine.rowgen import G, NPG, NROWS, asbool, asreal, core_stub, g_all, g_any, g_len, sym_rows, t_sqrt, zabs, zlift
from engine.symex import Ctx, Unsupported, explore

MU0 = z3.Real("MU0")
F = "magpylib._src.fields."


def _mod(name):
    return importlib.import_module(F + name)


def base_overrides():
    uns = rebind(UT, dict(np=NPG, len=g_len, any=g_any, all=g_all))
    return dict(np=NPG, MU0=MU0, any=g_any, all=g_all, len=g_len,
                cart_to_cyl_coordinates=uns["cart_to_cyl_coordinates"], cyl_field_to_cart=uns["cyl_field_to_cart"])


def _sq(t):
    return t * t


class Spec:
    """one wrapper under contract"""

    def __init__(self, name, module, func, args, stubs, kind, pre=None, inside=None, outside=None, pol="polarization",
                 extra_kwargs=None, region=None, homog=0, lengths=(), assumed=(), has_field=True, extra_ns=None, out_T=False):
        self.has_field, self.extra_ns, self.out_T = has_field, extra_ns or {}, out_T
        self.name, self.module, self.func = name, module, func
        self.args = args  # ordered dict name -> trailing shape
        self.stubs = stubs  # callee name -> stub factory
        self.kind = kind  # 'magnet' | 'current' | 'other'
        self.pre = pre or (lambda a: [])
        self.inside, self.outside = inside, outside
        self.pol = pol
        self.extra_kwargs = extra_kwargs or {}
        self.region = region  # known-finding region predicate(s): dict id -> fn(args) -> z3 Bool
        self.homog = homog
        self.lengths = lengths  # names of length-valued arguments (scale with the unit)
        self.assumed = assumed

    def real(self):
        return getattr(_mod(self.module), self.func)

    def namespace(self, extra=None):
        o = base_overrides()
        for k, mk in self.stubs.items():
            if mk is None:  # a callee that is itself a wrapper under contract: its re-bound real code is used (inlined)
                dep = {"BHJM_triangle": "Triangle", "BHJM_magnet_cylinder": "Cylinder"}[k]
                o[k] = WRAPPERS[dep].namespace()[WRAPPERS[dep].func]
            else:
                o[k] = mk()
        o.update(self.extra_ns)
        o.update(extra or {})
        return rebind(_mod(self.module), o)

    def fresh_args(self, suffix=""):
        return {k: sym_rows(k + suffix, sh) for k, sh in self.args.items()}

    def run(self, field, args=None, ns=None, pre_extra=(), **kw):
        """explore all paths of the wrapper for `field`; returns list of dict(pc, ax, out=[3 terms], writes)"""
        from engine import rowgen

        ns = ns or self.namespace()
        f = ns[self.func]
        out = []
        base_args = args

        def body():
            a = base_args if base_args is not None else self.fresh_args()
            a = {k: (v.copy() if isinstance(v, G) else v) for k, v in a.items()}
            for v in a.values():
                if isinstance(v, G):
                    v.is_argument = True
            c = Ctx.cur
            c.pc.extend([MU0 > 0, NROWS >= 1])
            c.pc.extend(self.pre(a))
            c.pc.extend(pre_extra)
            del rowgen.WRITES[:]
            kwargs = dict(self.extra_kwargs)
            kwargs.update(kw)
            r = f(field, **a, **kwargs) if self.has_field else f(**a, **kwargs)
            if self.out_T and isinstance(r, G):
                r = r.T
            w = [(what) for (tgt, isarg, what) in rowgen.WRITES if isarg]
            return r, w, a

        self.problems = []
        for ctx, (kind, res) in explore(body):
            if kind == "unsupported":
                self.problems.append(repr(res))
                continue
            if kind == "exc":
                out.append(dict(pc=list(ctx.pc), ax=list(ctx.axioms), exc=res))
                continue
            r, w, a = res
            want_shape = getattr(self, "out_shape", (3,))
            if not isinstance(r, G) or r.bax != 0 or r.tshape != want_shape or len(r.blocks) != 1 or r.tag is not None:
                out.append(dict(pc=list(ctx.pc), ax=list(ctx.axioms), exc=TypeError(f"result is not a full (n,{','.join(map(str, want_shape))}) array: {r!r}")))
                continue
            outs = [asreal(t) for t in r.blocks[0].flat]
            outs, un = eliminate_uninit(list(ctx.pc) + list(ctx.axioms), outs)
            if un is False:
                self.problems.append("uninitialised memory (np.empty) may reach the result")
            out.append(dict(pc=list(ctx.pc), ax=list(ctx.axioms), out=outs, writes=w, args=a, uninit_eliminated=un))
        return out


def eliminate_uninit(assum, outs):
    """np.empty is modelled by fresh unconstrained reals `uninitK`. If the result provably does not depend on them (all rows are
    overwritten by masked assignments) they are replaced by 0; returns (outs, True/None/False) = proved independent / none present / not proved"""
    seen, found = set(), {}

    def walk(t):
        if t.get_id() in seen:
            return
        seen.add(t.get_id())
        if z3.is_const(t) and t.decl().kind() == z3.Z3_OP_UNINTERPRETED and t.decl().name().startswith("uninit"):
            found[t.decl().name()] = t
        for c in t.children():
            walk(c)

    for t in outs:
        walk(t)
    if not found:
        return outs, None
    vs = list(found.values())
    if _uninit_unreachable_propositionally(outs):
        # the masked assignments cover every row by the Boolean structure of the masks alone (e.g. mask4 = ~mask2 * ~mask3)
        return [z3.simplify(z3.substitute(t, *[(v, z3.RealVal(0)) for v in vs])) for t in outs], True
    a = [z3.substitute(t, *[(v, z3.Real(v.decl().name() + "_a")) for v in vs]) for t in outs]
    b = [z3.substitute(t, *[(v, z3.Real(v.decl().name() + "_b")) for v in vs]) for t in outs]
    s = z3.Solver()
    s.set("timeout", 30000)
    s.add(*assum)
    s.add(z3.Not(z3.And(*[x == y for x, y in zip(a, b)])))
    if s.check() != z3.unsat:
        return outs, False
    return [z3.simplify(z3.substitute(t, *[(v, z3.RealVal(0)) for v in vs])) for t in outs], True


def _uninit_unreachable_propositionally(outs):
    """every occurrence of an `uninit` constant sits under if-then-else conditions that are contradictory already as a propositional formula over
    the comparison atoms (atoms abstracted to Boolean variables): pure SAT, no arithmetic"""
    atoms = {}

    def skel(c):
        k = c.decl().kind()
        if k in (z3.Z3_OP_AND, z3.Z3_OP_OR, z3.Z3_OP_NOT, z3.Z3_OP_IMPLIES, z3.Z3_OP_XOR) or (k == z3.Z3_OP_ITE and z3.is_bool(c)) or (k in (z3.Z3_OP_EQ, z3.Z3_OP_DISTINCT) and z3.is_bool(c.arg(0))):
            return c.decl()(*[skel(x) for x in c.children()])
        if z3.is_true(c) or z3.is_false(c):
            return c
        key = c.sexpr()
        if key not in atoms:
            atoms[key] = z3.Bool(f"atom_{len(atoms)}")
        return atoms[key]

    paths = []
    seen = set()

    def reach(t, conds):
        if z3.is_const(t):
            if t.decl().kind() == z3.Z3_OP_UNINTERPRETED and t.decl().name().startswith("uninit"):
                paths.append(list(conds))
            return
        key = (t.get_id(), tuple(c.get_id() for c in conds))
        if key in seen:
            return
        seen.add(key)
        if t.decl().kind() == z3.Z3_OP_ITE and not z3.is_bool(t):
            c = t.arg(0)
            reach(t.arg(1), conds + [c])
            reach(t.arg(2), conds + [z3.Not(c)])
            return
        for ch in t.children():
            reach(ch, conds)
            if len(paths) > 5000:
                return

    for t in outs:
        reach(t, [])
    if not paths or len(paths) > 5000:
        return False
    for conds in paths:
        sv = z3.Solver()
        sv.set("timeout", 5000)
        sv.add(*[skel(c) for c in conds])
        if sv.check() != z3.unsat:
            return False
    return True


def report_problems(rep, sp, label, fnl):
    """paths on which the real code left the vocabulary of the shim: undecided obligations (never a violation, never silently dropped)"""
    for i, msg in enumerate(getattr(sp, "problems", []) or []):
        rep.obligation(f"{label}.path-outside-the-verified-subset[{i}]", {"status": "unknown", "backend": "symex", "time_s": 0, "reason": msg[:200]}, fnl, "post")


def col(a, name, i=None):
    b = a[name].blocks[0]
    return b[()] if i is None else b[i]


# ---- geometry predicates (independent of the code) ----------------------------------------------
def cuboid_inside(a):
    x, y, z = (col(a, "observers", i) for i in range(3))
    d = [zabs(col(a, "dimension", i)) / 2 for i in range(3)]
    return z3.And(zabs(x) < d[0] * (1 - zlift(1e-9)), zabs(y) < d[1] * (1 - zlift(1e-9)), zabs(z) < d[2] * (1 - zlift(1e-9)))


def cuboid_outside(a):
    x, y, z = (col(a, "observers", i) for i in range(3))
    d = [zabs(col(a, "dimension", i)) / 2 for i in range(3)]
    return z3.Or(zabs(x) > d[0] * (1 + zlift(1e-9)), zabs(y) > d[1] * (1 + zlift(1e-9)), zabs(z) > d[2] * (1 + zlift(1e-9)))


def _cyl_r(a):
    x, y = col(a, "observers", 0), col(a, "observers", 1)
    return t_sqrt(x * x + y * y)


def cylinder_inside(a):
    r, z = _cyl_r(a), col(a, "observers", 2)
    d, h = col(a, "dimension", 0), col(a, "dimension", 1)
    return z3.And(r < d / 2 * (1 - zlift(1e-9)), zabs(z) < h / 2 * (1 - zlift(1e-9)))


def cylinder_outside(a):
    r, z = _cyl_r(a), col(a, "observers", 2)
    d, h = col(a, "dimension", 0), col(a, "dimension", 1)
    return z3.Or(r > d / 2 * (1 + zlift(1e-9)), zabs(z) > h / 2 * (1 + zlift(1e-9)))


def cylinder_edge(a):
    """known-finding region: row on hull AND on a base plane (within the code's 1e-15 relative band)"""
    r, z = _cyl_r(a), col(a, "observers", 2)
    r0, z0 = col(a, "dimension", 0) / 2, col(a, "dimension", 1) / 2
    e = zlift(1e-15)
    return z3.And(zabs(r / r0 - 1) <= e, zabs(zabs(z / r0) - z0 / r0) <= e * zabs(z0 / r0))


def sphere_inside(a):
    x, y, z = (col(a, "observers", i) for i in range(3))
    r = zabs(col(a, "diameter")) / 2
    return x * x + y * y + z * z < r * r * (1 - zlift(1e-9))


def sphere_outside(a):
    x, y, z = (col(a, "observers", i) for i in range(3))
    r = zabs(col(a, "diameter")) / 2
    return x * x + y * y + z * z > r * r * (1 + zlift(1e-9))


def _seg_geom(a):
    x, y, z = (col(a, "observers", i) for i in range(3))
    r1, r2, h, p1, p2 = (col(a, "dimension", i) for i in range(5))
    r = t_sqrt(x * x + y * y)
    return r, z, zabs(r1), zabs(r2), zabs(h)


def segment_outside(a):
    r, z, r1, r2, h = _seg_geom(a)
    e = zlift(1e-9)
    return z3.Or(r > r2 * (1 + e) + e, r < r1 * (1 - e) - e, zabs(z) > h / 2 * (1 + e) + e)


def segment_inside(a):
    """strict interior of a (partial-angle) cylinder segment: radially and axially strictly inside and the azimuth strictly inside the sector, for ANY
    number of full turns k by which the sector angles phi1 <= phi2 are given (the input check accepts every phi1, phi2 with phi2 - phi1 <= 360)"""
    from engine.rowgen import uf

    r, z, r1, r2, h = _seg_geom(a)
    x, y = col(a, "observers", 0), col(a, "observers", 1)
    p1, p2 = col(a, "dimension", 3), col(a, "dimension", 4)
    pi = zlift(float(np.pi))
    phi = uf("arctan2", y, x)
    k = z3.Int("k_full_turns")
    theta = phi + 2 * pi * z3.ToReal(k)
    e, ea = zlift(1e-9), zlift(1e-6)
    return z3.And(-pi <= phi, phi <= pi,  # range of arctan2
                  r > r1 * (1 + e) + e, r < r2 * (1 - e) - e, zabs(z) < h / 2 * (1 - e) - e,
                  p1 / 180 * pi + ea < theta, theta < p2 / 180 * pi - ea)


def segment_angles_beyond_one_turn(a):
    """known-finding region: a sector given with angles outside [-360, 360] degrees"""
    p1, p2 = col(a, "dimension", 3), col(a, "dimension", 4)
    return z3.Or(p2 > 360, p1 < -360)


def segment_outside_radial_axial(a):
    """exterior of the enclosing full cylinder (used for the dispatcher, whose hollow-cylinder case is a difference of two cylinders)"""
    r, z, r1, r2, h = _seg_geom(a)
    e = zlift(1e-9)
    return z3.Or(r > r2 * (1 + e) + e, zabs(z) > h / 2 * (1 + e) + e)


def segment_outside_dispatch(a):
    """exterior for the dispatcher: radially/axially outside, or in the hole at an axial position that is strictly
    inside or strictly outside (in the thin axial boundary band the two cylinder contracts do not determine the difference)"""
    r, z, r1, r2, h = _seg_geom(a)
    e = zlift(1e-9)
    hole = z3.And(r < r1 * (1 - e) - e, z3.Or(zabs(z) < h / 2 * (1 - e) - e, zabs(z) > h / 2 * (1 + e) + e))
    return z3.Or(r > r2 * (1 + e) + e, zabs(z) > h / 2 * (1 + e) + e, hole)


def segment_full_shell_inside(a):
    """strict interior of a full-angle (hollow) cylinder described by CylinderSegment dimensions"""
    r, z, r1, r2, h = _seg_geom(a)
    p1, p2 = col(a, "dimension", 3), col(a, "dimension", 4)
    e = zlift(1e-9)
    return z3.And(p2 - p1 >= 360, r > r1 * (1 + e) + e, r < r2 * (1 - e) - e, zabs(z) < h / 2 * (1 - e) - e)


def segment_surface(a):
    """known-finding region for CylinderSegment rows: the observer lies on the surface of the segment
    (within the absolute/relative 1e-12 closeness and the 1e-14 slack the class documents). Written here from
    the geometry and pinned in this sidecar file, so that a change of the code's masks does not move the region."""
    from engine.rowgen import t_sign, uf

    x, y, z = (col(a, "observers", i) for i in range(3))
    r1, r2, h, p1, p2 = (col(a, "dimension", i) for i in range(5))
    r1, r2, h = zabs(r1), zabs(r2), zabs(h)
    pi = zlift(float(np.pi))
    p1, p2 = p1 / 180 * pi, p2 / 180 * pi
    z1, z2 = -h / 2, h / 2
    r = t_sqrt(x * x + y * y)
    phi = uf("arctan2", y, x)
    phio1, phio2 = phi, phi - t_sign(phi) * 2 * pi
    e12, e14 = zlift(1e-12), zlift(1e-14)
    close = lambda u, v: zabs(u - v) <= e12 + e12 * zabs(v)
    r_in = z3.And(r1 - e14 < r, r < r2 + e14)
    phi_in = z3.Or(t_sign(phio1 - p1) != t_sign(phio1 - p2), t_sign(phio2 - p1) != t_sign(phio2 - p2))
    z_in = z3.And(z1 - e14 < z, z < z2 + e14)
    surf_z = z3.And(z3.Or(close(z, z1), close(z, z2)), phi_in, r_in)
    surf_r = z3.And(z3.Or(close(r, r1), close(r, r2)), phi_in, z_in)
    surf_phi = z3.And(z3.Or(close(phio1, p1), close(phio2, p1), close(phio1, p2), close(phio2, p2)), r_in, z_in)
    return z3.Or(surf_z, surf_r, surf_phi)


# ---- stubs --------------------------------------------------------------------------------------
def st(name, nout, out_T=False):
    return lambda: core_stub(name, nout, out_T)


CALLEE_CONTRACTS = []  # instantiated contract formulas of stubbed *wrapper* callees (collected per run)


def wrapper_stub(dep, region=None, outside=None, inside=None):
    """contract stub for a callee that is itself a BHJM wrapper under contract (modular verification):
    returns a row-wise uninterpreted value per field; the callee's proved postcondition
    (B = MU0*H + J, J = MU0*M off the callee's known-finding region) is assumed at each call site."""

    def mk():
        def stub(field, observers, dimension, polarization, **kw):
            from engine.rowgen import check_same_rows, uf, _obj_terms

            tag = observers.tag
            for x in (dimension, polarization):
                check_same_rows(tag, x.tag)
            terms = [asreal(t) for g in (observers, dimension, polarization) for t in g.blocks[0].flat]
            vals = {f: [uf(f"{dep}_{f}_{j}", *terms) for j in range(3)] for f in "BHJM"}
            a = dict(observers=observers, dimension=dimension, polarization=polarization)
            reg = region(a) if region else z3.BoolVal(False)
            pol = [asreal(t) for t in polarization.blocks[0].flat]
            c = z3.And(*[vals["B"][j] == MU0 * vals["H"][j] + vals["J"][j] for j in range(3)],
                       *[vals["J"][j] == MU0 * vals["M"][j] for j in range(3)],
                       z3.Or(z3.And(*[vals["J"][j] == pol[j] for j in range(3)]), z3.And(*[vals["J"][j] == 0 for j in range(3)])))
            # assumed callee contract: kept among the axioms (assumptions), not in the path condition (code-derived facts)
            Ctx.cur.axioms.append(z3.Implies(z3.Not(reg), c))
            if outside is not None:
                Ctx.cur.axioms.append(z3.Implies(outside(a), z3.And(*[vals["J"][j] == 0 for j in range(3)])))
            if inside is not None:
                Ctx.cur.axioms.append(z3.Implies(inside(a), z3.And(*[vals["J"][j] == pol[j] for j in range(3)])))
            CALLEE_CONTRACTS.append((dep, reg))
            return G([_obj_terms(vals[field])], 0, tag)

        stub.__name__ = dep + "_contract_stub"
        return stub

    return mk


def point_inside_stub():
    """assumed contract: an arbitrary row-wise predicate of (observer, vertices), symmetric under exchanging
    vertices 2 and 3 (any symmetric predicate g equals h(V) & h(swap V) with h = g)"""
    pi = core_stub("point_inside", 1)

    def point_inside(points, vertices, in_out):
        if in_out == "inside":
            return (points[:, 0] == points[:, 0])
        if in_out == "outside":
            return ~(points[:, 0] == points[:, 0])
        sw = G([vertices.blocks[0][(0, 1, 3, 2), :]], 0, vertices.tag)
        a, b = pi(points, vertices), pi(points, sw)
        return (a[:, 0] != 0) & (b[:, 0] != 0)

    return point_inside


def chirality_stub():
    """assumed contract of check_chirality (verified separately in C08 for its in-place write): returns the vertices,
    rows with negative determinant having vertices 2 and 3 exchanged"""
    det = core_stub("det_neg", 1)

    def check_chirality(points):
        neg = det(points)[:, 0] != 0
        sw = G([points.blocks[0][(0, 1, 3, 2), :]], 0, points.tag)
        out = points.copy()
        out[neg] = sw[neg]
        return out

    return check_chirality


def mask_inside_trimesh_stub():
    return core_stub("inside_trimesh", 1)


# ---- positivity preconditions (valid objects as the setters guarantee) ---------------------------
def pre_cuboid(a):
    return [col(a, "dimension", i) > 0 for i in range(3)]


def pre_cyl(a):
    return [col(a, "dimension", i) > 0 for i in range(2)]


def pre_seg(a):
    r1, r2, h, p1, p2 = (col(a, "dimension", i) for i in range(5))
    return [r1 >= 0, r2 > 0, h > 0, r1 <= r2, p1 <= p2, p2 - p1 <= 360]


def pre_sphere(a):
    return [col(a, "diameter") > 0]


WRAPPERS = {}


def _reg(s):
    WRAPPERS[s.name] = s


_reg(Spec("Cuboid", "field_BH_cuboid", "BHJM_magnet_cuboid",
          dict(observers=(3,), dimension=(3,), polarization=(3,)),
          dict(magnet_cuboid_Bfield=st("cuboid_B", 3)), "magnet", pre_cuboid, cuboid_inside, cuboid_outside,
          lengths=("observers", "dimension")))
_reg(Spec("Cylinder", "field_BH_cylinder", "BHJM_magnet_cylinder",
          dict(observers=(3,), dimension=(2,), polarization=(3,)),
          dict(magnet_cylinder_diametral_Hfield=st("cyl_dia_H", 3, True), magnet_cylinder_axial_Bfield=st("cyl_ax_B", 3, True)),
          "magnet", pre_cyl, cylinder_inside, cylinder_outside, region={"cylinder-edge": cylinder_edge},
          lengths=("observers", "dimension")))
_reg(Spec("Sphere", "field_BH_sphere", "BHJM_magnet_sphere",
          dict(observers=(3,), diameter=(), polarization=(3,)), {}, "magnet", pre_sphere, sphere_inside, sphere_outside,
          lengths=("observers", "diameter")))
_reg(Spec("CylinderSegment(partial angle)", "field_BH_cylinder_segment", "BHJM_cylinder_segment",
          dict(observers=(3,), dimension=(5,), polarization=(3,)),
          dict(magnet_cylinder_segment_Hfield=st("seg_H", 3)),
          "magnet", pre_seg, segment_inside, segment_outside, region={"segment-surface": segment_surface, "segment-angles-beyond-360": segment_angles_beyond_one_turn},
          lengths=("observers", "dimension:0,1,2")))


def _seg_internal_region(a):
    """rows of the internal dispatcher that fall into a callee's known-finding region"""
    r1, r2, h, p1, p2 = (col(a, "dimension", i) for i in range(5))
    full = p2 - p1 >= 360

    def cyl(rad):
        b = dict(observers=a["observers"], dimension=G([np.array([2 * rad, h], dtype=object)], 0, None))
        return cylinder_edge(b)

    return z3.Or(z3.And(z3.Not(full), segment_surface(a)), z3.And(full, cyl(r2)), z3.And(full, r1 != 0, cyl(r1)))


_reg(Spec("CylinderSegment", "field_BH_cylinder_segment", "BHJM_cylinder_segment_internal",
          dict(observers=(3,), polarization=(3,), dimension=(5,)),
          dict(BHJM_cylinder_segment=wrapper_stub("wseg", segment_surface, segment_outside),
               BHJM_magnet_cylinder=wrapper_stub("wcyl", cylinder_edge, cylinder_outside, cylinder_inside)),
          "magnet", pre_seg, segment_full_shell_inside, segment_outside_dispatch, region={"segment-dispatch(callee regions)": _seg_internal_region},
          lengths=("observers", "dimension:0,1,2")))
_reg(Spec("Tetrahedron", "field_BH_tetrahedron", "BHJM_magnet_tetrahedron",
          dict(observers=(3,), vertices=(4, 3), polarization=(3,)),
          dict(point_inside=point_inside_stub, check_chirality=chirality_stub, BHJM_triangle=None), "magnet",
          lengths=("observers", "vertices")))
# TriangularMesh: regular branch (all meshes of the batch have the same facet count; 4 facets here), the in_out='auto' grouping loop is
# cut separately (checks/c06_trimesh.py: every row gets  base + polarization*[inside its OWN mesh]); 'inside'/'outside' are the two
# per-row behaviours the loop selects between
_reg(Spec("TriangularMesh(in_out=inside)", "field_BH_triangularmesh", "BHJM_magnet_trimesh",
          dict(observers=(3,), mesh=(4, 3, 3), polarization=(3,)), dict(BHJM_triangle=None), "magnet",
          inside=lambda a: z3.BoolVal(True), extra_kwargs=dict(in_out="inside"), lengths=("observers", "mesh")))
_reg(Spec("TriangularMesh(in_out=outside)", "field_BH_triangularmesh", "BHJM_magnet_trimesh",
          dict(observers=(3,), mesh=(4, 3, 3), polarization=(3,)), dict(BHJM_triangle=None), "magnet",
          outside=lambda a: z3.BoolVal(True), extra_kwargs=dict(in_out="outside"), lengths=("observers", "mesh")))
_reg(Spec("Triangle", "field_BH_triangle", "BHJM_triangle",
          dict(observers=(3,), vertices=(3, 3), polarization=(3,)),
          dict(triangle_Bfield=st("triangle_B", 3)), "sheet", lengths=("observers", "vertices")))
_reg(Spec("Dipole", "field_BH_dipole", "BHJM_dipole", dict(observers=(3,), moment=(3,)),
          dict(dipole_Hfield=st("dipole_H", 3)), "current", pol=None, homog=-3, lengths=("observers",)))
_reg(Spec("Circle", "field_BH_circle", "BHJM_circle", dict(observers=(3,), diameter=(), current=()),
          dict(current_circle_Hfield=st("circle_H", 3, True)), "current", pol=None, homog=-1, lengths=("observers", "diameter")))
_reg(Spec("Polyline", "field_BH_polyline", "BHJM_current_polyline",
          dict(observers=(3,), segment_start=(3,), segment_end=(3,), current=()),
          dict(current_polyline_Hfield=st("polyline_H", 3)), "current", pol=None, homog=-1,
          lengths=("observers", "segment_start", "segment_end")))


# ---- core field functions run as REAL code under the row-generic shim (no stub): the loop-free algebraic cores -------------------
CORES = {}


def _regc(s):
    CORES[s.name] = s


_regc(Spec("magnet_cuboid_Bfield", "field_BH_cuboid", "magnet_cuboid_Bfield", dict(observers=(3,), dimensions=(3,), polarizations=(3,)), {}, "core",
           pre=lambda a: [col(a, "dimensions", i) > 0 for i in range(3)], pol="polarizations", lengths=("observers", "dimensions"), has_field=False))
_regc(Spec("dipole_Hfield", "field_BH_dipole", "dipole_Hfield", dict(observers=(3,), moments=(3,)), {}, "core", pol="moments", homog=-3,
           lengths=("observers",), has_field=False))
_regc(Spec("triangle_Bfield", "field_BH_triangle", "triangle_Bfield", dict(observers=(3,), vertices=(3, 3), polarizations=(3,)), {}, "core",
           pol="polarizations", lengths=("observers", "vertices"), has_field=False))
_chir = Spec("check_chirality", "field_BH_tetrahedron", "check_chirality", dict(points=(4, 3)), {}, "core", pol=None, homog=1, lengths=("points",), has_field=False)
_chir.out_shape = (4, 3)
_chir.writes_argument_by_contract = True  # documented: reorders its argument in place; its call sites hand it fresh copies (C08)
_regc(_chir)
def cel_iter_stub():
    """assumed contract of special_cel.cel_iter: a row-wise function of its seven (unit-free) row arguments; termination and convergence are NOT
    part of this contract (C15's bounded stand-in)"""
    from engine.rowgen import check_same_rows, uf

    def cel_iter(*args):
        gs = [a for a in args if isinstance(a, G)]
        tag = gs[0].tag
        for a in gs[1:]:
            check_same_rows(tag, a.tag)
        terms = []
        for a in args:
            if not isinstance(a, G) or a.bax != 0 or a.tshape != () or len(a.blocks) != 1:
                raise Unsupported("cel_iter stub: argument shape")
            terms.append(asreal(a.blocks[0][()]))
        out = np.empty((), dtype=object)
        out[()] = uf("celiter_0", *terms)
        return G([out], 0, tag, gs[0].layout)

    return cel_iter


def rowfun_stub(name, nargs=None):
    """assumed contract of an elliptic-integral routine (cel, ellipe, ellipk): a row-wise function of its row arguments (constants allowed)"""
    from engine.rowgen import check_same_rows, uf

    def f(*args):
        gs = [a for a in args if isinstance(a, G)]
        if not gs:
            raise Unsupported(f"{name} stub without batch arguments")
        tag = gs[0].tag
        for a in gs[1:]:
            check_same_rows(tag, a.tag)
        terms = []
        for a in args:
            if isinstance(a, G):
                if a.bax != 0 or a.tshape != () or len(a.blocks) != 1:
                    raise Unsupported(f"{name} stub: argument shape")
                terms.append(asreal(a.blocks[0][()]))
            elif isinstance(a, (int, float)):
                terms.append(zlift(a))
            else:
                raise Unsupported(f"{name} stub: argument type")
        out = np.empty((), dtype=object)
        out[()] = uf(f"{name}_0", *terms)
        return G([out], 0, tag, gs[0].layout)

    f.__name__ = name
    return f


_cax = Spec("magnet_cylinder_axial_Bfield", "field_BH_cylinder", "magnet_cylinder_axial_Bfield", dict(z0=(), r=(), z=()), dict(cel=lambda: rowfun_stub("celv")), "core",
            pol=None, homog=0, lengths=(), has_field=False, out_T=True)
_cax.stub_rules = {"celv": ([Fraction(0)] * 4, Fraction(0), [Fraction(0)] * 4, Fraction(0))}
_regc(_cax)
_cdia = Spec("magnet_cylinder_diametral_Hfield", "field_BH_cylinder", "magnet_cylinder_diametral_Hfield", dict(z0=(), r=(), z=(), phi=()),
             dict(cel=lambda: rowfun_stub("celv"), ellipe=lambda: rowfun_stub("ellipe"), ellipk=lambda: rowfun_stub("ellipk")), "core",
             pol=None, homog=0, lengths=(), has_field=False, out_T=True)
_cdia.stub_rules = {"celv": ([Fraction(0)] * 4, Fraction(0), [Fraction(0)] * 4, Fraction(0)), "ellipe": ([Fraction(0)], Fraction(0), [Fraction(0)], Fraction(0)),
                    "ellipk": ([Fraction(0)], Fraction(0), [Fraction(0)], Fraction(0))}
_regc(_cdia)
_circ = Spec("current_circle_Hfield", "field_BH_circle", "current_circle_Hfield", dict(r0=(), r=(), z=(), i0=()), dict(cel_iter=cel_iter_stub), "core",
             pre=lambda a: [col(a, "r0") > 0, col(a, "r") > 0], pol="i0", homog=-1, lengths=("r0", "r", "z"), has_field=False, out_T=True)
_circ.stub_rules = {"celiter": ([Fraction(0)] * 7, Fraction(0), [Fraction(0)] * 7, Fraction(0))}
_regc(_circ)
_pin = Spec("point_inside", "field_BH_tetrahedron", "point_inside", dict(points=(3,), vertices=(4, 3)), {}, "core", pol=None, homog=0, lengths=("points", "vertices"),
            has_field=False, extra_kwargs=dict(in_out="auto"))
_pin.out_shape = ()
_regc(_pin)
# current_polyline_Hfield: np.empty is eliminated propositionally from the mask structure; then homogeneity, linearity, no-argument-write and the
# non-interference obligations are all decided on the real code.
_poly = Spec("current_polyline_Hfield", "field_BH_polyline", "current_polyline_Hfield", dict(observers=(3,), segments_start=(3,), segments_end=(3,), currents=()), {}, "core",
             pol="currents", homog=-1, lengths=("observers", "segments_start", "segments_end"), has_field=False, extra_ns=dict(norm=NPG.linalg.norm))
_regc(_poly)
