"""Contract stubs (assumed contracts of callees) used when verifying callers, and
shims for builtins.  Every stub listed here is reported as an assumed contract in
the evidence of the check that uses it, together with the place where the stubbed
function is itself verified (if it is).
"""
import numbers

import numpy as np

from engine.idx import Arr, SRot, as_arr
from engine.symex import SymInt
from magpylib._src.exceptions import MagpylibBadUserInput


class Bad:
    """an input that the validator rejects (the validator's own accept/reject table is C17's obligation)"""

    def __repr__(self):
        return "<rejected input>"


class Calls:
    """records calls to stubs"""

    def __init__(self):
        self.log = []
        self.fail_at = None  # index of the validator call that raises (fault injection for exceptional postconditions)

    def tick(self, name):
        i = len(self.log)
        self.log.append(name)
        if self.fail_at is not None and i == self.fail_at:
            raise MagpylibBadUserInput(f"injected rejection at validator call #{i} ({name})")


def make_vector_stub(calls):
    def check_format_input_vector(
        inp, dims, shape_m1, sig_name, sig_type, length=None, reshape=False, allow_None=False, forbid_negative0=False
    ):
        """assumed contract: None passes if allowed; a rejected input raises MagpylibBadUserInput;
        an accepted one is returned as a fresh float array of the same rows, reshaped to (-1,3) if asked"""
        calls.tick("check_format_input_vector:" + sig_name)
        if allow_None and inp is None:
            return None
        if isinstance(inp, Bad) or inp is None:
            raise MagpylibBadUserInput(f"bad {sig_name}")
        a = as_arr(inp).snapshot()
        if a.ndim not in dims:
            raise MagpylibBadUserInput(f"bad {sig_name} ndim")
        if reshape and a.length is None:
            v = a.at(None)
            a = Arr(1, lambda i: v, a.kind)
        return a

    return check_format_input_vector


def s_isinstance(obj, cls):
    """shim for `isinstance`: a SymInt is an int; Bad is nothing"""
    if isinstance(obj, SymInt):
        cl = cls if isinstance(cls, tuple) else (cls,)
        return any(c in (int, np.integer, numbers.Number, numbers.Integral) for c in cl)
    cl = cls if isinstance(cls, tuple) else (cls,)
    cl = tuple(SRot if getattr(c, "__name__", "") == "Rotation" else c for c in cl)
    cl = tuple(c for c in cl if isinstance(c, type))
    return isinstance(obj, cl)
