"""Re-bound namespaces of the real path-handling code (class_BaseTransform, class_BaseGeo,
the orientation/anchor/start validators of input_checks) over the index-map shim.

Dropped bindings (exactly): np -> engine.idx.NPs, R / Rotation -> engine.idx.SRot,
builtins len -> slen, isinstance -> s_isinstance, and check_format_input_vector -> contract stub.
Everything else — including the real check_format_input_orientation / _anchor /
check_start_type / pad_slice_path / path_padding* / multi_anchor_behavior — is the
real bytecode.
"""
import magpylib._src.input_checks as IC
import magpylib._src.obj_classes.class_BaseGeo as BG
import magpylib._src.obj_classes.class_BaseTransform as BT
from contracts.stubs import Calls, make_vector_stub, s_isinstance
from engine.idx import NPs, SRot, slen
from engine.rebind import rebind, rebind_class


class PathNS:
    def __init__(self, extra_bt=None):
        self.calls = Calls()
        vec = make_vector_stub(self.calls)
        calls = self.calls

        self.ic = rebind(
            IC,
            dict(np=NPs, Rotation=SRot, isinstance=s_isinstance, len=slen, check_format_input_vector=vec),
        )

        def counted(name):
            f = self.ic[name]

            def g(*a, **k):
                calls.tick(name)
                return f(*a, **k)

            g.__real__ = getattr(f, "__real__", f)
            return g

        shared = dict(
            np=NPs,
            R=SRot,
            len=slen,
            isinstance=s_isinstance,
            check_format_input_vector=vec,
            check_format_input_orientation=counted("check_format_input_orientation"),
            check_format_input_anchor=counted("check_format_input_anchor"),
            check_start_type=counted("check_start_type"),
            check_degree_type=counted("check_degree_type"),
        )
        o = dict(shared)
        o.update(extra_bt or {})
        self.bt = rebind(BT, o)
        self.bg = rebind(BG, shared)
        self.BaseTransform = rebind_class(BT.BaseTransform, self.bt)
        self.bg["BaseTransform"] = self.BaseTransform
        self.Node = rebind_class(
            BG.BaseGeo,
            self.bg,
            base=self.BaseTransform,
            names={"_init_position_orientation", "position", "orientation", "reset_path"},
        )

    def node(self, pos, ori, children=None):
        o = object.__new__(self.Node)
        o._position, o._orientation = pos, ori
        if children is not None:
            o.children = children
        return o


REAL_FUNCS = [
    BT.path_padding_param,
    BT.path_padding,
    BT.multi_anchor_behavior,
    BT.apply_move,
    BT.apply_rotation,
    BT.BaseTransform.move,
    BT.BaseTransform._rotate,
    BT.BaseTransform.rotate,
    BG.pad_slice_path,
    BG.BaseGeo._init_position_orientation,
    BG.BaseGeo.position,
    BG.BaseGeo.orientation,
    BG.BaseGeo.reset_path,
    IC.check_format_input_orientation,
    IC.check_format_input_anchor,
    IC.check_start_type,
]
