"""Term-exact execution of the real getBH_level2 (bounded stand-in engine for C03-C08).

The real  getBH_level2 -> get_src_dict -> tile_group_property -> getBH_level1  (code objects from /repo,
re-bound so that `np.empty` allocates dtype=object and `R` is the word-rotation shim) run with REAL NumPy
doing all index plumbing on object arrays whose elements are canonical terms (standins/talg.py).
Field functions are uninterpreted: F_group(field, local observer, own properties).  The element at
(l, m, k, pixel) is compared with the term the properties prescribe:

  E = flip_k( S_k[mk]^-1 . sum_{leaf in leaves(source l)} R_leaf[ml] . F_leaf( R_leaf[ml]^-1 ( S_k[mk].pix + s_k[mk] - p_leaf[ml] ) ) )

with mk = min(m, len_k - 1), ml = min(m, len_leaf - 1) ("shorter paths stay at their last pose").
All numeric values and all rotations are covered for each enumerated STRUCTURE (numbers of sources /
collections / sensors, nesting, path lengths, pixel shapes); the structure is bounded -> stand-in.
"""
import itertools
import warnings
from fractions import Fraction

import numpy as np

import magpylib as magpy
import magpylib._src.fields.field_wrap_BH as FW
from engine.rebind import rebind
from standins.talg import Rot, S, as_vecform, from_vecform, symrot, sympath, vec, vkey, winv, wmul

warnings.simplefilter("ignore")


class NPshim:
    def __getattr__(self, n):
        return getattr(np, n)

    @staticmethod
    def empty(shape, *a, **k):
        return np.empty(shape, dtype=object)


def harness_ns(extra=None):
    o = dict(np=NPshim(), R=Rot)
    o.update(extra or {})
    return rebind(FW, o)


# ---------------------------------------------------------------------------------- symbolic objects
class PropSource(magpy.misc.CustomSource):
    """a source class with per-instance array properties (exercises tile_group_property)"""

    _field_func_kwargs_ndim = {"polarization": 2, "dimension": 2, "vertices": 3}


def make_ff(gname):
    """uninterpreted field function of a group: result term keyed by (group, field, local observer, own properties)"""

    def ff(field, observers, **props):
        out = np.empty((len(observers), 3), dtype=object)
        for i, row in enumerate(observers):
            key = [("obs", vkey(row))]
            for pn in sorted(props):
                pv = props[pn][i]
                pv = np.asarray(pv, dtype=object)
                if pv.ndim == 1:
                    key.append((pn, vkey(pv)))
                else:
                    key.append((pn, tuple(vkey(r) for r in pv)))
            out[i] = vec(("F", gname, field, tuple(key)))
        return out

    ff.__name__ = "ff_" + gname
    return ff


def make_source(name, m, rk, ff, props=None):
    if props:
        src = PropSource(field_func=None)
        for pn, pv in props.items():
            setattr(src, pn, pv)
    else:
        src = magpy.misc.CustomSource(field_func=None)
    src._field_func = ff
    src._position = sympath("p_" + name, m)
    src._orientation = symrot("R_" + name, m, rk)
    src._vname = name
    src._props = props or {}
    return src


def make_sensor(name, m, rk, pixshape, hand="right"):
    s = magpy.Sensor(handedness=hand)
    s._position = sympath("s_" + name, m)
    s._orientation = symrot("S_" + name, m, rk)
    if pixshape is not None:
        n = int(np.prod(pixshape[:-1])) if len(pixshape) > 1 else 1
        pix = np.empty(pixshape, dtype=object)
        flat = pix.reshape(-1, 3)
        for i in range(n):
            flat[i] = vec(("pix_" + name, i))
        s._pixel = pix
    s._vname = name
    return s


def leaves(src):
    if isinstance(src, magpy.Collection):
        out = []
        for c in src.children:
            if isinstance(c, magpy.Collection) or not isinstance(c, magpy.Sensor):
                out += leaves(c)
        return out
    return [src]


def snapshot(objs):
    return {id(o): (o._position.copy(), list(o._orientation.words), o._orientation.single) for o in objs}


def restored(objs, snap):
    for o in objs:
        p, w, sg = snap[id(o)]
        if o._position.shape != p.shape or not all(a == b for a, b in zip(o._position.flat, p.flat)):
            return f"position path of {getattr(o, '_vname', o)} changed: shape {o._position.shape} (was {p.shape})"
        if list(o._orientation.words) != w:
            return f"orientation path of {getattr(o, '_vname', o)} changed: length {len(o._orientation.words)} (was {len(w)})"
    return None


def expected_leaf(leaf, field, sens, m_idx, pix_idx):
    ms = min(m_idx, len(leaf._position) - 1)
    mk = min(m_idx, len(sens._position) - 1)
    Rw, Sw = leaf._orientation.words[ms], sens._orientation.words[mk]
    if sens._pixel is None:
        g = sens._position[mk]
    else:
        pv = sens._pixel.reshape(-1, 3)[pix_idx]
        g = Rot([Sw], True).apply(pv) + sens._position[mk]
    loc = Rot([Rw], True).apply(g - leaf._position[ms], inverse=True)
    key = [("obs", vkey(loc))]
    for pn in sorted(leaf._props):
        pv = np.asarray(leaf._props[pn], dtype=object)
        key.append((pn, vkey(pv) if pv.ndim == 1 else tuple(vkey(r) for r in pv)))
    f = vec(("F", leaf._field_func.__name__[3:], field, tuple(key)))
    return Rot([Rw], True).apply(f)


def expected(src, field, sens, m_idx, pix_idx):
    mk = min(m_idx, len(sens._position) - 1)
    Sw = sens._orientation.words[mk]
    tot = None
    for leaf in leaves(src):
        e = expected_leaf(leaf, field, sens, m_idx, pix_idx)
        tot = e if tot is None else tot + e
    out = Rot([Sw], True).apply(tot, inverse=True)
    if sens.handedness == "left":
        out = out * np.array([-1, 1, 1], dtype=object)
    return out


def npix_of(sens):
    if sens._pixel is None or sens._pixel.ndim == 1:
        return 1
    return int(np.prod(sens._pixel.shape[:-1]))


def run_level2(ns, sources, sensors, field="B", sumup=False, squeeze=False, pixel_agg=None, output="ndarray", in_out="auto"):
    return ns["getBH_level2"](sources, sensors, field=field, sumup=sumup, squeeze=squeeze, pixel_agg=pixel_agg,
                              output=output, in_out=in_out)


def check_structure(ns, sources, sensors, field="B", sumup=False, pixel_agg=None, restore_check=False):
    """runs the real getBH_level2 term-exactly and compares every element with the prescribed term.
    returns (n_elements, list of mismatch messages)"""
    objs = []
    for s in sources:
        objs += leaves(s)
    objs += sensors
    snap = snapshot(objs)
    B = run_level2(ns, sources, sensors, field=field, sumup=sumup, pixel_agg=pixel_agg)
    M = max(len(o._position) for o in objs)
    msgs = []
    r = restored(objs, snap)
    if r and restore_check:  # the restore of tiled paths is C08's property: not reported under the value properties C03-C07
        msgs.append("C08: " + r)
    L = 1 if sumup else len(sources)
    K = len(sensors)
    if B.shape[:3] != (L, M, K):
        msgs.append(f"shape {B.shape}, expected leading {(L, M, K)}")
        return 0, msgs
    n = 0
    for l in range(L):
        srcs = sources if sumup else [sources[l]]
        for mi in range(M):
            for k, sens in enumerate(sensors):
                npx = npix_of(sens)
                vals = []
                for p in range(npx):
                    e = None
                    for s in srcs:
                        x = expected(s, field, sens, mi, p)
                        e = x if e is None else e + x
                    vals.append(e)
                if pixel_agg is None:
                    got = np.asarray(B[l, mi, k], dtype=object).reshape(-1, 3)
                    exp = vals
                else:
                    got = np.asarray(B[l, mi, k], dtype=object).reshape(-1, 3)
                    tot = vals[0]
                    for v in vals[1:]:
                        tot = tot + v
                    exp = [tot / npx if pixel_agg == "mean" else tot]
                if len(got) != len(exp):
                    msgs.append(f"element ({l},{mi},{k}): {len(got)} pixel entries, expected {len(exp)}")
                    continue
                for p, (g, e) in enumerate(zip(got, exp)):
                    n += 1
                    if not all(S.lift(a) == S.lift(b) for a, b in zip(g, e)):
                        if len(msgs) < 5:
                            msgs.append(f"element (source {l}, path {mi}, sensor {k}, pixel {p}): got {g[0]!r}, prescribed {e[0]!r}")
                        else:
                            msgs.append("...")
    return n, msgs


# ---------------------------------------------------------------------------------- structure enumeration
def build(spec):
    """spec: dict(sources=[...], sensors=[...]); source entry: ('s', name, m, rk, group, props?) or ('c', [entries])"""
    ffs = {}

    def mk(e):
        if e[0] == "s":
            _, name, m, rk, group = e[:5]
            props = None
            if len(e) > 5 and e[5]:
                props = {}
                for pn in e[5]:
                    if pn == "vertices":
                        kk = e[6] if len(e) > 6 else 2
                        a = np.empty((kk, 3), dtype=object)
                        for i in range(kk):
                            a[i] = vec(("vert_" + name, i))
                        props[pn] = a
                    else:
                        props[pn] = vec((pn + "_" + name,))
            ff = ffs.setdefault(group, make_ff(group))
            return make_source(name, m, rk, ff, props)
        col = magpy.Collection()
        kids = [mk(x) for x in e[1]]
        col._children = kids  # private: no pose bookkeeping of add() needed for field computation
        col._sources = [k for k in kids if not isinstance(k, (magpy.Collection, magpy.Sensor))]
        col._collections = [k for k in kids if isinstance(k, magpy.Collection)]
        col._sensors = []
        for k in kids:
            k._parent = col
        return col

    sources = [mk(e) for e in spec["sources"]]
    sensors = [make_sensor(*e) for e in spec["sensors"]]
    return sources, sensors


def structures(tier, seed, focus="all"):
    """a deterministic family of small structures; thorough = more of the product"""
    rng = np.random.default_rng(seed)
    paths = [(1, "id"), (1, "static"), (2, "var"), (3, "static"), (3, "var")]
    pixs = [None, (3,), (2, 3), (1, 3), (2, 2, 3)]
    out = []
    # family A: two sources of different groups, one sensor (poses / pixels / handedness product)
    for (m1, r1), (m2, r2), (mk, rk), px, hand in itertools.product(paths[:3] + paths[4:], paths[1:4], paths, pixs, ("right", "left")):
        out.append(dict(sources=[("s", "a", m1, r1, "g1"), ("s", "b", m2, r2, "g2")], sensors=[("k", mk, rk, px, hand)]))
    # family B: sources sharing one group (tiling inside a group), with properties incl. ragged vertices; duplicates; collections
    for (m1, r1), (m2, r2), (mk, rk), px in itertools.product(paths[2:], paths[:3], [(1, "id"), (3, "var")], [None, (2, 3)]):
        out.append(dict(sources=[("s", "a", m1, r1, "g1", ("polarization", "dimension")), ("s", "b", m2, r2, "g1", ("polarization", "dimension")),
                                 ("s", "c", 1, "static", "g2"), ("s", "d", m2, r2, "g1", ("polarization", "dimension"))],
                        sensors=[("k", mk, rk, px, "right"), ("j", 1, "static", px, "left")]))
        out.append(dict(sources=[("s", "a", m1, r1, "g3", ("vertices",), 2), ("s", "b", m2, r2, "g3", ("vertices",), 3),
                                 ("s", "c", 1, "id", "g3", ("vertices",), 2)],
                        sensors=[("k", mk, rk, px, "right")]))
        out.append(dict(sources=[("c", [("s", "a", m1, r1, "g1"), ("s", "b", m2, r2, "g2"), ("c", [("s", "e", 1, "static", "g1")])]),
                                 ("s", "c", m2, r2, "g1"), ("c", [("s", "d", 2, "var", "g2")])],
                        sensors=[("k", mk, rk, px, "right"), ("j", 2, "var", px, "right")]))
    # family C: every arrangement of <= 3 (thorough: <= 4) top-level entries from {source, collection of 1/2/3 leaves, nested collection}
    fam_c = []
    kinds = ("s", "c1", "c2", "c3", "cn")
    cnt = [0]

    def entry(kd):
        cnt[0] += 1
        nm = f"x{cnt[0]}"
        mr = [(1, "static"), (2, "var"), (3, "var")][cnt[0] % 3]
        g = ["g1", "g2"][cnt[0] % 2]
        if kd == "s":
            return ("s", nm, mr[0], mr[1], g)
        if kd == "cn":
            return ("c", [("s", nm + "a", 1, "static", "g1"), ("c", [("s", nm + "b", mr[0], mr[1], "g2")])])
        return ("c", [("s", f"{nm}{i}", mr[0] if i == 0 else 1, mr[1] if i == 0 else "static", ["g1", "g2"][i % 2]) for i in range(int(kd[1]))])

    for L in (1, 2, 3, 4) if tier == "thorough" else (1, 2, 3):
        for combo in itertools.product(kinds, repeat=L):
            cnt[0] = 0
            fam_c.append(dict(sources=[entry(kd) for kd in combo], sensors=[("k", 2, "var", (2, 3), "right")]))
    # family D: sensor orientation paths that return to their start (first == last, different in between), several pixel shapes
    fam_d = []
    for (m1, r1), px, hand in itertools.product([(1, "static"), (3, "var"), (5, "loop")], pixs, ("right", "left")):
        fam_d.append(dict(sources=[("s", "a", m1, r1, "g1"), ("s", "b", 1, "id", "g2")], sensors=[("k", 5, "loop", px, hand)]))
        fam_d.append(dict(sources=[("s", "a", m1, r1, "g1")], sensors=[("k", 3, "loop", px, hand), ("j", 4, "loop", px, "right")]))
    if tier == "quick":
        idx = rng.permutation(len(out))[:200] if focus == "all" else rng.permutation(len(out))[:100]
        out = [out[i] for i in sorted(idx)]
        idc = sorted(rng.permutation(len(fam_c))[:70])
        idd = sorted(rng.permutation(len(fam_d))[:16])
        # all arrangements of length <= 2 always, a sample of the longer ones
        short = [f for f in fam_c if len(f["sources"]) <= 2]
        out = out + short + [fam_c[i] for i in idc if len(fam_c[i]["sources"]) > 2] + [fam_d[i] for i in idd]
    else:
        out = out + fam_c + fam_d
    return out


def sweep(ns, tier, seed, focus="all", fields=("B",), sumups=(False, True), aggs=(None,)):
    """returns (structures, elements, failures[list of (spec, kw, msgs)], samples)"""
    nst = nel = 0
    fails = []
    sample = None
    for spec in structures(tier, seed, focus):
        for field, sumup, agg in itertools.product(fields, sumups, aggs):
            if agg is None and len({e[3] for e in spec["sensors"]}) > 1:
                continue
            sources, sensors = build(spec)
            try:
                n, msgs = check_structure(ns, sources, sensors, field=field, sumup=sumup, pixel_agg=agg)
            except Exception as e:  # pylint: disable=broad-except
                n, msgs = 0, [f"raised {type(e).__name__}: {e}"]
            nst += 1
            nel += n
            if sample is None:
                sample = dict(spec=spec, field=field, sumup=sumup, pixel_agg=agg, elements=n)
            if msgs:
                fails.append((spec, dict(field=field, sumup=sumup, pixel_agg=agg), msgs))
    return nst, nel, fails, sample


REPLAY = """import sys, json
from standins import level2
spec, kw = json.loads({spec!r}), json.loads({kw!r})
spec['sources'] = level2._detuple(spec['sources']); spec['sensors'] = [tuple(x[:3]) + (tuple(x[3]) if x[3] else None, x[4]) for x in spec['sensors']]
ns = level2.harness_ns()
sources, sensors = level2.build(spec)
n, msgs = level2.check_structure(ns, sources, sensors, **kw)
for m in msgs: print(m)
print('elements compared:', n, 'mismatches:', len(msgs))
sys.exit(1 if msgs else 0)
"""


def _detuple(entries):
    out = []
    for e in entries:
        if e[0] == "c":
            out.append(("c", _detuple(e[1])))
        else:
            e = list(e)
            if len(e) > 5 and e[5]:
                e[5] = tuple(e[5])
            out.append(tuple(e))
    return out


def report(rep, label, nst, nel, fails, sample, bound, prop_filter=None):
    import json

    rep.standin(label, bound, nel, nst, "every structure of the family x field x sumup x pixel_agg; all numeric values and rotations symbolic "
                "(canonical terms); distinct = structures", [sample], failures=len(fails))
    for spec, kw, msgs in fails[:2]:
        rep.violation(f"standin.level2[{label.split(':')[0]}]",
                      {"native_result": msgs[:5], "structure": spec, "call": kw,
                       "script": REPLAY.format(spec=json.dumps(spec), kw=json.dumps(kw))})


def standin_c06(rep, tier, seed):
    ns = harness_ns()
    nst, nel, fails, sample = sweep(ns, tier, seed, "all", fields=("B", "H"), sumups=(False,), aggs=(None,))
    report(rep, "level-2 element provenance: element (l,m,k,pixel) = own source, own path index, own pixel (term-exact)",
           nst, nel, fails, sample, "<= 4 sources (nested collections, shared groups, ragged properties), path lengths <= 3, <= 2 sensors, pixel shapes up to (2,2,3)")
