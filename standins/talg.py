"""Term algebra for the term-exact execution of getBH_level2 (bounded stand-in engine).

scalars  = linear combinations over atoms (rotation word, base vector symbol, component), exact Fractions;
rotation = free-group reduced word of (rotation symbol, +-1);
`act` is linear, so every value has a canonical normal form and comparison is plain equality.
Real NumPy does all index plumbing on dtype=object arrays holding these scalars.
"""
from fractions import Fraction

import numpy as np


def wmul(w1, w2):
    w = list(w1)
    for g in w2:
        if w and w[-1][0] == g[0] and w[-1][1] == -g[1]:
            w.pop()
        else:
            w.append(g)
    return tuple(w)


def winv(w):
    return tuple((g, -e) for g, e in reversed(w))


class S:
    """scalar: dict {(word, base, comp): coeff}; constant term under key None"""

    __array_priority__ = 1000
    __slots__ = ("d",)

    def __init__(self, d=None):
        self.d = {k: v for k, v in (d or {}).items() if v != 0}

    @staticmethod
    def lift(x):
        if isinstance(x, S):
            return x
        if isinstance(x, (float, np.floating)):
            return S({None: Fraction(float(x))})
        return S({None: Fraction(int(x))})

    def __add__(self, o):
        o = S.lift(o)
        d = dict(self.d)
        for k, v in o.d.items():
            d[k] = d.get(k, 0) + v
        return S(d)

    __radd__ = __add__

    def __neg__(self):
        return S({k: -v for k, v in self.d.items()})

    def __sub__(self, o):
        return self + (-S.lift(o))

    def __rsub__(self, o):
        return S.lift(o) + (-self)

    def __mul__(self, o):
        o = S.lift(o)
        if set(o.d) <= {None}:
            c = o.d.get(None, 0)
            return S({k: v * c for k, v in self.d.items()})
        if set(self.d) <= {None}:
            c = self.d.get(None, 0)
            return S({k: v * c for k, v in o.d.items()})
        raise TypeError("nonlinear product of symbolic scalars")

    __rmul__ = __mul__

    def __truediv__(self, o):
        o = S.lift(o)
        if not set(o.d) <= {None} or not o.d:
            raise TypeError("division by symbolic scalar")
        return S({k: v / o.d[None] for k, v in self.d.items()})

    def __eq__(self, o):
        if isinstance(o, (S, int, float, np.integer, np.floating)):
            return self.d == S.lift(o).d
        return False

    def __ne__(self, o):
        return not self == o

    def __hash__(self):
        return hash(frozenset(self.d.items()))

    def __repr__(self):
        if not self.d:
            return "0"
        return " + ".join(f"{v}*{_atom(k)}" for k, v in sorted(self.d.items(), key=str))


def _atom(k):
    if k is None:
        return "1"
    w, b, c = k
    ws = "".join(f"{g}{'' if e > 0 else '^-1'}." for g, e in w)
    return f"{ws}{b}[{'xyz'[c]}]"


def vec(base, word=()):
    return np.array([S({(word, base, c): Fraction(1)}) for c in range(3)], dtype=object)


def as_vecform(row):
    """3 scalars -> dict {(word, base): coeff}; raises if they are not the components of one vector combination"""
    out = {}
    row = [S.lift(s) for s in row]
    for c, s in enumerate(row):
        for k, v in s.d.items():
            if k is None:
                raise ValueError("constant component")
            w, b, cc = k
            if cc != c:
                raise ValueError("component mixing: not a vector")
            if c == 0:
                out[(w, b)] = v
            elif out.get((w, b)) != v:
                raise ValueError("not a vector")
    for s in row:
        if len(s.d) != len(out):
            raise ValueError("not a vector")
    return out


def from_vecform(vf):
    return np.array([S({(w, b, c): v for (w, b), v in vf.items()}) for c in range(3)], dtype=object)


def vkey(row):
    return frozenset(as_vecform(row).items())


class Rot:
    """shim for scipy Rotation: an array (or a single) of rotation words"""

    def __init__(self, words, single=False):
        self.words, self.single = list(words), single

    @staticmethod
    def from_quat(q):
        q = np.asarray(q, dtype=object)
        if q.ndim == 1:
            return Rot([Rot._w(q)], single=True)
        return Rot([Rot._w(r) for r in q])

    @staticmethod
    def _w(r):
        if isinstance(r[0], tuple) and r[0][0] == "W":
            return r[0][1]
        if [x for x in r] == [0, 0, 0, 1]:
            return ()
        raise ValueError(f"quaternion row is neither a word token nor the identity: {list(r)}")

    def as_quat(self):
        a = np.empty((len(self.words), 4), dtype=object)
        for i, w in enumerate(self.words):
            row = [("W", w), 0, 0, 0] if w else [0, 0, 0, 1.0]
            for j, x in enumerate(row):
                a[i, j] = x
        return a[0] if self.single else a

    def __len__(self):
        if self.single:
            raise TypeError("Single rotation has no len().")
        return len(self.words)

    def __getitem__(self, k):
        if self.single:
            raise TypeError("Single rotation is not subscriptable.")
        if isinstance(k, slice):
            return Rot(self.words[k])
        return Rot([self.words[k]], single=True)

    def __iter__(self):
        return iter(Rot([w], single=True) for w in self.words)

    def inv(self):
        return Rot([winv(w) for w in self.words], self.single)

    def __mul__(self, o):
        a, b = self.words, o.words
        if len(a) == 1:
            a = a * len(b)
        if len(b) == 1:
            b = b * len(a)
        assert len(a) == len(b)
        return Rot([wmul(x, y) for x, y in zip(a, b)], self.single and o.single)

    def apply(self, v, inverse=False):
        v = np.asarray(v, dtype=object)
        single_v = v.ndim == 1
        V = v.reshape(-1, 3)
        words = self.words if len(self.words) > 1 else self.words * len(V)
        if len(V) == 1 and len(words) > 1:
            V = np.repeat(V, len(words), axis=0)
        if len(words) != len(V):
            raise ValueError(f"Expected equal numbers of rotations and vectors, or a single one: {len(words)} vs {len(V)}")
        out = np.empty_like(V)
        for i, (w, row) in enumerate(zip(words, V)):
            w = winv(w) if inverse else w
            vf = as_vecform(row)
            out[i] = from_vecform({(wmul(w, ww), b): c for (ww, b), c in vf.items()})
        return out[0] if (single_v and len(self.words) == 1) else out


def sympath(name, m):
    return np.array([vec((name, i)) for i in range(m)], dtype=object)


def symrot(name, m, kind):
    """kind: 'id' (unit rotation literal), 'static' (one symbol along the path), 'var' (one symbol per step)"""
    if kind == "id":
        return Rot([()] * m)
    if kind == "static":
        return Rot([((name, 1),)] * m)
    if kind == "loop":  # varying orientation that returns to where it started (first == last, steps in between differ)
        return Rot([(((name, min(i, m - 1 - i)), 1),) for i in range(m)])
    return Rot([(((name, i), 1),) for i in range(m)])
