SOURCE_COMMITS = ["870ee9b fix: CylinderSegment J/M must not depend on the rest of the batch"]
CHECKS = {
 "C09": dict(level="proof",
   text="All path arithmetic of move/rotate/setters/constructor is proved against an independent specification for all path lengths, input lengths and start values: the real code objects are symbolically executed over index-map arrays of symbolic length and every postcondition/safety/exceptional obligation is discharged by z3. A native small-scope sweep of the same contract is a labelled bounded stand-in.",
   note="Assumes: check_format_input_vector's contract (verified separately in C17), scipy Rotation group laws and from_* constructors, NumPy pad/slice semantics as modelled (cross-checked natively), floats as reals.",
   technique="contract-based deductive verification: VC generation by symbolic execution of the real code objects + z3/cvc5"),
 "C10": dict(level="proof",
   text="For a depth-3 tree of real (re-bound) BaseGeo objects with symbolic common path length, every node's new pose after move / rotate (all anchor kinds, start values) / position= / orientation= is proved equal to one and the same rigid transformation of its old pose at the C09 index map (QF UF+LIA obligations on the real code), and the relative-pose invariance then follows from algebraic lemmas decided by a canonical normal form; frame obligations show that operating on a child leaves parent and siblings untouched. Arbitrary depth/arity is an induction stated as a meta-argument.",
   note="Assumes scipy Rotation group laws, check_format_input_vector's contract, equal path lengths in the tree (the property's own precondition); the field-invariance corollary rests on C03/C04.",
   technique="contract-based deductive verification: symbolic execution of the real code objects + z3; lemmas by normal form (free group x linear forms)"),
 "C02": dict(level="proof",
   text="Each BHJM_* wrapper (Cuboid, Cylinder, Sphere, CylinderSegment partial-angle and dispatcher, Tetrahedron, Triangle, Dipole, Circle, Polyline) is symbolically executed on one generic row for B,H,J,M with core field functions as uninterpreted row-wise stubs and symbolic mu_0; B=mu_0*H+J, J=mu_0*M, J in {0,polarization}, J=polarization strictly inside / 0 strictly outside, J=M=0 for currents/dipole/sheets are discharged by z3 for every compatible path combination, i.e. for every row of every batch. Magnet setters are checked against the exported constant and every field module's MU0 binding and near-mu_0 literals are audited. Known findings (cylinder edge, segment surface, setter constant) are proved on the complement of a recorded region.",
   note="Assumes: cores are row-wise (C06), reals for doubles, tetrahedron point_inside symmetric under the chirality swap, TriangularMesh wrapper only via C06 + stand-in. Native random/special-row identities are a labelled bounded stand-in.",
   technique="contract-based deductive verification: row-generic symbolic execution of the real wrappers + z3"),
 "C06": dict(level="proof",
   text="Non-interference of batch-global values: every BHJM wrapper is executed row-generically to path exhaustion and, for any two global situations (any()/all()/len of the batch) consistent with the same row, the row's B/H/J/M are proved equal (z3) - so a row's value cannot depend on what else is in the call at the wrapper level. The TriangularMesh grouping loop is cut with an inductive invariant. Level-2 element provenance (grouping/tiling/reshape, path tiling of shorter objects) is carried by a labelled bounded term-exact stand-in, vectorised==element-wise natively.",
   note="Assumes cores row-wise where not reached (listed in evidence), elliptic routines row-wise (bounded numeric stand-in), reals for doubles.",
   technique="contract-based deductive verification: row-generic symbolic execution + z3 (non-interference), loop invariant for the trimesh grouping loop"),
 "C12": dict(level="proof",
   text="Homogeneity type derivation (dimension calculus) over the exact term DAG each real BHJM wrapper computes on a generic row, for every path: all branch masks and J, M are proved unit-free and B, H of degree 0 / -1 / -3 in the length unit, and of degree 1 in the excitation, given the assumed homogeneity contracts of the core stubs. Absolute constants mixed with lengths are type errors (CylinderSegment's 1e-14 / 1e-12 are a recorded known finding identified by call-site constants). Numeric decade sweep on the real classes is a labelled bounded stand-in.",
   note="Assumes homogeneity of the core field functions (not proved), reals for doubles; TriangularMesh wrapper / mesh validation only in the numeric stand-in.",
   technique="contract-based deductive verification: symbolic execution of the real wrappers + dimension-calculus type derivation over the resulting terms"),
}
_NB = "stand-in / contracts not built yet in this session (see DESIGN.md); not claimed"
NA = {
 "C01": "oracle is a line/surface integral over transcendental closed forms (arctan2/log/elliptic integrals, convergence loops in doubles): not expressible as a first-order contract any installed back end can discharge without a hand transcription (a model)",
 "C13": "equalities between independent transcendental closed forms / limits; no contract within reach can decide them",
 "C14": "flux and circulation are integrals of the returned field over arbitrary surfaces/loops: not a per-call contract, no back end for it here",
}
for k in ["C02","C03","C04","C05","C06","C07","C08","C10","C11","C12","C15","C16","C17","C18","C19","C20"]:
    NA.setdefault(k, _NB)
