SOURCE_COMMITS = ["870ee9b fix: CylinderSegment J/M must not depend on the rest of the batch"]
CHECKS = {
 "C09": dict(level="proof",
   text="All path arithmetic of move/rotate/setters/constructor is proved against an independent specification for all path lengths, input lengths and start values: the real code objects are symbolically executed over index-map arrays of symbolic length and every postcondition/safety/exceptional obligation is discharged by z3. A native small-scope sweep of the same contract is a labelled bounded stand-in.",
   note="Assumes: check_format_input_vector's contract (verified separately in C17), scipy Rotation group laws and from_* constructors, NumPy pad/slice semantics as modelled (cross-checked natively), floats as reals.",
   technique="contract-based deductive verification: VC generation by symbolic execution of the real code objects + z3/cvc5"),
 "C10": dict(level="proof",
   text="For a depth-3 tree of real (re-bound) BaseGeo objects with symbolic common path length, every node's new pose after move / rotate (all anchor kinds, start values) / position= / orientation= is proved equal to one and the same rigid transformation of its old pose at the C09 index map (QF UF+LIA obligations on the real code), and the relative-pose invariance then follows from algebraic lemmas decided by a canonical normal form; frame obligations show that operating on a child leaves parent and siblings untouched. Arbitrary depth/arity is an induction stated as a meta-argument.",
   note="Assumes scipy Rotation group laws, check_format_input_vector's contract, equal path lengths in the tree (the property's own precondition); the field-invariance corollary rests on C03/C04.",
   technique="contract-based deductive verification: symbolic execution of the real code objects + z3; lemmas by normal form (free group x linear forms)"),
 "C02": dict(level="proof",
   text="Each BHJM_* wrapper (Cuboid, Cylinder, Sphere, CylinderSegment partial-angle and dispatcher, Tetrahedron, Triangle, Dipole, Circle, Polyline) is symbolically executed on one generic row for B,H,J,M with core field functions as uninterpreted row-wise stubs and symbolic mu_0; B=mu_0*H+J, J=mu_0*M, J in {0,polarization}, J=polarization strictly inside / 0 strictly outside, J=M=0 for currents/dipole/sheets are discharged by z3 for every compatible path combination, i.e. for every row of every batch. Magnet setters are checked against the exported constant and every field module's MU0 binding and near-mu_0 literals are audited. Known findings (cylinder edge, segment surface, setter constant) are proved on the complement of a recorded region.",
   note="Assumes: cores are row-wise (C06), reals for doubles, tetrahedron point_inside symmetric under the chirality swap, TriangularMesh wrapper only via C06 + stand-in. Native random/special-row identities are a labelled bounded stand-in.",
   technique="contract-based deductive verification: row-generic symbolic execution of the real wrappers + z3"),
 "C06": dict(level="proof",
   text="Non-interference of batch-global values: every BHJM wrapper is executed row-generically to path exhaustion and, for any two global situations (any()/all()/len of the batch) consistent with the same row, the row's B/H/J/M are proved equal (z3) - so a row's value cannot depend on what else is in the call at the wrapper level. The TriangularMesh grouping loop is cut with an inductive invariant. Level-2 element provenance (grouping/tiling/reshape, path tiling of shorter objects) is carried by a labelled bounded term-exact stand-in, vectorised==element-wise natively.",
   note="Assumes cores row-wise where not reached (listed in evidence), elliptic routines row-wise (bounded numeric stand-in), reals for doubles.",
   technique="contract-based deductive verification: row-generic symbolic execution + z3 (non-interference), loop invariant for the trimesh grouping loop"),
 "C12": dict(level="proof",
   text="Homogeneity type derivation (dimension calculus) over the exact term DAG each real BHJM wrapper computes on a generic row, for every path: all branch masks and J, M are proved unit-free and B, H of degree 0 / -1 / -3 in the length unit, and of degree 1 in the excitation, given the assumed homogeneity contracts of the core stubs. Absolute constants mixed with lengths are type errors (CylinderSegment's 1e-14 / 1e-12 are a recorded known finding identified by call-site constants). Numeric decade sweep on the real classes is a labelled bounded stand-in.",
   note="Assumes homogeneity of the core field functions (not proved), reals for doubles; TriangularMesh wrapper / mesh validation only in the numeric stand-in.",
   technique="contract-based deductive verification: symbolic execution of the real wrappers + dimension-calculus type derivation over the resulting terms"),
 "C03": dict(level="proof",
   text="getBH_level1 (real code object over index-map arrays of symbolic batch length) is proved to compute R·F(R^-1(o-p)) for an arbitrary field function F (z3), and covariance under any rotation Q and translation t follows as a lemma decided by a canonical normal form. The pose tiling of get_src_dict/getBH_level2 is covered by a labelled bounded term-exact stand-in (whole setup moved by symbolic (Q,t)).",
   note="Assumes scipy Rotation.apply is the group action (and its inverse), field functions depend on the pose only through the local observer; level-2 plumbing bounded in structure.",
   technique="contract-based deductive verification: symbolic execution of getBH_level1 + z3; lemma by normal form; bounded term-exact stand-in for level 2"),
 "C04": dict(level="other",
   text="BOUNDED stand-in only (no proof claimed): the real getBH_level2 is executed term-exactly (real NumPy on object arrays of canonical terms) on enumerated structures; every element must equal flip(S^-1·G(S·pix+s)) for all numeric values/rotations, with pixel_agg mean/sum symbolically (also for different pixel shapes) and every other named reduction numerically.",
   note="getBH_level2 is outside the VC generator (Python-list structure of symbolic length): structures are bounded (<=2 sensors, <=4 sources, path lengths <=3, pixel shapes up to (2,2,3)).",
   technique="bounded stand-in for contract verification: term-exact execution of the real function against the contract's prescribed term"),
 "C05": dict(level="proof",
   text="Additivity and oddness in the excitation of B and H are proved for the Cuboid, Sphere, Triangle, Tetrahedron, Dipole, Circle, Polyline wrappers on a generic row (three row-generic runs + z3 linear arithmetic, or a structural linearity typing of the term), including consistency of the excitation==0 special cases; with C12's degree-1 homogeneity this is linearity. Sums over collections / sumup are a labelled bounded term-exact stand-in; Cylinder, CylinderSegment, TriangularMesh linearity numeric only.",
   note="Assumes linearity of the core stubs in their excitation argument; np.sum contract; structures of the reduction loop bounded.",
   technique="contract-based deductive verification: row-generic symbolic execution + z3 / linearity typing; bounded term-exact stand-in for the reductions"),
}
_NB = "stand-in / contracts not built yet in this session (see DESIGN.md); not claimed"
NA = {
 "C01": "oracle is a line/surface integral over transcendental closed forms (arctan2/log/elliptic integrals, convergence loops in doubles): not expressible as a first-order contract any installed back end can discharge without a hand transcription (a model)",
 "C13": "equalities between independent transcendental closed forms / limits; no contract within reach can decide them",
 "C14": "flux and circulation are integrals of the returned field over arbitrary surfaces/loops: not a per-call contract, no back end for it here",
}
for k in ["C02","C03","C04","C05","C06","C07","C08","C10","C11","C12","C15","C16","C17","C18","C19","C20"]:
    NA.setdefault(k, _NB)
