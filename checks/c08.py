"""C08 — field computation never changes objects or inputs, even when it fails.

P1 restore on every exit of getBH_level2 (obligations generated from the AST of the real source on every run):
   (b) every statement between the first write of an object's pose (path tiling) and the end of the function lies inside a
       `try` whose `finally` contains the reset loop (so every raising / returning exit passes the reset);
   (b') the reset loop restores BOTH `_position` and `_orientation` by slicing to the recorded original length of the same object;
   (c) frame: in the modules reachable from getBH_level2 (fields/*, input_checks, utility) `_position` / `_orientation` are
       assigned only inside the tiling block and the reset loop, and no callee calls move/rotate/position=/orientation=.
   (a) exactness for all path lengths: the tiling block and the reset loop (extracted mechanically from the source on every
       run, ast.get_source_segment; nothing re-typed) are executed over index-map arrays of symbolic lengths m0 < M and the
       restored path is proved equal to the original at a fresh index.
P2 frame of the field functions: every in-place write (`x[...] =`, augmented assignment) executed by a BHJM wrapper on the
   generic row is recorded by the shim together with the identity of the written array; none may be a caller's argument.
   check_chirality (writes into its argument) is verified at its call sites: the arrays handed to it are fresh copies.
SI (bounded): fault injection — term-exact harness (field function raising / returning None / wrong shape on its i-th call)
   and the public API (missing dimension/excitation, bad pixel_agg/output/in_out, incompatible pixel shapes, unsupported
   field of a custom source); deep state snapshot before/after; second call gives the identical result.
"""
import ast
import inspect
import json
import os
import textwrap

import numpy as np
import z3

from contracts.bhjm import WRAPPERS
from engine import solve
from engine.par import run_parallel
from engine.rebind import describe
from engine.report import Report

PID = "C08"
POSE = ("_position", "_orientation")
# attributes that make up the state of magpylib objects: nothing reachable from the field computation may assign them on an object it was handed
OBJ_STATE = POSE + ("position", "orientation", "pixel", "_pixel", "dimension", "_dimension", "polarization", "_polarization", "magnetization", "_magnetization",
                    "vertices", "_vertices", "faces", "_faces", "diameter", "_diameter", "current", "_current", "moment", "_moment", "handedness", "_handedness",
                    "parent", "_parent", "children", "_children", "style", "_style", "_style_kwargs", "field_func", "_field_func")


def _st(ok):
    return {"status": "discharged" if ok else "refuted", "backend": "ast/cfg", "time_s": 0}


def _pose_store(node):
    """does this statement assign obj._position / obj._orientation (attribute store, subscript store, augassign)?"""
    out = []
    for n in ast.walk(node):
        tgts = []
        if isinstance(n, ast.Assign):
            tgts = n.targets
        elif isinstance(n, (ast.AugAssign, ast.AnnAssign)):
            tgts = [n.target]
        for t in tgts:
            for s in ast.walk(t):
                if isinstance(s, ast.Attribute) and s.attr in POSE + ("position", "orientation") and isinstance(s.ctx, ast.Store):
                    out.append(s.attr)
                if isinstance(s, ast.Subscript) and isinstance(s.value, ast.Attribute) and s.value.attr in POSE:
                    out.append(s.value.attr)
    return out


def _is_reset_loop(node):
    """for obj, m0 in zip(reset_obj, reset_obj_m0): obj._position = obj._position[:m0]; obj._orientation = obj._orientation[:m0]"""
    if not isinstance(node, ast.For):
        return False, "not a for loop"
    if not (isinstance(node.target, ast.Tuple) and len(node.target.elts) == 2):
        return False, "loop target is not (obj, m0)"
    obj, m0 = (e.id for e in node.target.elts)
    done = set()
    for st in node.body:
        if not (isinstance(st, ast.Assign) and len(st.targets) == 1):
            continue
        t, v = st.targets[0], st.value
        if isinstance(t, ast.Attribute) and isinstance(t.value, ast.Name) and t.value.id == obj and t.attr in POSE:
            ok = (isinstance(v, ast.Subscript) and isinstance(v.value, ast.Attribute) and v.value.attr == t.attr
                  and isinstance(v.value.value, ast.Name) and v.value.value.id == obj and isinstance(v.slice, ast.Slice)
                  and v.slice.lower is None and v.slice.step is None and isinstance(v.slice.upper, ast.Name) and v.slice.upper.id == m0)
            if ok:
                done.add(t.attr)
    if done != set(POSE):
        return False, f"reset loop restores {sorted(done)} only"
    it = node.iter
    if not (isinstance(it, ast.Call) and getattr(it.func, "id", "") == "zip" and len(it.args) == 2):
        return False, "reset loop does not zip objects with their recorded lengths"
    return True, (it.args[0].id, it.args[1].id)


def cfg_obligations(rep):
    import magpylib._src.fields.field_wrap_BH as FW

    fails = []
    fn = describe(FW.getBH_level2)
    rep.function(fn)
    src = textwrap.dedent(inspect.getsource(FW.getBH_level2))
    tree = ast.parse(src).body[0]
    body = tree.body
    # first statement (top level of the function body) containing a pose store
    first = next((i for i, st in enumerate(body) if _pose_store(st)), None)

    def ob(name, ok, why=""):
        rep.obligation("getBH_level2." + name, _st(ok), fn["function"], "exceptional" if "exit" in name else "frame")
        if not ok:
            fails.append(dict(name="getBH_level2." + name, why=why))

    ob("writes-object-poses(cover)", first is not None, "no pose write found: vacuous")
    if first is None:
        return fails, None
    st = body[first]
    if isinstance(st, ast.Try):
        t = st
        outside = []
    else:
        t = body[first + 1] if first + 1 < len(body) and isinstance(body[first + 1], ast.Try) else None
        outside = [st]
    resets = [(_is_reset_loop(n)) for n in (t.finalbody if t else [])]
    has_reset = any(r[0] for r in resets)
    ob("every-exit-after-first-pose-write-passes-the-reset(try/finally)", t is not None and has_reset,
       "the statements after the path tiling are not enclosed by try/finally with the reset loop: an exception "
       "(missing field_func, custom field function raising/returning None, bad pixel_agg/output...) leaves tiled paths behind")
    # statements outside the try that follow the first pose write must not exist before the try
    ok_between = all(not isinstance(x, (ast.Return, ast.Raise)) for o in outside for x in ast.walk(o))
    # the tiling block outside the try may only consist of pose stores built from np.tile/np.concatenate/R.from_quat (non-raising on valid paths)
    ob("tiling-block-outside-try-cannot-exit-early", ok_between, "return/raise inside the tiling block before the try")
    why = "; ".join(str(r[1]) for r in resets if not r[0]) or "no reset loop in finally"
    ob("reset-loop-restores-position-and-orientation-by-[:m0]-of-the-same-object", has_reset, why)
    # (c) frame: pose stores only in tiling block and reset loop
    allowed = set()
    for n in ast.walk(st if not isinstance(st, ast.Try) else st):
        allowed.add(id(n))
    if t is not None:
        for fb in t.finalbody:
            for n in ast.walk(fb):
                allowed.add(id(n))
    # locate the tiling block inside the try if the try is the first statement
    tile_nodes = set()
    scope = t.body if isinstance(st, ast.Try) else [st]
    for s_ in scope:
        if _pose_store(s_):
            for n in ast.walk(s_):
                tile_nodes.add(id(n))
            break
    stray = []
    for n in ast.walk(tree):
        if isinstance(n, (ast.Assign, ast.AugAssign)) and _pose_store(n):
            if id(n) in tile_nodes:
                continue
            if t is not None and any(id(n) in {id(x) for x in ast.walk(fb)} for fb in t.finalbody):
                continue
            stray.append(ast.unparse(n)[:80])
    ob("frame:poses-assigned-only-in-tiling-block-and-reset-loop", not stray, f"other pose writes: {stray}")
    return fails, (src, tree)


def callee_frame(rep):
    """no callee between tiling and reset writes poses (AST scan of the reachable modules)"""
    import magpylib

    root = os.path.dirname(magpylib.__file__)
    files = [os.path.join(root, "_src", "fields", f) for f in sorted(os.listdir(os.path.join(root, "_src", "fields"))) if f.endswith(".py")]
    files += [os.path.join(root, "_src", "input_checks.py"), os.path.join(root, "_src", "utility.py")]
    fails = []
    for path in files:
        tree = ast.parse(open(path, encoding="utf8").read())
        bad = []
        for fn in [n for n in ast.walk(tree) if isinstance(n, (ast.FunctionDef,))]:
            if fn.name in ("getBH_level2", "style_temp_edit"):
                continue  # getBH_level2 has its own obligations; style_temp_edit is display-only (not reachable from the field computation; C19 covers its restore)
            for n in ast.walk(fn):
                if isinstance(n, (ast.Assign, ast.AugAssign)) and _pose_store(n):
                    bad.append(f"{fn.name}: {ast.unparse(n)[:60]}")
                elif isinstance(n, (ast.Assign, ast.AugAssign)):
                    for t in (n.targets if isinstance(n, ast.Assign) else [n.target]):
                        for s_ in ast.walk(t):
                            if isinstance(s_, ast.Attribute) and isinstance(s_.ctx, ast.Store) and s_.attr in OBJ_STATE:
                                bad.append(f"{fn.name}: {ast.unparse(n)[:60]}")
                if isinstance(n, ast.Call) and isinstance(n.func, ast.Attribute) and n.func.attr in (
                        "move", "rotate", "reset_path", "rotate_from_angax", "rotate_from_rotvec", "rotate_from_euler",
                        "rotate_from_quat", "rotate_from_matrix", "rotate_from_mrp"):
                    bad.append(f"{fn.name}: call .{n.func.attr}()")
        rel = os.path.relpath(path, root)
        rep.obligation(f"frame:{rel}:no-function-assigns-an-attribute-of-an-object-it-was-handed(pose,geometry,excitation,pixel,tree,style)", _st(not bad), rel, "frame")
        if bad:
            fails.append(dict(name=f"frame:{rel}", why="; ".join(bad[:4])))
    return fails


def exactness(rep, parsed):
    """(a) the tiling block and the reset loop, extracted mechanically from the source, restore every path exactly — all lengths"""
    from engine.idx import NPs, Arr, SRot, Rot, Vec, slen
    from engine.symex import Ctx, SymInt, explore

    src, tree = parsed
    fails = []
    body = tree.body
    first = next(i for i, st in enumerate(body) if _pose_store(st))
    st = body[first]
    t = st if isinstance(st, ast.Try) else (body[first + 1] if first + 1 < len(body) and isinstance(body[first + 1], ast.Try) else None)
    if t is None:
        return fails
    scope = t.body if isinstance(st, ast.Try) else [st]
    tile = next(s_ for s_ in scope if _pose_store(s_))
    reset = next((n for n in t.finalbody if isinstance(n, ast.For) and _pose_store(n)), None)
    if reset is None or not (isinstance(reset.iter, ast.Call) and getattr(reset.iter.func, "id", "") == "zip" and len(reset.iter.args) == 2
                             and all(isinstance(a, ast.Name) for a in reset.iter.args)):
        return fails
    code = textwrap.dedent(ast.get_source_segment(src, tile)) + "\n" + textwrap.dedent(ast.get_source_segment(src, reset)) + "\n"
    names = (reset.iter.args[0].id, reset.iter.args[1].id)
    m0, M, k = z3.Ints("m0 M k")
    P = z3.Function("P_obj", z3.IntSort(), Vec)
    O = z3.Function("O_obj", z3.IntSort(), Rot)

    class Obj:
        pass

    class NP2(NPs):
        @staticmethod
        def tile(row, reps):
            n, one = reps
            assert one == 1
            v = row.at(None)
            return Arr(n.t if isinstance(n, SymInt) else n, lambda i: v, row.kind)

        @staticmethod
        def concatenate(parts):
            a, b = parts
            a, b = a.snapshot(), b.snapshot()
            ae, be, al = a._elem, b._elem, a.length
            return Arr(a.length + b.length, lambda i: z3.If(i < al, ae(i), be(i - al)), a.kind)

    def body_fn():
        Ctx.cur.pc.extend([m0 >= 1, M > m0])
        o = Obj()
        o._position = Arr(m0, lambda i: P(i), "vec")
        o._orientation = SRot(Arr(m0, lambda i: O(i), "quat"))
        env = {"np": NP2, "R": SRot, "len": slen, "zip": zip, "max_path_len": SymInt(M), names[0]: [o], names[1]: [SymInt(m0)]}
        exec(compile(code, "<getBH_level2: tiling block + reset loop, extracted>", "exec"), env)  # pylint: disable=exec-used
        return o

    fn = "magpylib._src.fields.field_wrap_BH:getBH_level2 (tiling block + reset loop)"
    n = 0
    for ctx, (kind, o) in explore(body_fn):
        n += 1
        if kind in ("exc", "unsupported"):
            r = {"status": "unknown", "backend": "symex", "time_s": 0, "reason": repr(o)}
            rep.obligation(f"getBH_level2.restore-exact@path{n}", r, fn, "exceptional")
            continue
        pe, q = o._position.snapshot(), o._orientation.q
        goal = z3.And(pe.length == m0, q.length == m0, z3.Implies(z3.And(0 <= k, k < m0), z3.And(pe.elem(k) == P(k), q.elem(k) == O(k))))
        r = solve.discharge(ctx.pc, goal)
        rep.obligation(f"getBH_level2.restore-exact-all-lengths@path{n}", r, fn, "exceptional", sample=solve.sample_smt2(ctx.pc, goal))
        if r["status"] == "refuted":
            fails.append(dict(name=f"getBH_level2.restore-exact@path{n}", why="tiling followed by reset does not give back the original path: " + str(r["model"])[:300]))
        for i, (pc, ax, f, label, kd) in enumerate(ctx.oblig):
            r = solve.discharge(pc, f)
            rep.obligation(f"getBH_level2.restore@path{n}.safety{i}.{label.split(':')[0].split('(')[0].strip().replace(' ', '_')}", r, fn, kd)
            if r["status"] == "refuted":
                fails.append(dict(name=f"getBH_level2.restore@path{n}.safety{i}", why=label))
    rep.paths += n
    return fails


def wrapper_writes(rep, name):
    sp = WRAPPERS[name]
    fn = describe(sp.real())
    rep.function(fn)
    fails = []
    for f in "BHJM":
        paths = sp.run(f)
        from contracts.bhjm import report_problems

        report_problems(rep, sp, f"{name}.{f}", fn["function"])
        for i, p in enumerate(paths, 1):
            if "out" not in p:
                continue
            ok = not p["writes"]
            rep.obligation(f"{name}.{f}@path{i}.no-in-place-write-to-a-caller-array", _st(ok) | {"backend": "shim-write-log"}, fn["function"], "frame")
            if not ok:
                fails.append(dict(name=f"{name}.{f}@path{i}.writes-argument", why=f"in-place {p['writes']} on an argument array", wrapper=name, field=f))
        rep.paths += 1
    return fails


def chirality_frame(rep):
    """check_chirality writes into its argument; its callers must hand it fresh arrays"""
    import magpylib._src.display.traces_base as TB
    import magpylib._src.fields.field_BH_tetrahedron as FT
    import magpylib._src.fields.field_wrap_BH as FW

    fails = []
    rep.function(describe(FT.check_chirality))
    rep.function(describe(FW.tile_group_property))

    def ob(name, ok, why):
        rep.obligation(name, _st(ok), "call sites of field_BH_tetrahedron:check_chirality", "frame")
        if not ok:
            fails.append(dict(name=name, why=why))

    # tile_group_property returns np.repeat(...): fresh array (NumPy contract)
    t = ast.parse(textwrap.dedent(inspect.getsource(FW.tile_group_property))).body[0]
    rets = [n for n in ast.walk(t) if isinstance(n, ast.Return)]
    ok = all(isinstance(r.value, ast.Call) and ast.unparse(r.value.func) in ("np.repeat", "np.tile", "np.array") for r in rets)
    ob("tile_group_property.returns-fresh-array(np.repeat)", ok and bool(rets), "object property arrays would be handed to field functions without a copy")
    # getBH_dict_level2 rebinding of every kwarg through np.array(..., dtype=float)
    t = ast.parse(textwrap.dedent(inspect.getsource(FW.getBH_dict_level2))).body[0]
    srcs = ast.unparse(t)
    ok = "val = np.array(val, dtype=float)" in srcs and "kwargs[key] = val" in srcs
    ob("getBH_dict_level2.user-arrays-copied(np.array dtype=float)-before-use", ok, "functional interface would pass user arrays on without a copy")
    # BHJM_magnet_tetrahedron rebinds `vertices = check_chirality(vertices)`; display caller passes np.array([vertices])
    t = ast.parse(inspect.getsource(TB))
    calls = [n for n in ast.walk(t) if isinstance(n, ast.Call) and getattr(n.func, "id", "") == "check_chirality"]
    ok = all(isinstance(c.args[0], ast.Call) and ast.unparse(c.args[0].func) == "np.array" for c in calls)
    ob("display.traces_base.check_chirality-called-on-a-copy", ok and bool(calls), "display code would reorder the object's vertices in place")
    return fails


# ------------------------------------------------------------------------------------------------
def harness_faults(rep, tier, seed):
    """term-exact harness: every invocation index of the (shared) field functions is a fault point"""
    from standins import level2

    ns = level2.harness_ns()
    nrun = 0
    bad = []
    specs = [s for s in level2.structures("quick", seed, "c08")][:: (6 if tier == "quick" else 1)]
    for spec in specs:
        for mode in ("raise", "none", "shape"):
            for at in range(3):
                sources, sensors = level2.build(spec)
                objs = [l for s in sources for l in level2.leaves(s)] + sensors
                snap = level2.snapshot(objs)
                ffs = {}
                for l in objs[: len(objs) - len(sensors)]:
                    ffs.setdefault(id(l._field_func), l._field_func)
                if at >= len(ffs):
                    continue
                target = list(ffs.values())[at]

                def faulty(field, observers, _f=target, **kw):
                    if mode == "raise":
                        raise RuntimeError("injected fault in field function")
                    if mode == "none":
                        return None
                    return _f(field, observers, **kw)[:-1]

                faulty.__name__ = target.__name__
                for l in objs[: len(objs) - len(sensors)]:
                    if l._field_func is target:
                        l._field_func = faulty
                nrun += 1
                try:
                    level2.run_level2(ns, sources, sensors)
                    raised = False
                except Exception:  # pylint: disable=broad-except
                    raised = True
                msg = level2.restored(objs, snap)
                if msg:
                    bad.append((spec, dict(mode=mode, at=at, raised=raised), msg))
    return nrun, bad


def native_faults(seed):
    """public API fault injection on the real library; returns (runs, list of messages)"""
    import magpylib as magpy
    from scipy.spatial.transform import Rotation as R

    rng = np.random.default_rng(seed)

    def snap(objs):
        out = []
        for o in objs:
            d = {"pos": o._position.tobytes(), "ori": o._orientation.as_quat().tobytes(), "parent": id(o._parent)}
            for a in ("_dimension", "_polarization", "_magnetization", "_pixel", "_vertices", "_current", "_moment", "_diameter"):
                v = getattr(o, a, None)
                d[a] = None if v is None else (np.asarray(v).shape, np.asarray(v).tobytes())
            d["children"] = [id(c) for c in getattr(o, "_children", [])]
            d["style"] = repr(o.style.as_dict())  # the observable style (lazy creation of the style object is not a change)
            out.append(d)
        return out

    calls = {"n": 0}

    def ff_none(field, observers):
        return None if field == "B" else observers * 0.0

    def ff_raise(field, observers):
        calls["n"] += 1
        if calls["n"] > 2:  # the two validation calls at construction succeed; the first real invocation fails
            raise ValueError("custom field function fails")
        return observers * 0.0

    def ff_interrupt(field, observers):
        calls["n"] += 1
        if calls["n"] > 2:
            raise KeyboardInterrupt  # Ctrl-C during a long custom field function: not an Exception subclass
        return observers * 0.0

    def ff_shape(field, observers):
        calls["n"] += 1
        return np.zeros((len(observers) + (1 if calls["n"] > 2 else 0), 3))

    bad, n = [], 0
    for m_sens in (1, 3):
        for case in ("ff_none", "ff_raise", "ff_interrupt", "ff_shape", "missing_dimension", "missing_excitation", "bad_pixel_agg", "bad_output",
                     "pixel_shapes", "bad_field_func_none", "ok"):
            calls["n"] = 0
            cub = magpy.magnet.Cuboid(dimension=(1, 2, 3), polarization=(0.1, 0.2, 0.3), position=rng.normal(size=(2, 3)))
            cyl = magpy.magnet.Cylinder(dimension=(1, 1), polarization=(0, 0, 1))
            sens = magpy.Sensor(position=rng.normal(size=(m_sens, 3)) + 5, pixel=rng.normal(size=(2, 3)))
            sens1 = magpy.Sensor(position=(4, 4, 4), pixel=(0.1, 0.2, 0.3))  # a single pixel given as a bare (3,) vector
            sens2 = magpy.Sensor(pixel=rng.normal(size=(3, 3)), position=(7, 7, 7))
            col = magpy.Collection(cyl)
            srcs, obs, kw = [cub, col], [sens], {}
            if case.startswith("ff_"):
                srcs = [cub, magpy.misc.CustomSource(field_func={"ff_none": ff_none, "ff_raise": ff_raise, "ff_shape": ff_shape, "ff_interrupt": ff_interrupt}[case]), col]
            elif case == "missing_dimension":
                srcs = [cub, magpy.magnet.Cuboid(polarization=(1, 2, 3)), col]
            elif case == "missing_excitation":
                srcs = [cub, magpy.current.Circle(diameter=1), col]
            elif case == "bad_pixel_agg":
                kw = dict(pixel_agg="no_such_reduction")
            elif case == "bad_output":
                kw = dict(output="spreadsheet")
            elif case == "pixel_shapes":
                obs = [sens, sens2]
            elif case == "bad_field_func_none":
                srcs = [cub, magpy.misc.CustomSource(), col]
            objs = [o for o in srcs if not isinstance(o, magpy.Collection)] + [cyl, col, sens, sens2, sens1]
            user_obs = rng.normal(size=(4, 3))
            before = snap(objs)
            ub = user_obs.tobytes()
            n += 1
            try:
                magpy.getB(srcs, obs, **kw)
                raised = None
            except BaseException as e:  # pylint: disable=broad-except
                raised = type(e).__name__
            try:
                magpy.getH(cub, user_obs)
                magpy.getH(cub, sens1)
                magpy.getB(cub, [sens1, magpy.Sensor(pixel=(1, 2, 3))])
            except Exception:  # pylint: disable=broad-except
                pass
            after = snap(objs)
            if after != before:
                diff = [k for a, b in zip(before, after) for k in a if a[k] != b[k]]
                bad.append(f"case {case} (sensor path length {m_sens}, raised {raised}): object state changed: {sorted(set(diff))}")
            if user_obs.tobytes() != ub:
                bad.append(f"case {case}: caller's observer array modified")
            if case == "ok":
                a, b = magpy.getB(srcs, obs), magpy.getB(srcs, obs)
                if not np.array_equal(a, b):
                    bad.append("second call gives a different result")
    # caller's arrays through the functional interface and the core functions
    verts = np.array([[(0, 0, 0), (1, 0, 0), (0, 0, 1), (0, 1, 0.0)]] * 2)  # left-handed: check_chirality reorders
    pol = rng.normal(size=(2, 3))
    obs = rng.normal(size=(2, 3)) + 3
    keep = [a.copy() for a in (verts, pol, obs)]
    n += 1
    for fld in "BHJM":
        getattr(magpy, "get" + fld)("Tetrahedron", obs, vertices=verts, polarization=pol)
    if any(not np.array_equal(a, b) for a, b in zip(keep, (verts, pol, obs))):
        bad.append("functional interface getX('Tetrahedron', ...) modified an array passed by the caller")
    # one source, one path entry, ONE observer point (nothing to tile): the arrays handed to the field functions must still be copies —
    # a left-handed Tetrahedron is reordered in place by check_chirality, which must never reach the object's own vertices
    n += 1
    for how in ("point", "sensor", "two points"):
        tet = magpy.magnet.Tetrahedron(polarization=(0.1, 0.2, 0.3), vertices=[(0, 0, 0), (1, 0, 0), (0, 0, 1), (0, 1, 0)], position=(0.1, 0.2, 0.3))
        v0, p0 = tet.vertices.copy(), tet.polarization.copy()
        for fld in "BHJM":
            if how == "sensor":
                getattr(magpy.Sensor(position=(2, 3, 4)), "get" + fld)(tet)
            else:
                getattr(magpy, "get" + fld)(tet, (2.0, 3.0, 4.0) if how == "point" else [(2.0, 3.0, 4.0), (1.0, 3.0, 4.0)])
        if not np.array_equal(tet.vertices, v0) or not np.array_equal(tet.polarization, p0):
            bad.append(f"left-handed Tetrahedron evaluated at {how}: the object's own vertices / polarization were modified by the field computation")
    import magpylib.core as core

    o2, d2, p2 = rng.normal(size=(3, 3)), np.abs(rng.normal(size=3)) + 0.5, rng.normal(size=(3, 3))
    keep = [a.copy() for a in (o2, d2, p2)]
    n += 1
    core.magnet_sphere_Bfield(observers=o2, diameters=d2, polarizations=p2)
    core.dipole_Hfield(observers=o2, moments=p2)
    core.magnet_cuboid_Bfield(observers=o2, dimensions=np.abs(p2) + 0.1, polarizations=p2)
    if any(not np.array_equal(a, b) for a, b in zip(keep, (o2, d2, p2))):
        bad.append("a magpylib.core function modified an array passed by the caller")
    return n, bad


REPLAY_NATIVE = """import sys
from checks.c08 import native_faults
try:
    n, bad = native_faults({seed})
except Exception as e:
    n, bad = 1, ['a later call on the same objects raised ' + repr(e)]
for b in bad[:6]: print(b)
print('fault cases run:', n, 'state changes:', len(bad))
sys.exit(1 if bad else 0)
"""


def main(tier, seed):
    rep = Report(PID, tier, seed, "proof")
    from engine import crosscheck

    crosscheck.attach(rep, seed)
    rep.assumed_contract("np.array(..., dtype=float), np.repeat, np.tile return fresh arrays; scipy from_quat∘as_quat = identity")
    rep.assume("core functions' in-place writes only where the row-generic shim reaches them (wrappers fully; cores listed in C06)")
    rep.assume("style / parent / children are not touched by any function reachable from getBH_level2: AST frame scan for pose writes only; "
               "other attributes are covered by the bounded native snapshot")
    rep.explanation = "CFG/frame obligations from the AST of getBH_level2 and callees; exact restore for all lengths on the extracted blocks; write log of wrappers"
    fails, parsed = cfg_obligations(rep)
    fails += callee_frame(rep)
    if parsed is not None:
        fails += exactness(rep, parsed)
    fails += chirality_frame(rep)
    from checks import c06_cores
    from contracts.bhjm import CORES

    fails += run_parallel(rep, [(nm, (lambda r, nm=nm: wrapper_writes(r, nm))) for nm in WRAPPERS] +
                          [(f"core.{cn}", (lambda r, cn=cn: c06_cores.no_arg_writes(r, cn))) for cn in CORES])
    try:
        n_nat, bad_nat = native_faults(seed)
    except Exception as e:  # pylint: disable=broad-except
        n_nat, bad_nat = 1, [f"a call on the untouched objects of an earlier (failed) call raised {type(e).__name__}: {e}"]
    n_h, bad_h = harness_faults(rep, tier, seed)
    rep.standin("public-API fault injection with deep state snapshot (real library)", "10 fault kinds x sensor path length {1,3}", n_nat, n_nat,
                "each fault kind once per path pattern", [dict(case="ff_none", sensor_path=3)], failures=len(bad_nat), exhaustive=True)
    rep.standin("term-exact harness: field function raising / returning None / wrong shape on its i-th invocation", "structures as C06, fault index < 3",
                n_h, n_h, "structure x fault mode x fault index", [dict(mode="none", at=0)], failures=len(bad_h))
    # level-2 evaluation for all path lengths and pixel counts (checks/l2sym.py): every position and orientation path restored (length and every entry) on
    # every normal path and after injected faults
    from checks import l2sym

    lfails = l2sym.run(rep, tier, fams=['C', 'E'], stride={'C': 2}, faults=True, kinds=("restore",))
    l2_decided = not any(o["status"] == "unknown" and "getBH_level2[" in o["name"] for o in rep.obligations)
    structural = ("getBH_level2.every-exit", "getBH_level2.tiling-block", "getBH_level2.reset-loop", "getBH_level2.frame:", "getBH_level2.writes-object-poses", "frame:",
                  "tile_group_property.returns-fresh-array", "getBH_dict_level2.user-arrays-copied", "display.traces_base.check_chirality-called-on-a-copy")
    for f in list(fails):
        if f["name"].startswith(structural) and not lfails and l2_decided and not bad_nat and not bad_h:
            # the AST obligations describe ONE way of guaranteeing the restore (try/finally around everything after the tiling). If the code is written
            # differently but the semantic obligations (restore proved for all path lengths, also after injected Exceptions / BaseExceptions) all hold and the
            # fault harnesses find nothing, the structural obligation is undecided, not a violation
            for o in rep.obligations:
                if (o["name"] == f["name"] or o["name"].startswith(f["name"] + ":")) and o["status"] == "refuted":
                    o["status"] = "unknown"
                    rep.undecided.append(f["name"] + " :: structural pattern not found, restore proved semantically (checks/l2sym.py): " + f["why"][:120])
            fails.remove(f)
    for f in fails:
        if bad_nat:
            rep.violation(f["name"], {"why": f["why"], "native_result": bad_nat[0], "script": REPLAY_NATIVE.format(seed=seed)})
        else:
            rep.violation(f["name"], {"why": f["why"], "solver_output": f["why"]}, found_input=False)
    if not fails:
        for b in bad_nat[:2]:
            rep.violation("standin.native-fault-injection", {"native_result": b, "script": REPLAY_NATIVE.format(seed=seed)})
        for spec, kw, msg in bad_h[:2]:
            rep.violation("standin.harness-fault-injection", {"native_result": msg, "structure": spec, "fault": kw,
                                                              "script": REPLAY_NATIVE.format(seed=seed)}, found_input=bool(bad_nat))
    l2sym.report_fails(rep, lfails)
    return rep.finish()
