"""C16 (part): the one loop-free piece of the mesh status code, get_open_edges, against its definition.

"An edge is open iff it is not shared by exactly two faces."  The real function (code object re-bound so that np.unique is a
contract stub) is run on faces with distinct vertex labels:
  E1  the array handed to np.unique(axis=0, return_counts=True) consists, for every face (a, b, c), of exactly its three sides as
      sorted pairs  {min,max}  — checked for all 6 order types of a face's labels and several faces at once (slicing, concatenation
      and np.sort(axis=1) act row by row and depend on the labels only through their order, so the 6 order types are exhaustive);
  E2  for counts in {1, 2} (a surface mesh without non-manifold edges) the value returned is exactly the rows of np.unique's first result that
      occur once; how edges shared by three or more faces are reported is left open (the property does not say).
np.unique's own contract (distinct rows with their multiplicities) is assumed.  The set-merging loop of
get_disconnected_faces_subsets, the ray casting and the self-intersection test stay bounded (checks/c16.py).
"""
import itertools

import numpy as np

from engine.rebind import describe, rebind


def _st(ok, backend):
    return {"status": "discharged" if ok else "refuted", "backend": backend, "time_s": 0}


def run(rep):
    import magpylib._src.fields.field_BH_triangularmesh as TM

    fails = []
    d = describe(TM.get_open_edges)
    rep.function(d)
    fnl = d["function"]
    rep.assumed_contract("np.unique(x, axis=0, return_counts=True): the distinct rows of x and how often each occurs")
    calls = []

    class NPu:
        def __getattr__(self, n):
            return getattr(np, n)

        @staticmethod
        def unique(x, axis=None, return_counts=False, **kw):
            calls.append((np.array(x), axis, return_counts, kw))
            return NPu.ret

    ns = rebind(TM, dict(np=NPu()))
    f = ns["get_open_edges"]
    # ---- E1
    ok1, why = True, ""
    labels = (10, 20, 30)
    faces_sets = [[p] for p in itertools.permutations(labels)] + [list(itertools.permutations(labels))[:4], [(1, 5, 3), (9, 2, 4), (8, 7, 6)]]
    for faces in faces_sets:
        del calls[:]
        NPu.ret = (np.zeros((0, 2), dtype=int), np.zeros(0, dtype=int))
        try:
            f(np.array(faces))
        except Exception as e:  # pylint: disable=broad-except
            ok1, why = False, f"raised {type(e).__name__}: {e}"
            break
        if len(calls) != 1 or calls[0][1] != 0 or not calls[0][2]:
            ok1, why = False, "np.unique is not called once with axis=0, return_counts=True"
            break
        got = sorted(map(tuple, calls[0][0].tolist()))
        exp = sorted((min(p), max(p)) for fc in faces for p in ((fc[0], fc[1]), (fc[1], fc[2]), (fc[0], fc[2])))
        if got != exp:
            ok1, why = False, f"faces {faces}: edges counted {got}, the sides of the faces are {exp}"
            break
    rep.obligation("get_open_edges.E1.the-rows-counted-are-exactly-the-three-sides-of-every-face-as-sorted-pairs", _st(ok1, "exhaustive-finite(6 order types of a face; row-wise column operations)"), fnl,
                   sample={"faces": [list(labels)], "counted": [[10, 20], [10, 30], [20, 30]]})
    if not ok1:
        fails.append(dict(name="get_open_edges.E1", why=why))
    # ---- E2
    ok2, why2 = True, ""
    uniq = np.array([(1, 2), (1, 3), (2, 3), (2, 4), (3, 4)])
    for counts in itertools.product((1, 2), repeat=len(uniq)):
        NPu.ret = (uniq.copy(), np.array(counts))
        try:
            out = np.asarray(f(np.array([(1, 2, 3)])))
        except Exception as e:  # pylint: disable=broad-except  (the body no longer fits np.unique's stub contract: E1 reports it)
            ok2, why2 = False, f"raised {type(e).__name__}: {e} on np.unique's contracted result"
            break
        exp = uniq[np.array(counts) == 1]
        if out.shape != exp.shape or not np.array_equal(out, exp):
            ok2, why2 = False, f"counts {counts}: returned {out.tolist()}, the edges that belong to one face only are {exp.tolist()}"
            break
    rep.obligation("get_open_edges.E2.returns-exactly-the-edges-that-belong-to-one-face-only(counts-in-{1,2})", _st(ok2, "exhaustive-finite(2^5 count vectors)"), fnl)
    if not ok2:
        fails.append(dict(name="get_open_edges.E2", why=why2))
    return fails
