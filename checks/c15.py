"""C15 — every finite input yields a finite field in bounded time.

P (proof, partial and listed): definedness of every BHJM wrapper on the generic row (engine/defcalc.py): each real term carries a
   definedness condition  def(a/b) = def a & def b & b != 0,  def(sqrt x) = .. & x >= 0,  def(log x) = .. & x > 0,
   def(ite(c, x, y)) = def c & ite(c, def x, def y)  — so a junk value that a masked assignment later overwrites does not count,
   exactly the code's idiom (compute with r = 0 under errstate(ignore), then `H[mask] = ...`).  Obligation, for every path:
   precondition (finite inputs, valid source as the setters guarantee, observer not at a documented singular point) => def(result).
   Core field functions are stubs ASSUMED total on the argument region the wrapper sends them (stated per stub).
   NOT proved: termination / convergence of the cel*/el3* loops, finiteness through the elliptic and transcendental cores.
SI (bounded): enumeration of the special sets of every geometry (faces, edges, corners, axis, wire, extension lines, r/r0 in {0.05, 1},
   phi limits) exactly and within a few ulp, zero-size and zero-excitation sources, distances up to 1e12 sizes; post: finite, right shape,
   wall time below a bound.
"""
import itertools
import json
import time

import numpy as np
import z3

from contracts.bhjm import MU0, WRAPPERS, col
from engine import solve
from engine.par import run_parallel
from engine.rebind import describe
from engine.report import Report, load_known

PID = "C15"


# --------------------------------------------------------------------------------------------- definedness calculus
def definedness(t, cache):
    """z3 Bool: the real term t is computed without division by zero / sqrt of a negative / log of a non-positive number"""
    k = t.get_id()
    if k in cache:
        return cache[k]
    kind = t.decl().kind()
    ch = t.children()
    if not ch:
        r = z3.BoolVal(True)
    elif kind == z3.Z3_OP_ITE:
        r = z3.And(definedness(ch[0], cache), z3.If(ch[0], definedness(ch[1], cache), definedness(ch[2], cache)))
    elif kind in (z3.Z3_OP_DIV,):
        r = z3.And(definedness(ch[0], cache), definedness(ch[1], cache), ch[1] != 0)
    elif kind == z3.Z3_OP_UNINTERPRETED and t.decl().name() == "sqrt":
        r = z3.And(definedness(ch[0], cache), ch[0] >= 0)
    elif kind == z3.Z3_OP_UNINTERPRETED and t.decl().name() == "log":
        r = z3.And(definedness(ch[0], cache), ch[0] > 0)
    elif kind == z3.Z3_OP_UNINTERPRETED and t.decl().name() == "arctan2":
        r = z3.And(definedness(ch[0], cache), definedness(ch[1], cache))  # arctan2 is total on finite reals (incl. (0,0))
    elif kind in (z3.Z3_OP_AND, z3.Z3_OP_OR) and False:
        r = z3.And(*[definedness(c, cache) for c in ch])
    else:
        r = z3.And(*[definedness(c, cache) for c in ch]) if ch else z3.BoolVal(True)
    cache[k] = r
    return r


# documented singular points / preconditions per wrapper (sidecar)
def pre_not_singular(name, a):
    if name == "Dipole":
        x, y, z = (col(a, "observers", i) for i in range(3))
        return [z3.Or(x != 0, y != 0, z != 0)]  # the location of a Dipole is a documented singular point
    return []


def definedness_obligations(rep, name):
    from checks.c02 import _row_model
    from contracts import bhjm

    sp = WRAPPERS[name]
    fn = describe(sp.real())
    rep.function(fn)
    fails = []
    args = sp.fresh_args()
    for f in "BHJM":
        paths = [p for p in sp.run(f, args=args) if "out" in p]
        bhjm.report_problems(rep, sp, f"{name}.{f}", fn["function"])
        rep.paths += len(paths)
        for i, p in enumerate(paths, 1):
            cache = {}
            goal = z3.And(*[definedness(t, cache) for t in p["out"]])
            assum = p["pc"] + p["ax"] + pre_not_singular(name, args)
            r = solve.discharge(assum, goal, timeout_ms=20000)
            nm = f"{name}.{f}.result-defined(no 0-division / sqrt<0 / log<=0 reaches the result)[path{i}]"
            rep.obligation(nm, r, fn["function"], "safety", sample=solve.sample_smt2(assum[:4], goal) if (name, f, i) == ("Sphere", "B", 1) else None)
            if r["status"] == "refuted":
                fails.append(dict(name=nm, wrapper=name, field=f, why="an undefined operation flows into the result",
                                  row=_row_model(r["model"], args) if r.get("model") is not None else None))
    return fails


# --------------------------------------------------------------------------------------------- bounded stand-in
def ulps(x, ks=(-2, -1, 0, 1, 2)):
    out = []
    for k in ks:
        v = float(x)
        for _ in range(abs(k)):
            v = np.nextafter(v, np.inf if k > 0 else -np.inf)
        out.append(v)
    return out


def ladder(x, scale=None, ulp=(-2, -1, 0, 1, 2), rel=(1e-14, 1e-12, 1e-10, 1e-8, 1e-6), tiny=()):
    """values approaching the special coordinate x: exact, a few ulp, relative offsets (scale defaults to |x|), and (around 0) absolute tiny values"""
    sc = abs(x) if scale is None else scale
    out = list(ulps(x, ulp))
    for r in rel:
        out += [x + r * sc, x - r * sc]
    for t in tiny:
        out += [x + t, x - t]
    return out


TINY = (5e-324, 1e-310, 1e-200, 1e-160, 1e-100, 1e-30)


def approach_observers(kind, p):
    if p.get("degenerate"):
        return np.zeros((0, 3))
    return _approach_observers(kind, p)


def _approach_observers(kind, p):
    """second family (added after the near-edge / near-wire defects): every special coordinate approached on a ladder of offsets from a few ulp to 1e-6
    relative, and absolute tiny / subnormal offsets from coordinates that are 0"""
    pts = []
    if kind == "Cuboid":
        a, b, c = np.array(p["dimension"]) / 2
        xs, ys = ladder(a, ulp=(0,)), ladder(b, ulp=(0,))
        for x, y in itertools.product(xs, ys):
            pts += [(x, y, 0.3 * c), (-x, y, -0.3 * c)]
        for y, z in itertools.product(ys, ladder(c, ulp=(0,))):
            pts += [(0.2 * a, y, z), (3 * a, -y, z)]  # edge along x, and its extension beyond the corner
        for t in TINY:
            pts += [(a, b, t), (a, t, 0.1 * c), (t, b, c)]
    elif kind in ("Cylinder", "CylinderSegment"):
        if kind == "Cylinder":
            r0, h = p["dimension"][0] / 2, p["dimension"][1]
            radii, phis = [r0], [0.0, 2.0]
        else:
            r1, r2, h, p1, p2 = p["dimension"]
            radii, phis = [r for r in (r1, r2) if r > 0], [np.deg2rad(p1), np.deg2rad((p1 + p2) / 2)]
        for rr in radii:
            for r, z, ph in itertools.product(ladder(rr, ulp=(0,)), ladder(h / 2, ulp=(0,)) + [0.0, 0.3 * h], phis):
                pts.append((r * np.cos(ph), r * np.sin(ph), z))
            for t in TINY:
                pts += [(rr, 0.0, t), (rr, 0.0, h / 2 - t), (rr * np.cos(phis[0]), rr * np.sin(phis[0]), t)]
        for t in TINY:
            pts += [(t, 0.0, 0.0), (t, 0.0, h / 2), (0.0, t, 0.3 * h)]
    elif kind == "Sphere":
        r = p["diameter"] / 2
        for v in ladder(r, ulp=(0,)):
            pts += [(v, 0, 0), (0, 0, -v), (v / np.sqrt(3),) * 3]
        pts += [(t, 0, 0) for t in TINY]
    elif kind == "Circle":
        r0 = p["diameter"] / 2
        for r, z in itertools.product(ladder(r0), [0.0] + [s_ * t for t in TINY for s_ in (1, -1)] + [s_ * r0 * f for f in (1e-16, 1e-14, 1e-12, 1e-9, 1e-6) for s_ in (1, -1)]):
            if r == r0 and z == 0:
                continue
            pts += [(r, 0, z), (0, -r, z)]
        for t in TINY:
            pts += [(t, 0, 0.0), (t, 0, r0), (0, t, 1e-300)]
    elif kind == "Polyline":
        V = np.array(p["vertices"], dtype=float)
        for A, B in zip(V[:-1], V[1:]):
            d = B - A
            L = np.linalg.norm(d)
            if L == 0:
                continue
            e = np.cross(d, [0.3, 0.2, 0.9])
            e /= np.linalg.norm(e)
            for t in (-1.0, -1e-9, 0.0, 0.5, 1.0, 1 + 1e-9, 2.0):
                for s_ in [f * L for f in (1e-16, 1e-14, 1e-12, 1e-10, 1e-8, 1e-6)] + list(TINY):
                    pts.append(tuple(A + t * d + s_ * e))
    elif kind in ("Triangle", "Tetrahedron", "TriangularMesh"):
        V = np.array(p["vertices"], dtype=float)
        faces = [(0, 1, 2)] if kind == "Triangle" else [(0, 2, 1), (0, 1, 3), (1, 2, 3), (0, 3, 2)]
        for f in faces:
            A, B, C = V[list(f)]
            n = np.cross(B - A, C - A)
            n /= np.linalg.norm(n)
            cen = (A + B + C) / 3
            L = np.linalg.norm(B - A)
            inpl = np.cross(n, B - A)
            inpl /= np.linalg.norm(inpl)
            for s_ in [f_ * L for f_ in (1e-16, 1e-14, 1e-12, 1e-10, 1e-8, 1e-6)] + list(TINY):
                pts += [tuple(cen + s_ * n), tuple(cen - s_ * n), tuple((A + B) / 2 + s_ * n), tuple((A + B) / 2 + s_ * inpl), tuple((A + B) / 2 - s_ * inpl),
                        tuple(A + 2 * (B - A) + s_ * n), tuple(A + 2 * (B - A) + s_ * inpl)]
    pts = np.array(pts, dtype=float).reshape(-1, 3)
    return pts[np.isfinite(pts).all(axis=1)] if len(pts) else pts


def special_observers(kind, p):
    """observer sets (local frame) exactly on and within 2 ulp of every special set of the geometry"""
    if p.get("degenerate"):
        return np.array([(1.0, 2.0, 3.0), (0.3, 0.2, 0.1), (0.5, 0.0, 0.0), (-4.0, 0.1, 2.0)])  # a zero-size source: generic observers
    pts = []
    far = [1e3, 1e6, 1e12]
    if kind == "Cuboid":
        a, b, c = np.array(p["dimension"]) / 2
        for x, y, z in itertools.product(ulps(a, (-1, 0, 1)) + [0.0, a / 2], ulps(b, (-1, 0, 1)) + [0.0], ulps(c, (-1, 0, 1)) + [0.0, 2 * c]):
            pts += [(x, y, z), (-x, y, -z)]
        pts += [(a * f, 0.3 * b, 0.1 * c) for f in far] + [(a, b, c * f) for f in far] + [(0, 0, 0)]
    elif kind in ("Cylinder", "CylinderSegment"):
        if kind == "Cylinder":
            r0, h = p["dimension"][0] / 2, p["dimension"][1]
            radii, phis = [r0], [0.0, 1.0, np.pi / 2, np.pi, -np.pi / 2]
        else:
            r1, r2, h, p1, p2 = p["dimension"]
            radii, phis = [r1, r2], [np.deg2rad(p1), np.deg2rad(p2), np.deg2rad((p1 + p2) / 2), np.deg2rad(p1) + np.pi, 0.0]
            r0 = r2
        for r in [0.0, 5e-324, 1e-310, 0.05 * r0, r0 / 2] + [v for rr in radii for v in ulps(rr, (-1, 0, 1))] + [2 * r0]:
            for ph in phis:
                for z in ulps(h / 2, (-1, 0, 1)) + [0.0, -h / 2, h]:
                    pts.append((r * np.cos(ph), r * np.sin(ph), z))
        pts += [(r0 * f, 0.0, 0.1 * h) for f in far] + [(0.0, 0.0, h * f) for f in far] + [(r0 * 0.05, 0, 0), (r0 * 0.05, 0, h / 2)]
    elif kind == "Sphere":
        r = p["diameter"] / 2
        for v in ulps(r, (-2, -1, 0, 1, 2)) + [0.0, r / 2, 2 * r] + [r * f for f in far]:
            pts += [(v, 0, 0), (0, 0, -v), (v / np.sqrt(3),) * 3]
    elif kind in ("Triangle", "Tetrahedron", "TriangularMesh"):
        V = np.array(p["vertices"], dtype=float)
        faces = [(0, 1, 2)] if kind == "Triangle" else [(0, 2, 1), (0, 1, 3), (1, 2, 3), (0, 3, 2)]
        for f in faces:
            A, B, C = V[list(f)]
            n = np.cross(B - A, C - A)
            n /= np.linalg.norm(n)
            cen = (A + B + C) / 3
            pts += [tuple(cen), tuple(cen + 1e-15 * n), tuple(cen - 1e-15 * n), tuple((A + B) / 2), tuple(A + 2 * (B - A)), tuple(cen + n), tuple(A + 1e-14 * (cen - A))]
            pts += [tuple(cen + f_ * n) for f_ in far]
        # vertices themselves are documented singular points: excluded
    elif kind == "Circle":
        r0 = p["diameter"] / 2
        for r in [0.0, 5e-324, 1e-310, 1e-300, 0.05 * r0] + ulps(r0, (-2, -1, 1, 2)) + [r0 / 2, 2 * r0] + [r0 * f for f in far]:
            for z in (0.0, 1e-300, r0 * 1e-16, r0, -r0 * 1e3):
                if abs(r - r0) == 0 and z == 0:
                    continue  # the wire itself: checked separately (must be finite as well: the wrapper returns 0 there)
                pts += [(r, 0, z), (0, -r, z)]
        pts += [(r0, 0, 0), (0, r0, 0)]
    elif kind == "Polyline":
        V = np.array(p["vertices"], dtype=float)
        for A, B in zip(V[:-1], V[1:]):
            d = B - A
            pts += [tuple(A + t * d) for t in (-2.0, -1.0, -1e-15, 0.0, 0.5, 1.0, 1 + 1e-15, 2.0, 3.0, 1e6)]  # on the wire and on its extension lines
            e = np.cross(d, [0.3, 0.2, 0.9])
            e /= np.linalg.norm(e)
            pts += [tuple(A + 0.5 * d + s * e) for s in (1e-16, 1e-12, 1.0, 1e6, 1e12)]
    elif kind == "Dipole":
        pts += [(1e-9, 0, 0), (1, 1, 1), (1e12, 0, 0), (0, 0, 1e-15)]
    pts = np.array(pts, dtype=float).reshape(-1, 3)
    return pts[np.isfinite(pts).all(axis=1)]


def make(kind, p):
    import magpylib as magpy

    if kind == "Cuboid":
        return magpy.magnet.Cuboid(dimension=p["dimension"], polarization=p["exc"])
    if kind == "Cylinder":
        return magpy.magnet.Cylinder(dimension=p["dimension"], polarization=p["exc"])
    if kind == "CylinderSegment":
        return magpy.magnet.CylinderSegment(dimension=p["dimension"], polarization=p["exc"])
    if kind == "Sphere":
        return magpy.magnet.Sphere(diameter=p["diameter"], polarization=p["exc"])
    if kind == "Triangle":
        return magpy.misc.Triangle(vertices=p["vertices"], polarization=p["exc"])
    if kind == "Tetrahedron":
        return magpy.magnet.Tetrahedron(vertices=p["vertices"], polarization=p["exc"])
    if kind == "TriangularMesh":
        return magpy.magnet.TriangularMesh(vertices=p["vertices"], faces=[(0, 2, 1), (0, 1, 3), (1, 2, 3), (0, 3, 2)], polarization=p["exc"])
    if kind == "Circle":
        return magpy.current.Circle(diameter=p["diameter"], current=p["exc"][2])
    if kind == "Polyline":
        return magpy.current.Polyline(vertices=p["vertices"], current=p["exc"][2])
    if kind == "Dipole":
        return magpy.misc.Dipole(moment=p["exc"])
    raise KeyError(kind)


def configs():
    tet = [(0, 0, 0), (1, 0, 0), (0, 1, 0), (0.2, 0.3, 1)]
    excs = [(0.1, 0.2, 0.3), (0.0, 0.0, 1.0), (1.0, 0.0, 0.0), (0.0, 0.0, 0.0), (1e-12, 0, 1e12)]
    out = []
    for e in excs:
        out += [("Cuboid", dict(dimension=(1, 2, 3), exc=e)), ("Cuboid", dict(dimension=(1e-9, 1, 1e3), exc=e)),
                ("Cylinder", dict(dimension=(2, 2), exc=e)), ("Cylinder", dict(dimension=(1e-3, 5), exc=e)),
                ("CylinderSegment", dict(dimension=(1, 2, 2, 0, 90), exc=e)), ("CylinderSegment", dict(dimension=(0, 1, 1, -30, 330), exc=e)),
                ("CylinderSegment", dict(dimension=(0.5, 1, 2, 0, 360), exc=e)), ("CylinderSegment", dict(dimension=(1, 1, 2, 10, 10), exc=e)),
                ("CylinderSegment", dict(dimension=(0, 2, 1, 90, 180), exc=e)), ("CylinderSegment", dict(dimension=(1, 2, 1, 270, 450), exc=e)),
                ("Sphere", dict(diameter=1.5, exc=e)), ("Sphere", dict(diameter=0.0, exc=e)),
                ("Triangle", dict(vertices=tet[:3], exc=e)), ("Tetrahedron", dict(vertices=tet, exc=e)), ("TriangularMesh", dict(vertices=tet, exc=e)),
                ("Circle", dict(diameter=2.0, exc=e)), ("Circle", dict(diameter=0.0, exc=e)),
                ("Polyline", dict(vertices=[(0, 0, 0), (1, 1, 1), (2, 2, 3)], exc=e)), ("Polyline", dict(vertices=[(0, 0, 0), (0, 0, 0), (1, 0, 0)], exc=e)),
                ("Dipole", dict(exc=e))]
    e = excs[0]
    # zero-size bodies made of triangles: zero-area Triangle (all vertices equal / collinear), zero-volume Tetrahedron (coplanar / all equal)
    out += [("Triangle", dict(vertices=[(0, 0, 0)] * 3, exc=e, degenerate=True)), ("Triangle", dict(vertices=[(0, 0, 0), (1, 0, 0), (2, 0, 0)], exc=e, degenerate=True)),
            ("Tetrahedron", dict(vertices=[(0, 0, 0)] * 4, exc=e, degenerate=True)), ("Tetrahedron", dict(vertices=[(0, 0, 0), (1, 0, 0), (0, 1, 0), (1, 1, 0)], exc=e, degenerate=True))]
    # an area so small that its square underflows (the normal vector's norm is computed as sqrt of a sum of squares)
    out += [("Triangle", dict(vertices=[(0, 0, 0), (1, 0, 0), (2, 1e-300, 0)], exc=e, degenerate=True, underflow=True)),
            ("Triangle", dict(vertices=[(0, 0, 0), (1e-170, 0, 0), (0, 1e-170, 0)], exc=e, degenerate=True))]
    return out


class _Timeout(BaseException):
    pass


def timed(fn, seconds):
    """fn() under a wall-clock limit (SIGALRM; the iteration loops of the library are Python loops, so the alarm interrupts them); raises _Timeout"""
    import signal

    def handler(signum, frame):
        raise _Timeout()

    old = signal.signal(signal.SIGALRM, handler)
    t0 = time.time()
    outer, _ = signal.setitimer(signal.ITIMER_REAL, seconds)
    try:
        return fn()
    finally:
        # re-arm an enclosing alarm (the overall watchdog of the check) with what is left of it
        signal.setitimer(signal.ITIMER_REAL, max(outer - (time.time() - t0), 0.01) if outer > 0 else 0)
        signal.signal(signal.SIGALRM, old)


TIME_LIMIT_S = 20.0


def _one_config(args):
    """all observers of one source configuration, both fields -> (evaluations, list of failures)"""
    import warnings

    import magpylib as magpy

    warnings.simplefilter("ignore")
    kind, p = args
    bad, n = [], 0
    try:
        src = make(kind, p)
    except Exception:  # pylint: disable=broad-except
        return None  # rejected at construction: not an evaluation
    obs = special_observers(kind, p)
    app = approach_observers(kind, p) if tuple(p["exc"]) == (0.1, 0.2, 0.3) else []
    if len(app):
        obs = np.concatenate([obs, app]) if len(obs) else app
    if len(obs) == 0:
        return None
    for fld in "BH":
        f = getattr(magpy, "get" + fld)
        n += len(obs)
        F = None
        try:
            with np.errstate(all="ignore"):
                t0 = time.time()
                F = timed(lambda: f(src, obs), TIME_LIMIT_S)
                dt = time.time() - t0
            if F.shape != (len(obs), 3):
                bad.append((kind, p, None, fld, f"shape {F.shape}"))
                continue
            if dt > TIME_LIMIT_S:
                bad.append((kind, p, None, fld, f"took {dt:.1f} s for {len(obs)} observers"))
        except _Timeout:
            F = None
        except Exception:  # pylint: disable=broad-except
            F = None
        if F is None:
            # the batch raised or did not terminate: one observer at a time (each with its own limit) to find the rows responsible
            F = np.zeros((len(obs), 3))
            nfail = 0
            for i, o_ in enumerate(obs):
                try:
                    with np.errstate(all="ignore"):
                        F[i] = timed(lambda o_=o_: f(src, o_), 1.0)
                except _Timeout:
                    bad.append((kind, p, o_.tolist(), fld, "no result within 1 s for this single observer (iteration does not terminate)"))
                    nfail += 20  # a few non-terminating observers are enough: do not spend minutes on the rest
                except Exception as e:  # pylint: disable=broad-except
                    bad.append((kind, p, o_.tolist(), fld, f"raised {type(e).__name__}: {str(e)[:60]}"))
                    nfail += 1
                if nfail > 400:
                    break
        nf = ~np.isfinite(F).all(axis=1)
        for i in np.where(nf)[0]:
            bad.append((kind, p, obs[i].tolist(), fld, f"non-finite {F[i].tolist()}"))
    return n, bad


def native_special(seed, tier, only=None):
    """returns (evaluations, distinct configs, list of (kind, params, observer, field, message))"""
    import concurrent.futures as cf
    import multiprocessing as mp
    import os
    import warnings

    import magpylib as magpy

    warnings.simplefilter("ignore")
    bad, n, nc = [], 0, 0
    cfgs = [(kind, p) for kind, p in configs() if not only or kind in only]
    workers = min(int(os.environ.get("VERIF_WORKERS", "14")), os.cpu_count() or 4)
    if workers > 1:
        with cf.ProcessPoolExecutor(max_workers=workers, mp_context=mp.get_context("fork")) as ex:
            results = list(ex.map(_one_config, cfgs))
    else:
        results = [_one_config(c) for c in cfgs]
    for r in results:
        if r is None:
            continue
        nc += 1
        n += r[0]
        bad += r[1]
    # zero-size sources through the functional interface (the constructors reject some of them)
    if not only:
        obs = np.array([(0.0, 0.0, 0.0), (0.3, 0.2, 0.1), (0.0, 0.5, 0.0), (2.0, 0.0, 0.0)])
        for cname, kw in (("Cuboid", dict(dimension=(0, 1, 1), polarization=(.1, .2, .3))), ("Cuboid", dict(dimension=(0, 0, 0), polarization=(.1, .2, .3))),
                          ("Cylinder", dict(dimension=(1, 0), polarization=(.1, .2, .3))), ("Sphere", dict(diameter=0, polarization=(.1, .2, .3))),
                          ("Circle", dict(diameter=0, current=1.0)), ("Dipole", dict(moment=(0, 0, 0)))):
            nc += 1
            for fld in "BH":
                try:
                    with np.errstate(all="ignore"):
                        F = getattr(magpy, "get" + fld)(cname, obs[1:] if cname == "Dipole" else obs, **kw)
                except Exception as e:  # pylint: disable=broad-except
                    bad.append((cname, dict(kw, exc=(0, 0, 0), functional=True), None, fld, f"functional interface raised {type(e).__name__}: {str(e)[:60]}"))
                    continue
                n += len(F)
                if not np.isfinite(F).all():
                    bad.append((cname, dict(kw, exc=(0, 0, 0), functional=True), None, fld, f"zero-size source via the functional interface: non-finite {F[~np.isfinite(F).all(axis=1)][0].tolist()}"))
    return n, nc, bad


REPLAY = """import sys, json
import numpy as np, magpylib as magpy
from checks.c15 import make, timed, _Timeout
kind, p, o, fld = {kind!r}, json.loads({p!r}), {o!r}, {fld!r}
p['exc'] = tuple(p['exc'])
try:
    with np.errstate(all='ignore'):
        F = timed(lambda: getattr(magpy, 'get' + fld)(make(kind, p), o), 10.0)
except _Timeout:
    print(kind, p, 'observer', o, '-> no result within 10 s')
    sys.exit(1)
print(kind, p, 'observer', o, '->', F)
sys.exit(0 if np.isfinite(F).all() else 1)
"""


def _rel_to_special(kind, p, o):
    """relative distances of the observer to the special coordinate values of the geometry (0 = exactly on that one)"""
    x, y, z = o
    if kind == "CylinderSegment":
        r1, r2, h, p1, p2 = p["dimension"]
        r, ph = np.hypot(x, y), np.arctan2(y, x)
        ds = [abs(r - r2) / r2, abs(abs(z) - h / 2) / h, r / r2]
        if r1 > 0:
            ds.append(abs(r - r1) / r2)
        for pp in (p1, p2):
            d = (ph - np.deg2rad(pp) + np.pi) % (2 * np.pi) - np.pi
            ds.append(abs(d))
        return ds
    if kind == "Cuboid":
        a, b, c = np.array(p["dimension"], dtype=float) / 2
        return [abs(abs(x) - a) / a, abs(abs(y) - b) / b, abs(abs(z) - c) / c]
    return []


def region_match(k, b):
    """is the failing case b = (kind, params, observer, field, message) inside the recorded region of the known finding k?"""
    reg = k.get("region")
    if not reg or b[2] is None or reg["kind"] != b[0]:
        return False
    if bool(reg.get("degenerate")) != bool(b[1].get("degenerate")):
        return False
    if bool(reg.get("underflow")) != bool(b[1].get("underflow")):
        return False
    if reg.get("dimension_aspect_min"):
        d = np.array(b[1]["dimension"], dtype=float)
        if d.max() / d.min() < reg["dimension_aspect_min"]:
            return False
    if reg.get("diameter") is not None and b[1].get("diameter") != reg["diameter"]:
        return False
    if "rel_max" in reg:
        ds = _rel_to_special(b[0], b[1], b[2])
        if not any(reg.get("rel_min", 0.0) <= d <= reg["rel_max"] for d in ds):
            return False
    if "observer_norm_max" in reg and np.linalg.norm(b[2]) > reg["observer_norm_max"]:
        return False
    if "observer_norm_min" in reg and np.linalg.norm(b[2]) < reg["observer_norm_min"]:
        return False
    return any(tok in b[4] for tok in reg["failure_kinds"])


def main(tier, seed):
    rep = Report(PID, tier, seed, "proof")
    from engine import crosscheck

    crosscheck.attach(rep, seed)
    rep.assumed_contract("core field functions are total (finite) on the argument region their wrapper sends them — ASSUMED; termination and convergence of the "
                         "cel / el3 iteration loops and finiteness through the elliptic/transcendental cores are NOT proved (bounded stand-in only)")
    rep.assume("reals for doubles: overflow / underflow / cancellation to inf or nan in float64 is outside the proof part (bounded stand-in only)")
    rep.assume("observer not at a documented singular point (the location of a Dipole; vertices of Triangle-based sources)")
    rep.explanation = "definedness calculus over the wrapper terms of every path (z3); special-set enumeration natively as labelled bounded stand-in"
    names = [n_ for n_ in WRAPPERS]
    fails = run_parallel(rep, [(nm, (lambda r, nm=nm: definedness_obligations(r, nm))) for nm in names])
    n, nc, bad = native_special(seed, tier)
    known = [k for k in load_known() if k["property"] == PID and k.get("status") == "known"]
    unknown_bad = []
    hit = set()

    def geom(p):
        return json.dumps({k: v for k, v in p.items() if k != "exc"}, sort_keys=True, default=list)

    for b in bad:
        kid = None
        for k in known:
            for wk, wg, wo in k["witnesses"]:
                if wk == b[0] and json.dumps(wg, sort_keys=True) == geom(b[1]) and b[2] is not None and np.allclose(wo, b[2], rtol=1e-12, atol=1e-300):
                    kid = k
        if kid is None:
            kid = next((k for k in known if region_match(k, b)), None)
        if kid:
            hit.add(kid["id"])
        else:
            unknown_bad.append(b)
    for k in known:
        if k["id"] in hit:
            rep.known_finding(k)
    rep.standin("special-set enumeration: observers exactly on and within 2 ulp of faces / edges / corners / axis / wire / extension lines, zero-size and "
                "zero-excitation sources, distances to 1e12", f"{nc} source configurations x B,H", n, nc, "finite, right shape, < 20 s per call",
                [dict(kind="Cylinder", dimension=(2, 2), observer=(1.0, 0.0, 1.0))], failures=len(unknown_bad), exhaustive=True)
    for f in fails:
        cls = f["wrapper"].split("(")[0]
        hitb = [b for b in unknown_bad if b[0] == cls and b[2] is not None]
        if hitb:
            b = hitb[0]
            rep.violation(f["name"], {"why": f["why"], "native_result": b[4], "script": REPLAY.format(kind=b[0], p=json.dumps(b[1]), o=b[2], fld=b[3])})
        else:
            rep.violation(f["name"], {"why": f["why"], "solver_output": json.dumps(f.get("row"))}, found_input=False)
    if not fails:
        seen = set()
        for b in unknown_bad:
            key = (b[0], b[4][:12])
            if key in seen or len(seen) >= 4:
                continue
            seen.add(key)
            if b[2] is not None:
                rep.violation(f"standin.special-set[{b[0]}]", {"native_result": b[4], "source": b[1], "observer": b[2],
                                                              "script": REPLAY.format(kind=b[0], p=json.dumps(b[1]), o=b[2], fld=b[3])})
            else:
                rep.violation(f"standin.special-set[{b[0]}]", {"native_result": b[4], "source": b[1]}, found_input=False)
    return rep.finish()
