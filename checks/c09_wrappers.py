"""C09 (part): all rotate_from_* forms equal rotate() with the equivalent rotation.

* rotate_from_rotvec / euler / matrix / mrp / quat: call-equivalence — the real method,
  with `R` bound to a recorder and `self.rotate` to a recorder, must build the rotation by the
  scipy constructor of the same name from the *unchanged* user arguments (same degrees flag,
  euler: seq then angle) and forward (rot, anchor, start) unchanged, returning rotate()'s result.
* rotate_from_angax: the rotation vector handed to R.from_rotvec is axis/|axis| * angle[rad]
  (row-generic over the angle vector, symbolic reals; deg->rad factor checked symbolically).
scipy's constructors themselves are an assumed dependency contract.
"""
import numbers

import z3

import magpylib._src.obj_classes.class_BaseTransform as BT
from engine import solve
from engine.rebind import describe, rebind, rebind_class


class Tok:
    def __init__(self, name):
        self.name = name

    def __repr__(self):
        return f"<{self.name}>"


class RecR:
    def __init__(self):
        self.calls = []

    def __getattr__(self, name):
        if not name.startswith("from_"):
            raise AttributeError(name)

        def ctor(*a, **k):
            t = Tok("rot:" + name)
            self.calls.append((name, a, k, t))
            return t

        return ctor


def _structural(rep, name, ok, fn, why=""):
    r = {"status": "discharged" if ok else "refuted", "backend": "structural-identity", "time_s": 0.0, "model": None}
    rep.obligation(name, r, fn, "post")
    return [] if ok else [(name, {"status": "refuted", "hint": {}, "model_str": why}, why, dict(op="wrapper", name=name))]


# ---- tiny real-valued shim for rotate_from_angax --------------------------------------------
class RS(numbers.Real if False else object):
    """symbolic real scalar or generic element of an (n,) array (is_row)"""

    def __init__(self, t, row=False):
        self.t, self.row = t, row

    def _o(self, o):
        if isinstance(o, RS):
            return o.t, o.row
        if isinstance(o, (int, float)):
            return z3.RealVal(repr(o)) if isinstance(o, float) else z3.RealVal(o), False
        return None, None

    def __truediv__(self, o):
        t, r = self._o(o)
        return NotImplemented if t is None else RS(self.t / t, self.row or r)

    def __mul__(self, o):
        t, r = self._o(o)
        return NotImplemented if t is None else RS(self.t * t, self.row or r)

    __rmul__ = __mul__

    def _cmp(self, o, f):
        from engine.symex import SymBool, Unsupported

        t, r = self._o(o)
        if t is None:
            return NotImplemented
        if self.row or r:
            raise Unsupported("comparison of an angle array in a Boolean context")
        return SymBool(f(self.t, t))  # forks: special-casing of particular angle values is explored on both sides

    def __eq__(self, o):
        return self._cmp(o, lambda a, b: a == b)

    def __ne__(self, o):
        return self._cmp(o, lambda a, b: a != b)

    def __lt__(self, o):
        return self._cmp(o, lambda a, b: a < b)

    def __le__(self, o):
        return self._cmp(o, lambda a, b: a <= b)

    def __gt__(self, o):
        return self._cmp(o, lambda a, b: a > b)

    def __ge__(self, o):
        return self._cmp(o, lambda a, b: a >= b)

    __hash__ = None


class R3:
    """(3,) vector of RS, or generic row of an (n,3) array"""

    def __init__(self, c, row=False):
        self.c, self.row = list(c), row

    def __truediv__(self, o):
        if isinstance(o, RS):
            return R3([RS(x.t / o.t) for x in self.c], self.row or o.row)
        return NotImplemented

    def __mul__(self, o):
        if isinstance(o, RS):
            return R3([RS(x.t * o.t) for x in self.c], self.row or o.row)
        if isinstance(o, R3):
            return R3([RS(x.t * y.t) for x, y in zip(self.c, o.c)], self.row or o.row)
        return NotImplemented

    __rmul__ = __mul__

    @property
    def T(self):
        return self


PI = z3.Real("PI")
NORM = z3.Function("norm3", z3.RealSort(), z3.RealSort(), z3.RealSort(), z3.RealSort())


class NPr:
    pi = RS(PI)

    @staticmethod
    def ones(k):
        assert k == 3
        return R3([RS(z3.RealVal(1))] * 3)

    @staticmethod
    def tile(a, reps):
        assert isinstance(a, RS) and a.row and tuple(reps) == (3, 1)
        return R3([a, a, a], row=True)  # (3,n); .T -> (n,3) generic row (a_i,a_i,a_i)

    class linalg:
        @staticmethod
        def norm(v):
            assert isinstance(v, R3) and not v.row
            return RS(NORM(*[x.t for x in v.c]))


def _isinst(obj, cls):
    if isinstance(obj, RS) and cls is numbers.Number:
        return not obj.row
    return isinstance(obj, cls)


def run(rep, tier):
    fails = []
    cls = BT.BaseTransform
    # ---- pure forwarding wrappers
    specs = {
        "rotate_from_rotvec": ("from_rotvec", lambda a, d: ((a,), {"degrees": d}), True),
        "rotate_from_euler": ("from_euler", lambda a, d: (("SEQ", a), {"degrees": d}), True),
        "rotate_from_matrix": ("from_matrix", lambda a, d: ((a,), {}), False),
        "rotate_from_mrp": ("from_mrp", lambda a, d: ((a,), {}), False),
        "rotate_from_quat": ("from_quat", lambda a, d: ((a,), {}), False),
    }
    for meth, (ctor, mk, has_deg) in specs.items():
        rep.function(describe(getattr(cls, meth)))
        for deg in ((True, False) if has_deg else (None,)):
            rec = RecR()
            ns = rebind(BT, dict(R=rec))
            C = rebind_class(cls, ns)
            o = object.__new__(C)
            rcalls = []
            ret = Tok("ret")
            o.rotate = lambda *a, **k: (rcalls.append((a, k)), ret)[1]
            arg, anc, st = Tok("arg"), Tok("anchor"), Tok("start")
            kw = {"degrees": deg} if has_deg else {}
            if meth == "rotate_from_euler":
                out = getattr(o, meth)(arg, "SEQ", anchor=anc, start=st, **kw)
            else:
                out = getattr(o, meth)(arg, anchor=anc, start=st, **kw)
            ea, ek = mk(arg, deg)
            ok = (
                len(rec.calls) == 1
                and rec.calls[0][0] == ctor
                and len(rec.calls[0][1]) == len(ea)
                and all(x is y or x == y for x, y in zip(rec.calls[0][1], ea))
                and rec.calls[0][2] == ek
                and len(rcalls) == 1
                and out is ret
            )
            if ok:
                a, k = rcalls[0]
                full = dict(zip(("rotation", "anchor", "start"), a))
                full.update(k)
                ok = full.get("rotation") is rec.calls[0][3] and full.get("anchor") is anc and full.get("start") is st
            fails += _structural(rep, f"{meth}[degrees={deg}].forwards-R.{ctor}(args)-anchor-start-unchanged", ok,
                                 describe(getattr(cls, meth))["function"], f"calls={rec.calls} rotate={rcalls}")
    # ---- rotate_from_angax: rotation vector = axis/|axis| * angle[rad]
    rep.function(describe(cls.rotate_from_angax))
    for vec_angle, deg in ((False, True), (False, False), (True, True), (True, False)):
        rec = RecR()
        t = z3.Real("angle")
        ax = [z3.Real(f"ax{i}") for i in range(3)]
        ns = rebind(
            BT,
            dict(
                R=rec,
                np=NPr,
                isinstance=_isinst,
                check_format_input_angle=lambda a: a,
                check_format_input_axis=lambda a: a,
                check_start_type=lambda a: None,
                check_degree_type=lambda a: None,
            ),
        )
        C = rebind_class(cls, ns)
        o = object.__new__(C)
        rcalls = []
        ret = Tok("ret")
        o.rotate = lambda *a, **k: (rcalls.append((a, k)), ret)[1]
        anc, st = Tok("anchor"), Tok("start")
        from engine.symex import explore

        def body():
            del rcalls[:]
            del rec.calls[:]
            return o.rotate_from_angax(RS(t, row=vec_angle), R3([RS(x) for x in ax]), anchor=anc, start=st, degrees=deg)

        for pi_, (ctx, (kind, out)) in enumerate(explore(body), 1):
            name = f"rotate_from_angax[angle={'vector' if vec_angle else 'scalar'},degrees={deg}]@path{pi_}"
            if kind != "ok":
                stt = "unknown" if kind == "unsupported" else "refuted"
                rep.obligation(name + ".no-exception", {"status": stt, "backend": "symex", "time_s": 0, "reason": str(out)[:200]}, describe(cls.rotate_from_angax)["function"])
                if stt == "refuted":
                    fails.append((name + ".no-exception", {"status": "refuted", "hint": {}, "model_str": ""}, repr(out), dict(op="wrapper")))
                continue
            okc = len(rec.calls) == 1 and rec.calls[0][0] == "from_rotvec" and len(rcalls) == 1 and out is ret
            if okc:
                a, kk = rcalls[0]
                full = dict(zip(("rotation", "anchor", "start"), a))
                full.update(kk)
                okc = full.get("rotation") is rec.calls[0][3] and full.get("anchor") is anc and full.get("start") is st
                okc = okc and not rec.calls[0][2].get("degrees", False)
            fails += _structural(rep, name + ".forwards-rot-anchor-start(for-every-angle-value)", okc, describe(cls.rotate_from_angax)["function"],
                                 f"path condition {[str(c) for c in ctx.pc]}: rotate() is not called with the equivalent rotation")
            if okc:
                rv = rec.calls[0][1][0]
                nrm = NORM(*ax)
                rad = t * PI / 180 if deg else t
                goal = z3.And(*[rv.c[i].t == ax[i] / nrm * rad for i in range(3)], rv.row == vec_angle)
                r = solve.discharge(list(ctx.pc) + [nrm > 0, PI > 3], goal)
                rep.obligation(name + ".rotvec==axis/|axis|*angle_rad", r, describe(cls.rotate_from_angax)["function"], "post")
                if r["status"] == "refuted":
                    fails.append((name + ".rotvec", {"status": "refuted", "hint": {}, "model_str": str(r.get("model"))}, "rotation vector differs from axis/|axis|*angle[rad]", dict(op="wrapper")))
    rep.assumed_contract("scipy Rotation.from_rotvec/from_euler/from_matrix/from_mrp/from_quat: the documented parametrisations")
    return fails
