"""C10 — operations on a Collection keep every child's pose relative to it.

Stage 1 (per function, real code, all lengths): a collection-shaped tree
   top -> [mid -> [leaf1], leaf2]
of *real* re-bound BaseGeo/BaseTransform objects (path lengths all N, the property's
precondition) is operated on symbolically; every node's new pose at a fresh index k
must equal ONE rigid transformation T_k of its old pose at the C09 index j(k),
the same T_k for every node of the tree:
   move:        P' = P + d                      O' = O
   rotate:      P' = rho(P - a) + a             O' = rho∘O      (a = anchor, or the top's own position when anchor is None)
   position=X:  P' = X + (P - P_top)            O' = O          (edge-pad / end-slice index map)
   orientation=Y: P' = (Y∘inv(O_top))(P - P_top) + P_top   O' = (Y∘inv(O_top))∘O
These are quantifier-free UF+LIA obligations.
Stage 2 (pure lemmas over the contracts, group-action axioms): if two nodes undergo the same
T_k then their relative pose inv(O_c)(P_h - P_c), inv(O_c)∘O_h is unchanged.
Frame: operating on a child alone leaves parent and siblings untouched (structural identity).
Arbitrary depth/arity: by induction — the recursion forwards its arguments unchanged (checked:
stage 1 at depth 3 exercises top / inner / leaf roles of the same code).
"""
import itertools

import z3

from checks.c09 import A, D, PP, RHO, X, Y, N, a0, d0, k, m, n, na, rho, start, x0, _mk_anchor, _mk_rot, discharge_paths
from contracts import path_spec as PS
from contracts.pathns import REAL_FUNCS, PathNS
from engine import solve
from engine.idx import RID, VZERO, Arr, Rot, SRot, Vec, act, clamp, fresh_path, inv, mul, vadd, vsub
from engine.rebind import describe
from engine.report import Report
from engine.symex import SymInt

PID = "C10"
NAMES = ("top", "mid", "leaf1", "leaf2")


def make_tree(ns):
    nodes, fns = {}, {}
    for nm in NAMES:
        p, o, P, O = fresh_path(nm, N)
        nodes[nm] = ns.node(p, o)
        fns[nm] = (P, O)
    nodes["mid"].children = [nodes["leaf1"]]
    nodes["top"].children = [nodes["mid"], nodes["leaf2"]]
    nodes["top"]._parent = None
    nodes["mid"]._parent = nodes["leaf2"]._parent = nodes["top"]
    nodes["leaf1"]._parent = nodes["mid"]
    for nd in nodes.values():
        nd.parent = nd._parent
    return nodes, fns


def node_goal(node, exp_len, expP, expO):
    q = node._orientation.q
    pe = node._position.snapshot()
    return z3.And(pe.length == exp_len, q.length == exp_len, exp_len >= 1,
                  z3.Implies(z3.And(0 <= k, k < exp_len), z3.And(pe.elem(k) == expP, q.elem(k) == expO)))


SUBTREE = {"top": NAMES, "mid": ("mid", "leaf1")}


def _untouched_goal(nodes, fns, names):
    out = []
    for nm in names:
        P, O = fns[nm]
        out.append((f"untouched.{nm}", node_goal(nodes[nm], N, P(k), O(k))))
    return out


def scen_move(rep):
    fails = []
    for scalar, auto, root in itertools.product((True, False), (True, False), ("top", "mid")):
        ns = PathNS()

        def body():
            nodes, fns = make_tree(ns)
            disp = Arr(None, lambda i: d0, "vec") if scalar else Arr(n, lambda i: D(i), "vec")
            nodes[root].move(disp, start="auto" if auto else SymInt(start))
            return nodes, fns

        def post(ctx, res):
            nodes, fns = res
            out = _untouched_goal(nodes, fns, [x for x in NAMES if x not in SUBTREE[root]])
            for nm in SUBTREE[root]:
                P, O = fns[nm]
                obj = nodes[nm]
                q = obj._orientation.q
                out.append((f"same-rigid-motion.{nm}",
                            PS.z_move_post(N, P, O, k, obj._position.snapshot().elem, q.elem, obj._position.length, q.length,
                                           scalar, n, None if auto else start, (lambda i: d0) if scalar else (lambda i: D(i)))))
            return out

        fails += discharge_paths(rep, f"collection({root}).move[scalar={scalar},auto={auto}]",
                                 "magpylib._src.obj_classes.class_BaseTransform:BaseTransform.move", body, post, [N >= 1, n >= 1])
    return fails


def scen_rotate(rep, only=None):
    fails = []
    for rk, ak, auto, root in itertools.product("sv", ("none", "zero", "s", "v"), (True, False), ("top", "mid")):
        if only and (rk, ak) != only:
            continue
        ns = PathNS()

        def body():
            nodes, fns = make_tree(ns)
            nodes[root].rotate(_mk_rot(rk), anchor=_mk_anchor(ak), start="auto" if auto else SymInt(start))
            return nodes, fns

        def post(ctx, res):
            nodes, fns = res
            rl = None if rk == "s" else n
            al = na if ak == "v" else None
            if rl is None and al is None:
                scalar, nn = True, z3.IntVal(1)
            else:
                scalar = False
                nn = rl if al is None else (al if rl is None else z3.If(rl > al, rl, al))
            rot_at = (lambda i: rho) if rk == "s" else (lambda i: RHO(clamp(i, n)))
            Ptop = fns[root][0]
            out = _untouched_goal(nodes, fns, [x for x in NAMES if x not in SUBTREE[root]])
            for nm in SUBTREE[root]:
                P, O = fns[nm]
                obj = nodes[nm]
                if ak == "none":
                    anc_at = None if nm == root else (lambda i, j: Ptop(clamp(j, N)))
                elif ak == "zero":
                    anc_at = lambda i, j: VZERO
                elif ak == "s":
                    anc_at = lambda i, j: a0
                else:
                    anc_at = lambda i, j: A(clamp(i, na))
                q = obj._orientation.q
                out.append((f"same-rigid-motion.{nm}",
                            PS.z_rotate_post(N, P, O, k, obj._position.snapshot().elem, q.elem, obj._position.length, q.length,
                                             scalar, nn, None if auto else start, rot_at, anc_at)))
            return out

        fails += discharge_paths(rep, f"collection({root}).rotate[rot={rk},anchor={ak},auto={auto}]",
                                 "magpylib._src.obj_classes.class_BaseTransform:BaseTransform._rotate", body, post,
                                 [N >= 1, n >= 1, na >= 1])
    return fails


def _ps(F, mm):
    """pad/slice index map of a path function F of old length N to new length mm at index k"""
    return z3.If(mm >= N, F(clamp(k, N)), F(k + N - mm))


def scen_setters(rep):
    fails = []
    for scalar in (True, False):
        ns = PathNS()

        def body():
            nodes, fns = make_tree(ns)
            nodes["top"].position = Arr(None, lambda i: x0, "vec") if scalar else Arr(m, lambda i: X(i), "vec")
            return nodes, fns

        def post(ctx, res):
            nodes, fns = res
            mm = z3.IntVal(1) if scalar else m
            newtop = x0 if scalar else X(k)
            Pt = fns["top"][0]
            out = []
            exp = {"top": newtop}
            for nm, par in (("mid", "top"), ("leaf2", "top"), ("leaf1", "mid")):
                # each level's setter: child' = parent' + (child - parent_old), on the pad/slice index map
                exp[nm] = vadd(exp[par], vsub(_ps(fns[nm][0], mm), _ps(fns[par][0], mm)))
            for nm in NAMES:
                out.append((f"translated-with-parent.{nm}", node_goal(nodes[nm], mm, exp[nm], _ps(fns[nm][1], mm))))
            return out

        fails += discharge_paths(rep, f"collection.position=[scalar={scalar}]",
                                 "magpylib._src.obj_classes.class_BaseGeo:BaseGeo.position", body, post, [N >= 1, m >= 1])
    for kind in ("none", "single", "vector"):
        ns = PathNS()

        def body():
            nodes, fns = make_tree(ns)
            nodes["top"].orientation = (None if kind == "none" else
                                        SRot(Arr(None, lambda i: rho, "quat")) if kind == "single" else
                                        SRot(Arr(m, lambda i: Y(i), "quat")))
            return nodes, fns

        def post(ctx, res):
            nodes, fns = res
            mm = m if kind == "vector" else z3.IntVal(1)
            newO = RID if kind == "none" else (rho if kind == "single" else Y(k))
            Pt, Ot = fns["top"]
            T = mul(newO, inv(_ps(Ot, mm)))
            out = []
            for nm in NAMES:
                P, O = fns[nm]
                if nm == "top":
                    expP, expO = _ps(P, mm), newO
                else:
                    # step 1: child.position = pad/slice(child) (leaf1 follows mid through mid's own position setter)
                    q1 = _ps(P, mm)
                    if nm == "leaf1":
                        pm = _ps(fns["mid"][0], mm)
                        q1 = vadd(pm, vsub(q1, pm))
                    # step 2: rotation T = Y∘inv(O_top) about the collection position
                    expP = vadd(act(T, vsub(q1, _ps(Pt, mm))), _ps(Pt, mm))
                    expO = mul(T, _ps(O, mm))
                out.append((f"rotated-with-collection.{nm}", node_goal(nodes[nm], mm, expP, expO)))
            return out

        fails += discharge_paths(rep, f"collection.orientation=[{kind}]",
                                 "magpylib._src.obj_classes.class_BaseGeo:BaseGeo.orientation", body, post, [N >= 1, m >= 1])
    return fails


def scen_frame(rep):
    """operating on a child alone changes only that child (and its own subtree)"""
    fails = []
    ops = {
        "move": lambda o: o.move(Arr(n, lambda i: D(i), "vec"), start=SymInt(start)),
        "rotate": lambda o: o.rotate(_mk_rot("v"), anchor=_mk_anchor("s"), start=SymInt(start)),
        "position=": lambda o: setattr(o, "position", Arr(m, lambda i: X(i), "vec")),
        "orientation=": lambda o: setattr(o, "orientation", SRot(Arr(m, lambda i: Y(i), "quat"))),
        "reset_path": lambda o: o.reset_path(),
    }
    from engine.symex import Ctx, explore

    for name, op in ops.items():
        for target in ("mid", "leaf2"):
            ns = PathNS()
            vec0 = ns.bg["check_format_input_vector"]
            ns.bg["check_format_input_vector"] = lambda inp, *a, **kw: vec0(
                Arr(None, lambda i: VZERO, "vec") if isinstance(inp, tuple) else inp, *a, **kw)

            def body():
                nodes, _ = make_tree(ns)
                others = [x for x in NAMES if x != target and not (target == "mid" and x == "leaf1")]
                pre = {x: (nodes[x]._position, nodes[x]._position._elem, nodes[x]._orientation, nodes[x]._orientation.q._elem) for x in others}
                op(nodes[target])
                return all(a is b for x in others
                           for a, b in zip(pre[x], (nodes[x]._position, nodes[x]._position._elem, nodes[x]._orientation,
                                                    nodes[x]._orientation.q._elem)))

            i = 0
            for ctx, (kind, res) in explore(lambda: (Ctx.cur.pc.extend([N >= 1, n >= 1, m >= 1]), body())[1]):
                i += 1
                rep.paths += 1
                ok = kind == "ok" and res is True
                r = {"status": "discharged" if ok else ("unknown" if kind == "unsupported" else "refuted"), "backend": "structural-identity", "time_s": 0.0, "model": None,
                     "reason": str(res)[:200]}
                nm = f"frame[{name} on {target}]@path{i}.parent-and-siblings-untouched"
                rep.obligation(nm, r, "magpylib._src.obj_classes.class_BaseTransform/class_BaseGeo (frame)", "frame")
                if not ok and kind != "unsupported":
                    fails.append((nm, {"status": "refuted", "hint": {}, "model_str": ""}, f"{kind}: {res!r}"))
    return fails


# ---------------------------------------------------------------------------
def lemmas(rep, tier="quick"):
    """stage 2: pure algebra over the stage-1 contracts, decided by the canonical normal form
    (free-group words + linear forms, engine/nf.py); z3 with quantified axioms is an independent
    second opinion in the thorough tier (reported, not deciding)."""
    from engine import nf

    for t in ("rotations form a group (assoc, identity, inverse)", "act(ab,u)=act(a,act(b,u)), act(e,u)=u",
              "act(a, u+v) = act(a,u)+act(a,v) (linear)", "Vec is an abelian group under vadd/vsub"):
        rep.axiom("assumed contract of scipy Rotation / R^3: " + t)
    r_, Oc, Oh, Yn = z3.Consts("r Oc Oh Yn", Rot)
    Pc, Ph, aa, dd, Xn, Pg = z3.Consts("Pc Ph aa dd Xn Pg", Vec)
    relp = lambda O, P1, P0: act(inv(O), vsub(P1, P0))
    relo = lambda O, O1: mul(inv(O), O1)
    rig = lambda p: vadd(act(r_, vsub(p, aa)), aa)
    T = mul(Yn, inv(Oc))
    Ph1 = vadd(Xn, vsub(Ph, Pc))  # child after collection.position = Xn
    Pg1 = vadd(Ph1, vsub(Pg, Ph))  # grandchild follows the child
    q1 = vadd(Ph, vsub(Pg, Ph))
    L = {
        "move.relative-position": (relp(Oc, vadd(Ph, dd), vadd(Pc, dd)), relp(Oc, Ph, Pc)),
        "rotate(anchor).relative-position": (relp(mul(r_, Oc), rig(Ph), rig(Pc)), relp(Oc, Ph, Pc)),
        "rotate.relative-orientation": (relo(mul(r_, Oc), mul(r_, Oh)), relo(Oc, Oh)),
        "rotate(no anchor).relative-position": (relp(mul(r_, Oc), vadd(act(r_, vsub(Ph, Pc)), Pc), Pc), relp(Oc, Ph, Pc)),
        "position=.relative-position": (relp(Oc, Ph1, Xn), relp(Oc, Ph, Pc)),
        "position=.nested-relative-position(grandchild to collection)": (relp(Oc, Pg1, Xn), relp(Oc, Pg, Pc)),
        "position=.nested-relative-position(grandchild to child)": (relp(Oh, Pg1, Ph1), relp(Oh, Pg, Ph)),
        "orientation=.relative-position": (relp(Yn, vadd(act(T, vsub(Ph, Pc)), Pc), Pc), relp(Oc, Ph, Pc)),
        "orientation=.nested-relative-position": (relp(Yn, vadd(act(T, vsub(q1, Pc)), Pc), Pc), relp(Oc, Pg, Pc)),
        "orientation=.relative-orientation": (relo(Yn, mul(T, Oh)), relo(Oc, Oh)),
    }
    fails = []
    for name, (lhs, rhs) in L.items():
        st = nf.prove_eq(lhs, rhs)
        r = {"status": st, "backend": "normal-form(free group x linear forms)", "time_s": 0.0}
        rep.obligation("lemma." + name, r, "lemma over the stage-1 contracts (no code)", "lemma",
                       sample=f"NF({lhs.sexpr()}) == NF({rhs.sexpr()})" if name.startswith("rotate(anchor)") else None)
        if st != "discharged":
            fails.append(("lemma." + name, {"status": st, "hint": {}, "model_str": "normal forms differ"}, "lemma refuted in the free model"))
    # canary: a wrong lemma must be refuted (vacuity guard for the decision procedure)
    if nf.prove_eq(relo(mul(r_, Oc), mul(Oh, r_)), relo(Oc, Oh)) == "discharged":
        raise RuntimeError("normal form proves a false lemma")
    if tier == "thorough":
        a, b, c = z3.Consts("a b c", Rot)
        u, v, w = z3.Consts("u v w", Vec)
        e = RID
        AX = [
            z3.ForAll([a, b, u], act(mul(a, b), u) == act(a, act(b, u))),
            z3.ForAll([a, u], act(inv(a), act(a, u)) == u),
            z3.ForAll([a, b], inv(mul(a, b)) == mul(inv(b), inv(a))),
            z3.ForAll([a, u, v], act(a, vsub(u, v)) == vsub(act(a, u), act(a, v))),
            z3.ForAll([u, v], vsub(vadd(u, v), v) == u),
            z3.ForAll([u, v], vsub(vadd(v, u), v) == u),
            z3.ForAll([u, v, w], vsub(vadd(u, w), vadd(v, w)) == vsub(u, v)),
            z3.ForAll([u, v, w], vsub(vsub(u, w), vsub(v, w)) == vsub(u, v)),
            z3.ForAll([a, b, c], mul(mul(a, b), c) == mul(a, mul(b, c))),
            z3.ForAll([a], mul(inv(a), a) == e),
            z3.ForAll([a], mul(e, a) == a),
        ]
        second = {}
        for name, (lhs, rhs) in L.items():
            second[name] = solve.discharge_killable(AX, lhs == rhs, timeout_s=20)["status"]
        rep.notes.append("second opinion z3+quantified axioms (incomplete axiom set; not deciding): " + str(second))
    return fails


# ---------------------------------------------------------------------------
def native_rel(seed, opname, params):
    """native replay on the real library: returns message if a child's relative pose changes"""
    import numpy as np

    import magpylib as magpy
    from scipy.spatial.transform import Rotation as R

    rng = np.random.default_rng(seed)
    Nn = params["N"]

    def mk(cls, **kw):
        o = cls(**kw)
        o._position = rng.normal(size=(Nn, 3))
        o._orientation = R.from_rotvec(rng.normal(size=(Nn, 3)))
        return o

    l1, l2 = mk(magpy.Sensor), mk(magpy.misc.Dipole, moment=(1, 2, 3))
    mid = magpy.Collection(l1)
    mid._position = rng.normal(size=(Nn, 3)); mid._orientation = R.from_rotvec(rng.normal(size=(Nn, 3)))
    top = magpy.Collection(mid, l2)
    top._position = rng.normal(size=(Nn, 3)); top._orientation = R.from_rotvec(rng.normal(size=(Nn, 3)))

    tgt_name = params.get("target", "top")
    ref = top if tgt_name == "top" else mid
    members = (mid, l1, l2) if tgt_name == "top" else (l1,)

    def rel():
        out = []
        for c in members:
            out.append((ref._orientation.inv().apply(c._position - ref._position), (ref._orientation.inv() * c._orientation).as_quat()))
        return out

    before = rel()
    try:
        return _native_rel_body(rng, R, np, ref, mid, l1, l2, rel, before, opname, params, Nn, members)
    except Exception as e:  # pylint: disable=broad-except
        return f"raised {type(e).__name__}: {e}"


def _native_rel_body(rng, R, np, top, mid, l1, l2, rel, before, opname, params, Nn, members):
    pos0 = top._position.copy()
    st = params.get("start", "auto")
    nn_ = params.get("n", 1)
    if params.get("reassign"):
        # re-assign a child to the collection that already owns it (must be a no-op for the tree): a duplicated child would be moved twice
        mid.parent = mid._parent
        l1.parent = l1._parent
    if opname == "move":
        top.move(rng.normal(size=(nn_, 3)) if params.get("vector") else rng.normal(size=3), start=st)
    elif opname == "rotate":
        rot = R.from_rotvec(rng.normal(size=(nn_, 3))) if params.get("vector") else R.from_rotvec(rng.normal(size=3))
        anc = {"none": None, "zero": 0, "s": rng.normal(size=3), "v": rng.normal(size=(params.get("na", 1), 3)), "self": top.position}[params.get("anchor", "none")]
        top.rotate(rot, anchor=anc, start=st)
    elif opname == "setpos":
        top.position = rng.normal(size=(nn_, 3)) if params.get("vector") else rng.normal(size=3)
    elif opname == "setori":
        top.orientation = R.from_rotvec(rng.normal(size=(nn_, 3))) if params.get("vector") else (None if params.get("none") else R.from_rotvec(rng.normal(size=3)))
    # index map old -> new
    M = len(top._position)
    if any(len(c._position) != M or len(c._orientation) != M for c in members):
        return "path lengths of tree members differ after the operation"
    after = rel()
    if opname in ("move", "rotate"):
        anc_vec = params.get("anchor") == "v" or (params.get("anchor") == "self" and Nn > 1)  # own position of a path of length > 1 is a vector anchor
        na_ = Nn if params.get("anchor") == "self" else params.get("na", 1)
        scalar = not params.get("vector") and not anc_vec
        ln = 1 if scalar else max(nn_ if params.get("vector") else 0, na_ if anc_vec else 0)
        _, mn, newlen = PS.n_index_map(Nn, ln, scalar, st)
        jmap = [min(max(kk + mn, 0), Nn - 1) for kk in range(newlen)]
    else:
        jmap = [min(kk, Nn - 1) for kk in range(M)] if M >= Nn else [kk + Nn - M for kk in range(M)]
    if len(jmap) != M:
        return f"collection path length {M}, spec {len(jmap)}"
    for (bp, bq), (ap, aq), nm in zip(before, after, ("mid", "leaf1", "leaf2") if len(members) == 3 else ("leaf1",)):
        if not np.allclose(ap, bp[jmap], atol=1e-9):
            return f"relative position of {nm} changed"
        if not PS.same_rot(aq, bq[jmap]):
            return f"relative orientation of {nm} changed"
    return None


REPLAY = """import sys, json
from checks.c10 import native_rel
op, p = {op!r}, json.loads({p!r})
msg = native_rel(0, op, p)
print(op, p, '->', msg or 'relative poses preserved')
sys.exit(1 if msg else 0)
"""


def native_cases(tier):
    import json

    b = 3 if tier == "quick" else 4
    sts = ["auto", -4, -2, -1, 0, 1, 2, 4] if tier == "quick" else ["auto"] + list(range(-6, 7))
    for Nn in range(1, b + 1):
        for vector in (False, True):
            for nn_ in (range(1, b + 1) if vector else (1,)):
                for st in sts:
                    yield "move", dict(N=Nn, vector=vector, n=nn_, start=st)
                    for anc in ("none", "zero", "s", "v"):
                        for nan_ in ((1, 2, 3) if anc == "v" else (1,)):
                            yield "rotate", dict(N=Nn, vector=vector, n=nn_, start=st, anchor=anc, na=nan_)
                        if Nn <= 2 and nn_ <= 2:
                            yield "rotate", dict(N=Nn, vector=vector, n=nn_, start=st, anchor=anc, na=1, target="mid")
                    if not vector and st in ("auto", 0):
                        yield "rotate", dict(N=Nn, vector=False, n=1, start=st, anchor="self", na=1)
                        yield "move", dict(N=Nn, vector=False, n=1, start=st, reassign=True)
                        yield "rotate", dict(N=Nn, vector=False, n=1, start=st, anchor="zero", na=1, reassign=True)
                yield "setpos", dict(N=Nn, vector=vector, n=nn_)
                yield "setori", dict(N=Nn, vector=vector, n=nn_)
        yield "setori", dict(N=Nn, none=True)


def main(tier, seed):
    import json

    rep = Report(PID, tier, seed, "proof")
    for f in REAL_FUNCS:
        rep.function(describe(f))
    rep.assumed_contract("input_checks.check_format_input_vector (see C17); scipy Rotation group laws (from_quat∘as_quat = id, "
                         "__mul__ composition, apply action, inv)")
    rep.assume("precondition of the property: all members of the tree share the collection's path length")
    rep.assume("meta-argument: arbitrary depth/arity by induction — the recursion forwards (rotation, anchor, start, parent_path) "
               "unchanged; depth-3 tree exercises the top / inner / leaf roles of the same code objects")
    rep.assume("corollary 'field at the collection's own sensor is invariant' follows from C03/C04 contracts (relative poses only); not re-proved here")
    rep.explanation = "stage 1: same rigid transformation for every tree node (real code, symbolic lengths); stage 2: algebraic lemmas"
    from engine.par import run_parallel

    tasks = [("move", scen_move), ("setters", scen_setters), ("frame", scen_frame)]
    for rk in "sv":
        for ak in ("none", "zero", "s", "v"):
            tasks.append((f"rotate.{rk}.{ak}", lambda r, rk=rk, ak=ak: scen_rotate(r, only=(rk, ak))))
    fails = run_parallel(rep, tasks)
    fails += lemmas(rep, tier)
    # bounded stand-in + replay search: relative poses on the real library
    bad = []
    nrun = 0
    for opname, p in native_cases(tier):
        nrun += 1
        msg = native_rel(seed, opname, p)
        if msg:
            bad.append((opname, p, msg))
    rep.standin("native relative-pose check on real Collection trees (depth 3)", "N,n,na <= 3 (quick) / 4 (thorough), starts listed",
                nrun, nrun, "every (op, N, n, na, start, anchor kind) once, random float poses",
                [dict(op="rotate", N=2, vector=True, n=3, start=-4, anchor="none")], failures=len(bad), exhaustive=True)
    done = set()
    for name, r, why in [(f[0], f[1], f[2]) for f in fails]:
        key = name.split("@")[0]
        if key in done:
            continue
        done.add(key)
        if bad:
            opname, p, msg = bad[0]
            rep.violation(name, {"why": why, "native_result": msg, "op": opname, "input": p, "solver_model": r.get("model_str"),
                                 "script": REPLAY.format(op=opname, p=json.dumps(p))})
        else:
            rep.violation(name, {"why": why, "solver_output": r.get("model_str")}, found_input=False)
    if not fails:
        for opname, p, msg in bad[:3]:
            rep.violation(f"standin.relative-pose[{opname}]", {"native_result": msg, "op": opname, "input": p,
                                                               "script": REPLAY.format(op=opname, p=json.dumps(p))})
    return rep.finish()
