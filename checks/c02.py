"""C02 — B = mu0*H + J everywhere; J and M report the body's polarization.

Deductive part: every BHJM_* wrapper (real code object, re-bound over the row-generic shim,
core field functions replaced by row-wise uninterpreted contract stubs) is executed to path
exhaustion for field in B,H,J,M; for every compatible combination of paths the per-row
identities are discharged by z3 for the generic row, symbolic MU0 > 0, arbitrary batch.
Plus: magnet setters against the exported mu_0, and a constant audit.
"""
import ast
import itertools
import json
import os
from fractions import Fraction

import numpy as np
import z3

from contracts import bhjm
from contracts.bhjm import MU0, WRAPPERS, col
from engine import solve
from engine.par import run_parallel
from engine.rebind import describe
from engine.report import Report, load_known
from engine.rowgen import asreal, zlift

PID = "C02"


def _compat(*paths):
    pcs = [p for path in paths for p in path["pc"]]
    axs = [a for path in paths for a in path["ax"]]
    s = z3.Solver()
    s.set("timeout", 20000)
    s.add(*pcs, *axs)
    return s.check() != z3.unsat, pcs + axs


def _row_model(m, args):
    """concrete row from a z3 model"""
    out = {}
    for k, g in args.items():
        vals = []
        for t in g.blocks[0].flat:
            v = m.eval(t, model_completion=True)
            try:
                vals.append(float(Fraction(v.numerator_as_long(), v.denominator_as_long())))
            except Exception:  # pylint: disable=broad-except
                try:
                    vals.append(float(v.approx(20).numerator_as_long()) / float(v.approx(20).denominator_as_long()))
                except Exception:  # pylint: disable=broad-except
                    vals.append(0.0)
        out[k] = np.array(vals).reshape(g.tshape).tolist()
    return out


def wrapper_obligations(rep, name):
    """all C02 obligations of one wrapper; returns picklable failures"""
    sp = WRAPPERS[name]
    fn = describe(sp.real())
    rep.function(fn)
    fnl = fn["function"]
    fails = []
    args = sp.fresh_args()
    runs = {}
    for f in "BHJM":
        runs[f] = sp.run(f, args=args)
        bhjm.report_problems(rep, sp, f"{name}.{f}", fnl)
    rep.paths += sum(len(v) for v in runs.values())
    for f, paths in runs.items():
        for i, p in enumerate(paths):
            if "exc" in p:
                r = {"status": "refuted", "backend": "symex", "time_s": 0}
                nm = f"{name}.{f}@path{i + 1}.no-exception[{type(p['exc']).__name__}]"
                rep.obligation(nm, r, fnl, "safety")
                fails.append(dict(name=nm, wrapper=name, why=repr(p["exc"]), row=None))
    runs = {f: [p for p in v if "out" in p] for f, v in runs.items()}
    from engine.symex import Ctx

    hold = Ctx()  # collects the sqrt axioms instantiated by the sidecar geometry predicates
    Ctx.cur = hold
    regions = dict(sp.region or {})
    pol = [col(args, sp.pol, i) for i in range(3)] if sp.pol else None

    def ob(label, paths, goal, kind="post"):
        ok, assum = _compat(*paths)
        if not ok:
            return
        assum = assum + hold.axioms
        r = solve.discharge(assum, goal)
        used_region = None
        if r["status"] == "refuted" and regions:
            # known-finding mechanism: prove the obligation on the complement of the recorded region(s)
            for rid, rf in regions.items():
                reg = rf(args)
                r2 = solve.discharge(assum + hold.axioms + [z3.Not(reg)], goal)
                if r2["status"] == "discharged":
                    used_region = rid
                    r = dict(r2, backend=r2["backend"] + f"(on complement of known region {rid})")
                    break
        rep.obligation(label, r, fnl, kind, sample=solve.sample_smt2(assum[:6], goal) if label.endswith("path1,1,1]") else None)
        if used_region:
            fails.append(dict(name=label, wrapper=name, known_region=used_region, why="refuted inside the known region only", row=None))
        elif r["status"] == "refuted":
            fails.append(dict(name=label, wrapper=name, why="refuted", row=_row_model(r["model"], args) if r.get("model") is not None else None))

    for (ib, B), (ih, H), (ij, J) in itertools.product(*[list(enumerate(runs[f], 1)) for f in "BHJ"]):
        goal = z3.And(*[B["out"][c] == MU0 * H["out"][c] + J["out"][c] for c in range(3)])
        ob(f"{name}.B==MU0*H+J[path{ib},{ih},{ij}]", (B, H, J), goal)
    for (ij, J), (im, M) in itertools.product(enumerate(runs["J"], 1), enumerate(runs["M"], 1)):
        ob(f"{name}.J==MU0*M[path{ij},{im}]", (J, M), z3.And(*[J["out"][c] == MU0 * M["out"][c] for c in range(3)]))
    for ij, J in enumerate(runs["J"], 1):
        if sp.kind == "magnet":
            if name != "CylinderSegment":
                ob(f"{name}.J-in-(0,polarization)[path{ij}]", (J,),
                   z3.Or(z3.And(*[J["out"][c] == pol[c] for c in range(3)]), z3.And(*[J["out"][c] == 0 for c in range(3)])))
            if sp.inside:
                ob(f"{name}.strictly-inside=>J==polarization[path{ij}]", (J,),
                   z3.Implies(sp.inside(args), z3.And(*[J["out"][c] == pol[c] for c in range(3)])))
            if sp.outside:
                ob(f"{name}.strictly-outside=>J==0[path{ij}]", (J,),
                   z3.Implies(sp.outside(args), z3.And(*[J["out"][c] == 0 for c in range(3)])))
        else:
            ob(f"{name}.J==0-identically[path{ij}]", (J,), z3.And(*[J["out"][c] == 0 for c in range(3)]))
    if sp.inside:  # cover: the interior predicate is satisfiable together with the precondition (vacuity guard)
        s = z3.Solver()
        s.add(*sp.pre(args), sp.inside(args))
        if s.check() != z3.sat:
            raise RuntimeError(f"vacuous interior predicate for {name}")
    # canary: a deliberately false postcondition must be refuted on at least one compatible path pair
    refuted = False
    for B0, H0 in itertools.product(runs["B"], runs["H"]):
        ok, assum = _compat(B0, H0)
        if not ok:
            continue
        r = solve.discharge(assum, z3.And(*[B0["out"][c] == 2 * MU0 * H0["out"][c] for c in range(3)]))
        if r["status"] != "discharged":
            refuted = True
            break
    if not refuted:
        raise RuntimeError(f"canary proved for {name}: contract vacuous")
    return fails


# ------------------------------------------------------------------------------------------------
def setter_obligations(rep):
    """magnet.magnetization / .polarization setters: J = mu_0 * M with the single exported constant"""
    import magpylib
    import magpylib._src.obj_classes.class_BaseExcitations as BE
    from engine.rebind import rebind, rebind_class

    fails = []
    mu0 = Fraction(magpylib.mu_0)
    mvec = [z3.Real(f"v{i}") for i in range(3)]

    class V3:
        def __init__(self, t):
            self.t = list(t)

        def __mul__(self, c):
            return V3([x * zlift(c) for x in self.t])

        def __truediv__(self, c):
            return V3([x / zlift(c) for x in self.t])

    class NPx:
        pi = float(np.pi)

        class linalg:
            @staticmethod
            def norm(v):
                return 1e9  # the low-magnetization warning is not part of the property

    for which in ("magnetization", "polarization"):
        rep.function(describe(getattr(BE.BaseMagnet, which)))
        ns = rebind(BE, dict(np=NPx, check_format_input_vector=lambda inp, **k: inp))
        C = rebind_class(BE.BaseMagnet, ns, names={which})
        o = object.__new__(C)
        setattr(o, which, V3(mvec))
        J, M = o._polarization, o._magnetization
        goal = z3.And(*[j == zlift(mu0) * m for j, m in zip(J.t, M.t)])
        r = solve.discharge([], goal)
        nm = f"BaseMagnet.{which}.fset:polarization==mu_0*magnetization(exported constant)"
        if r["status"] == "refuted":
            # proportionality with ONE constant is still proved; only the value of the constant is the (known) finding
            c = z3.Real("c")
            r1 = solve.discharge([c == zlift(4 * float(np.pi) * 1e-7)], z3.And(*[j == c * m for j, m in zip(J.t, M.t)]))
            rep.obligation(f"BaseMagnet.{which}.fset:polarization==c*magnetization(c=4*pi*1e-7)", r1,
                           describe(getattr(BE.BaseMagnet, which))["function"], "post")
            if r1["status"] != "discharged":
                fails.append(dict(name=nm + "[constant is not the recorded 4*pi*1e-7]", wrapper="setter:" + which,
                                  why="setter constant differs from both magpylib.mu_0 and the recorded known value", row=None))
                rep.obligation(nm, r, describe(getattr(BE.BaseMagnet, which))["function"], "post")
                continue
            r = dict(r, status="known-finding")
        rep.obligation(nm, r, describe(getattr(BE.BaseMagnet, which))["function"], "post")
        if r["status"] == "known-finding":
            fails.append(dict(name=nm, wrapper="setter:" + which, why="setter constant differs from magpylib.mu_0", row=None,
                              known_region="mu0-setter-constant"))
    return fails


def constant_audit(rep):
    """every field module binds MU0 to the exported magpylib.mu_0; physical-constant literals are enumerated from the AST"""
    import magpylib

    fails = []
    root = os.path.dirname(magpylib.__file__)
    mods = ["cuboid", "cylinder", "cylinder_segment", "sphere", "tetrahedron", "triangle", "triangularmesh", "circle", "polyline", "dipole"]
    import importlib

    for m in mods:
        mod = importlib.import_module("magpylib._src.fields.field_BH_" + m)
        ok = getattr(mod, "MU0", None) is not None and mod.MU0 == magpylib.mu_0
        r = {"status": "discharged" if ok else "refuted", "backend": "exact-comparison", "time_s": 0}
        nm = f"audit.field_BH_{m}.MU0-is-exported-mu_0"
        rep.obligation(nm, r, f"magpylib._src.fields.field_BH_{m} (module binding)", "audit")
        if not ok:
            fails.append(dict(name=nm, wrapper="audit", why=f"module MU0={getattr(mod, 'MU0', None)!r} != magpylib.mu_0", row=None))
    # literal scan
    targets = {"mu0": magpylib.mu_0, "1/mu0": 1 / magpylib.mu_0, "4pi": 4 * np.pi, "1/4pi": 1 / (4 * np.pi)}
    justified = json.load(open(os.path.join(os.path.dirname(__file__), "..", "contracts", "constants_justified.json"), encoding="utf8"))
    found = []

    def fold(node):
        if isinstance(node, ast.Constant) and isinstance(node.value, (int, float)) and not isinstance(node.value, bool):
            return float(node.value)
        if isinstance(node, ast.Attribute) and isinstance(node.value, ast.Name) and node.value.id == "np" and node.attr == "pi":
            return float(np.pi)
        if isinstance(node, ast.BinOp) and isinstance(node.op, (ast.Mult, ast.Div)):
            l, r_ = fold(node.left), fold(node.right)
            if l is None or r_ is None:
                return None
            try:
                return l * r_ if isinstance(node.op, ast.Mult) else l / r_
            except ZeroDivisionError:
                return None
        return None

    files = [os.path.join(root, "_src", "fields", f) for f in sorted(os.listdir(os.path.join(root, "_src", "fields"))) if f.endswith(".py")]
    files.append(os.path.join(root, "_src", "obj_classes", "class_BaseExcitations.py"))
    for path in files:
        tree = ast.parse(open(path, encoding="utf8").read())
        parents = {}
        for node in ast.walk(tree):
            for ch in ast.iter_child_nodes(node):
                parents[ch] = node
        for node in ast.walk(tree):
            v = fold(node)
            if v is None or v == 0:
                continue
            par = parents.get(node)
            if par is not None and fold(par) is not None:
                continue  # only maximal constant expressions
            for tn, tv in targets.items():
                if tn in ("4pi", "1/4pi"):
                    continue
                if abs(v / tv - 1) < 1e-3:
                    found.append((os.path.relpath(path, root), tn, v))
    for rel, tn, v in found:
        key = f"{rel}:{tn}"
        ok = key in justified
        exact = v == targets[tn]
        status = "discharged" if (ok or exact) else "refuted"
        r = {"status": status, "backend": "ast-enumeration", "time_s": 0}
        nm = f"audit.literal[{key}={v!r}].{'equals-exported-constant' if exact else 'justified-in-sidecar'}"
        rep.obligation(nm, r, "magpylib/_src (literal scan)", "audit")
        if status == "refuted":
            fails.append(dict(name=nm, wrapper="audit", why="unjustified literal near mu_0 / 1/mu_0", row=None))
    rep.notes.append(f"constant audit: literals near mu_0 or 1/mu_0: {found}")
    return fails


# ------------------------------------------------------------------------------------------------
# native evaluation on the real library (replay + bounded stand-in)
def native_eval(name, rows):
    """rows: dict arg -> array (n, ...). returns dict field -> (n,3)"""
    sp = WRAPPERS[name]
    f = sp.real()
    out = {}
    for fld in "BHJM":
        a = {k: np.array(v, dtype=float).copy() for k, v in rows.items()}
        with np.errstate(all="ignore"):
            out[fld] = f(fld, **a, **sp.extra_kwargs)
    return out


def n_cyl_edge(obs, dim):
    r = np.sqrt(obs[:, 0] ** 2 + obs[:, 1] ** 2)
    r0, z0 = dim[:, 0] / 2, dim[:, 1] / 2
    return (np.abs(r / r0 - 1) <= 1e-15) & (np.abs(np.abs(obs[:, 2] / r0) - z0 / r0) <= 1e-15 * np.abs(z0 / r0))


def n_seg_surface(obs, dim):
    x, y, z = obs.T
    r1, r2, h, p1, p2 = np.abs(dim[:, 0]), np.abs(dim[:, 1]), np.abs(dim[:, 2]), dim[:, 3] / 180 * np.pi, dim[:, 4] / 180 * np.pi
    z1, z2 = -h / 2, h / 2
    r, phi = np.sqrt(x**2 + y**2), np.arctan2(y, x)
    o1, o2 = phi, phi - np.sign(phi) * 2 * np.pi
    close = lambda a, b: np.abs(a - b) <= 1e-12 + 1e-12 * np.abs(b)
    r_in = (r1 - 1e-14 < r) & (r < r2 + 1e-14)
    phi_in = (np.sign(o1 - p1) != np.sign(o1 - p2)) | (np.sign(o2 - p1) != np.sign(o2 - p2))
    z_in = (z1 - 1e-14 < z) & (z < z2 + 1e-14)
    return ((close(z, z1) | close(z, z2)) & phi_in & r_in) | ((close(r, r1) | close(r, r2)) & phi_in & z_in) | \
        ((close(o1, p1) | close(o2, p1) | close(o1, p2) | close(o2, p2)) & r_in & z_in)


def n_known_region(name, rows):
    obs = np.array(rows["observers"], dtype=float)
    n = len(obs)
    if name == "Cylinder":
        return n_cyl_edge(obs, np.array(rows["dimension"], dtype=float))
    if name.startswith("CylinderSegment"):
        dim = np.array(rows["dimension"], dtype=float)
        full = dim[:, 4] - dim[:, 3] >= 360
        out = n_seg_surface(obs, dim) & ~full
        if name == "CylinderSegment":
            out |= full & n_cyl_edge(obs, np.c_[2 * dim[:, 1], dim[:, 2]])
            out |= full & (dim[:, 0] != 0) & n_cyl_edge(obs, np.c_[2 * dim[:, 0], dim[:, 2]])
        return out
    return np.zeros(n, dtype=bool)


def native_check(name, rows, skip_known=True):
    """returns list of (row index, message) where the C02 identities fail natively"""
    import magpylib

    sp = WRAPPERS[name]
    out = native_eval(name, rows)
    B, H, J, M = (out[f] for f in "BHJM")
    mu0 = magpylib.mu_0
    scale = np.maximum(np.abs(B).max(axis=1), np.abs(J).max(axis=1)) + 1e-300
    bad = []
    known = n_known_region(name, rows) if skip_known else np.zeros(len(B), dtype=bool)
    e1 = np.abs(B - (mu0 * H + J)).max(axis=1) / scale
    e2 = np.abs(J - mu0 * M).max(axis=1) / (np.abs(J).max(axis=1) + 1e-300)
    for i in range(len(B)):
        if known[i]:
            continue
        if not np.all(np.isfinite(B[i])) or not np.all(np.isfinite(H[i])):
            continue  # finiteness is C15's concern
        if e1[i] > 1e-9:
            bad.append((i, f"B != mu0*H + J: B={B[i].tolist()} H={H[i].tolist()} J={J[i].tolist()}"))
        elif e2[i] > 1e-12:
            bad.append((i, f"J != mu0*M: J={J[i].tolist()} M={M[i].tolist()}"))
        elif sp.kind != "magnet" and np.any(J[i] != 0):
            bad.append((i, f"J != 0 for a non-magnet source: {J[i].tolist()}"))
        elif sp.kind == "magnet" and name != "CylinderSegment" and sp.pol:
            p = np.array(rows[sp.pol], dtype=float)[i]
            if not (np.allclose(J[i], p, rtol=1e-12, atol=0) or np.all(J[i] == 0)):
                bad.append((i, f"J not in (0, polarization): {J[i].tolist()} pol={p.tolist()}"))
    return bad


def _ulp_jitter(rng, x):
    """x, or one of its floating-point neighbours (the property includes points on surfaces; masks must agree also one ulp off)"""
    k = rng.integers(-1, 2, size=np.shape(x))
    return np.where(k < 0, np.nextafter(x, -np.inf), np.where(k > 0, np.nextafter(x, np.inf), x))


def gen_rows(name, rng, n):
    """random + special rows (faces / edges / interior / exterior, exactly and one ulp off) for a wrapper"""
    sp = WRAPPERS[name]
    rows = {}
    for k, sh in sp.args.items():
        rows[k] = rng.normal(size=(n,) + sh)
    if name == "Cuboid":
        rows["dimension"] = np.abs(rows["dimension"]) + 0.1
        d = rows["dimension"] / 2
        sel = rng.integers(0, 4, size=(n, 3))
        rows["dimension"][: n // 4] = np.round(rows["dimension"][: n // 4] * 4) / 4 + 0.25  # "nice" sizes (3, 3.5, ...)
        d = rows["dimension"] / 2
        rows["observers"] = np.where(sel == 0, _ulp_jitter(rng, d), np.where(sel == 1, -_ulp_jitter(rng, d), rows["observers"] * d))
    elif name == "Cylinder":
        rows["dimension"] = np.abs(rows["dimension"]) + 0.1
        r0, z0 = rows["dimension"][:, 0] / 2, rows["dimension"][:, 1] / 2
        ang = rng.uniform(0, 2 * np.pi, n)
        rows["dimension"][: n // 3] = np.round(rows["dimension"][: n // 3] * 4) / 4 + 0.25  # sizes like (3, 3.5): z0/r0 not exactly representable
        r0, z0 = rows["dimension"][:, 0] / 2, rows["dimension"][:, 1] / 2
        ang = np.where(rng.integers(0, 2, n) == 0, 0.0, ang)
        rr = np.where(rng.integers(0, 3, n) == 0, _ulp_jitter(rng, r0), np.abs(rng.normal(size=n)) * r0)
        zz = np.where(rng.integers(0, 3, n) == 0, _ulp_jitter(rng, z0) * rng.choice([-1, 1], n), rng.normal(size=n) * z0)
        rows["observers"] = np.c_[rr * np.cos(ang), rr * np.sin(ang), zz]
    elif name == "Sphere":
        rows["diameter"] = np.abs(rows["diameter"]) + 0.1
        rows["diameter"][: n // 3] = np.round(rows["diameter"][: n // 3] * 4) / 4 + 0.25
        on = rng.integers(0, 3, n) == 0  # exactly on the surface (and one ulp off), along a coordinate axis so that r is exact
        ax = rng.integers(0, 3, n)
        surf = np.zeros((n, 3))
        surf[np.arange(n), ax] = _ulp_jitter(rng, rows["diameter"] / 2) * rng.choice([-1, 1], n)
        rows["observers"][on] = surf[on]
    elif name.startswith("CylinderSegment"):
        r1 = np.abs(rng.normal(size=n)) * (rng.integers(0, 3, n) > 0)
        r2 = r1 + np.abs(rng.normal(size=n)) + 0.1
        h = np.abs(rng.normal(size=n)) + 0.1
        p1 = rng.uniform(-360, 300, n)
        span = rng.uniform(1, 359, n)
        if name == "CylinderSegment":
            span = np.where(rng.integers(0, 3, n) == 0, 360.0, span)
        rows["dimension"] = np.c_[r1, r2, h, p1, p1 + span]
        ang = np.deg2rad(p1 + rng.uniform(-0.2, 1.2, n) * span)
        rr = np.where(rng.integers(0, 4, n) == 0, r2, r1 + rng.uniform(-0.3, 1.3, n) * (r2 - r1))
        zz = np.where(rng.integers(0, 4, n) == 0, h / 2, rng.uniform(-0.8, 0.8, n) * h)
        rows["observers"] = np.c_[rr * np.cos(ang), rr * np.sin(ang), zz]
    elif name == "Tetrahedron":
        w = rng.dirichlet(np.ones(4), n) * np.where(rng.integers(0, 2, n) == 0, 1.0, 3.0)[:, None]
        rows["observers"] = np.einsum("nk,nkc->nc", w, rows["vertices"])
    elif name == "Circle":
        rows["diameter"] = np.abs(rows["diameter"]) + 0.1
        z0 = rng.integers(0, 4, n) == 0
        rows["observers"][z0, :2] = 0
    elif name == "Polyline":
        eq = rng.integers(0, 5, n) == 0
        rows["segment_end"][eq] = rows["segment_start"][eq]
    return {k: v.tolist() for k, v in rows.items()}


REPLAY = """import sys, json
from checks.c02 import native_check
name, rows = {name!r}, json.loads({rows!r})
bad = native_check(name, rows, skip_known={skip})
for i, msg in bad: print('row', i, msg)
print(name, 'rows checked:', len(rows['observers']), 'violating:', len(bad))
sys.exit(1 if bad else 0)
"""

def native_trimesh_body(seed):
    """TriangularMesh: J = polarization at points strictly inside the body, 0 strictly outside, B = mu0*H + J — for bodies from 1 m down to 0.2 mm
    (the inside test must not depend on the size of the numbers), with and without a pose; returns (evaluations, messages)"""
    import warnings

    import magpylib as magpy
    from scipy.spatial.transform import Rotation as R

    warnings.simplefilter("ignore")
    rng = np.random.default_rng(seed)
    mu0 = magpy.mu_0
    pol = np.array((0.1, 0.2, 0.3))
    bad, n = [], 0
    octa = np.array([(1, 0, 0), (-1, 0, 0), (0, 1, 0), (0, -1, 0), (0, 0, 1), (0, 0, -1)], dtype=float)
    cube = np.array([(x, y, z) for x in (-1, 1) for y in (-1, 1) for z in (-1, 1)], dtype=float)
    for size, (shape, pts, inside_fn), posed in itertools.product((1.0, 1e-3, 3e-4, 2e-4), (("cube", cube, lambda p: np.abs(p).max(axis=1)), ("octahedron", octa, lambda p: np.abs(p).sum(axis=1))), (False, True)):
        pos = rng.normal(size=3) * size if posed else np.zeros(3)
        ori = R.from_rotvec(rng.normal(size=3)) if posed else R.identity()
        try:
            m = magpy.magnet.TriangularMesh.from_ConvexHull(points=pts * size, polarization=pol, position=pos, orientation=ori)
            loc = rng.uniform(-1.6, 1.6, size=(60, 3))
            lvl = inside_fn(loc)
            keep = (lvl < 0.95) | (lvl > 1.05)
            loc, lvl = loc[keep], lvl[keep]
            obs = ori.apply(loc * size) + pos
            B, H, J = m.getB(obs), m.getH(obs), m.getJ(obs)
        except Exception as e:  # pylint: disable=broad-except
            bad.append(f"{shape} of size {size:g}: raised {type(e).__name__}: {e}")
            continue
        n += len(obs)
        Jexp = np.where((lvl < 1)[:, None], ori.apply(pol), 0.0)
        wrongJ = np.abs(J - Jexp).max(axis=1) > 1e-12
        wrongI = np.abs(B - mu0 * H - J).max(axis=1) > 1e-9 * (np.abs(B).max() + 1e-300)
        if wrongJ.any():
            i = int(np.argmax(wrongJ))
            bad.append(f"{shape} of size {size:g} m{' (moved and rotated)' if posed else ''}: J at a point strictly {'inside' if lvl[i] < 1 else 'outside'} the body is {J[i].tolist()} "
                       f"({int(wrongJ.sum())} of {len(obs)} points)")
        elif wrongI.any():
            bad.append(f"{shape} of size {size:g} m: B != mu0*H + J at {int(wrongI.sum())} of {len(obs)} points")
    return n, bad


REPLAY_TMB = """import sys
from checks.c02 import native_trimesh_body
n, bad = native_trimesh_body({seed})
for b in bad[:6]: print(b)
sys.exit(1 if bad else 0)
"""


def native_tetrahedron_body(seed):
    """Tetrahedron: J = polarization at points strictly inside the body, 0 strictly outside (zero-volume bodies have no interior), decided by an
    independent oracle in exact rational arithmetic (barycentric coordinates by Cramer's rule over Fractions of the float inputs); both vertex
    orders (right- and left-handed), sizes from 1 m to 0.1 mm, several tetrahedra in one functional call; returns (evaluations, messages)"""
    import warnings
    from fractions import Fraction as Fr

    import magpylib as magpy

    warnings.simplefilter("ignore")
    rng = np.random.default_rng(seed)
    pol = (0.1, 0.2, 0.3)

    def det3(a, b, c):
        return a[0] * (b[1] * c[2] - b[2] * c[1]) - a[1] * (b[0] * c[2] - b[2] * c[0]) + a[2] * (b[0] * c[1] - b[1] * c[0])

    def bary(v, p):
        v = [[Fr(float(x)) for x in q] for q in v]
        p = [Fr(float(x)) for x in p]
        e = [[v[k][i] - v[0][i] for i in range(3)] for k in (1, 2, 3)]
        d = [p[i] - v[0][i] for i in range(3)]
        D = det3(*e)
        if D == 0:
            return None
        lam = [det3(d, e[1], e[2]) / D, det3(e[0], d, e[2]) / D, det3(e[0], e[1], d) / D]
        return [1 - sum(lam)] + lam

    bad, n = [], 0
    cases = []
    for size in (1.0, 1e-2, 1e-4):
        for _ in range(6):
            v = rng.normal(size=(4, 3)) * size
            cases.append((v, size))
            cases.append((v[[0, 1, 3, 2]], size))
    cases += [(np.array([(0, 0, 0), (1, 0, 0), (0, 1, 0), (1, 1, 0)], dtype=float), 1.0), (np.zeros((4, 3)), 1.0),
              (np.array([(0, 0, 0), (1, 0, 0), (2, 0, 0), (0, 0, 1)], dtype=float), 1.0)]
    allv, allo, alle = [], [], []
    for v, size in cases:
        w = rng.dirichlet(np.ones(4), size=12)
        cand = np.concatenate([w @ v, v.mean(axis=0) + rng.normal(size=(12, 3)) * size * 0.8, v.mean(axis=0) + rng.normal(size=(4, 3)) * size * 5])
        obs, exp = [], []
        for p_ in cand:
            lam = bary(v, p_)
            if lam is None:
                obs.append(p_), exp.append(0)
                continue
            m = min(min(lam), min(1 - x for x in lam))
            if abs(float(m)) < 1e-6:
                continue  # too close to the surface for a float decision
            obs.append(p_), exp.append(1 if m > 0 else 0)
        obs, exp = np.array(obs), np.array(exp)
        try:
            J = magpy.magnet.Tetrahedron(vertices=v, polarization=pol).getJ(obs)
        except Exception as e:  # pylint: disable=broad-except
            bad.append(f"Tetrahedron(vertices={v.tolist()}).getJ raised {type(e).__name__}: {e}")
            continue
        n += len(obs)
        wrong = np.abs(J - exp[:, None] * np.array(pol)).max(axis=1) > 1e-12
        if wrong.any():
            i = int(np.argmax(wrong))
            bad.append(f"Tetrahedron(vertices={v.tolist()}): J at {obs[i].tolist()}, a point strictly {'inside' if exp[i] else 'outside'} the body (exact barycentric coordinates"
                       f"{'' if bary(v, obs[i]) is None else ' ' + str([round(float(x), 6) for x in bary(v, obs[i])])}), is {J[i].tolist()} ({int(wrong.sum())} of {len(obs)} points)")
        allv += [v] * len(obs)
        allo += list(obs)
        alle += list(exp)
    # all tetrahedra in one functional call: every row decided against its own vertices
    try:
        J = magpy.getJ("Tetrahedron", np.array(allo), vertices=np.array(allv), polarization=np.tile(pol, (len(allo), 1)))
        n += len(allo)
        wrong = np.abs(J - np.array(alle)[:, None] * np.array(pol)).max(axis=1) > 1e-12
        if wrong.any():
            i = int(np.argmax(wrong))
            bad.append(f"getJ('Tetrahedron', ...) with {len(cases)} different bodies in one call: row {i} (vertices {allv[i].tolist()}, observer {allo[i].tolist()}, strictly "
                       f"{'inside' if alle[i] else 'outside'}) has J = {J[i].tolist()} ({int(wrong.sum())} rows)")
    except Exception as e:  # pylint: disable=broad-except
        bad.append(f"getJ('Tetrahedron', ...) with several bodies in one call raised {type(e).__name__}: {e}")
    return n, bad


REPLAY_PI = """import sys, json
import numpy as np
from fractions import Fraction as Fr
from magpylib._src.fields.field_BH_tetrahedron import point_inside
w = json.loads('{w}')
v, x = np.array([w["vertices"]], dtype=float), np.array([w["point"]], dtype=float)
def det3(a, b, c):
    return a[0] * (b[1] * c[2] - b[2] * c[1]) - a[1] * (b[0] * c[2] - b[2] * c[0]) + a[2] * (b[0] * c[1] - b[1] * c[0])
V = [[Fr(float(t)) for t in q] for q in v[0]]; X = [Fr(float(t)) for t in x[0]]
e = [[V[k][i] - V[0][i] for i in range(3)] for k in (1, 2, 3)]; d = [X[i] - V[0][i] for i in range(3)]
D = det3(*e)
if D == 0:
    exp = False
else:
    lam = [det3(d, e[1], e[2]) / D, det3(e[0], d, e[2]) / D, det3(e[0], e[1], d) / D]
    exp = all(0 < t < 1 for t in lam) and sum(lam) < 1
try:
    got = bool(point_inside(x, v, "auto")[0])
except Exception as ex:
    print("point_inside raised", type(ex).__name__, ex); sys.exit(1)
print("point_inside:", got, " exact barycentric oracle (strictly inside):", exp)
sys.exit(0 if got == exp else 1)
"""

REPLAY_TEB = """import sys
from checks.c02 import native_tetrahedron_body
n, bad = native_tetrahedron_body({seed})
for b in bad[:6]: print(b)
sys.exit(1 if bad else 0)
"""


def native_segment_interior(dim, point):
    """J at an interior point of a partial-angle segment (witness of the known finding segment-angles-beyond-360)"""
    import magpylib as magpy

    s_ = magpy.magnet.CylinderSegment(dimension=dim, polarization=(0.1, 0.2, 0.3))
    return np.allclose(s_.getJ(point), (0.1, 0.2, 0.3))


KNOWN_WITNESS = {
    "cylinder-edge": ("Cylinder", dict(observers=[[1.0, 0.0, 1.0]], dimension=[[2.0, 2.0]], polarization=[[0.3, 0.2, 1.0]])),
    "segment-surface": ("CylinderSegment(partial angle)",
                        dict(observers=[[1.5 * np.cos(0.3), 1.5 * np.sin(0.3), 1.0], [5.0, 5.0, 5.0]],
                             dimension=[[1.0, 2.0, 2.0, 0.0, 90.0]] * 2, polarization=[[0.3, 0.2, 1.0]] * 2)),
    "segment-dispatch(callee regions)": ("CylinderSegment",
                                         dict(observers=[[1.0, 0.0, 1.0], [5.0, 5.0, 5.0]], dimension=[[0.0, 1.0, 2.0, 0.0, 360.0]] * 2,
                                              polarization=[[0.3, 0.2, 1.0]] * 2)),
}


def main(tier, seed):
    rep = Report(PID, tier, seed, "proof")
    from engine import crosscheck

    crosscheck.attach(rep, seed)
    rep.assumed_contract("core field functions (magnet_cuboid_Bfield, magnet_cylinder_{axial_B,diametral_H}field, "
                         "magnet_cylinder_segment_Hfield, triangle_Bfield, dipole_Hfield, current_circle_Hfield, "
                         "current_polyline_Hfield) are row-wise functions of their row arguments (C06 obligation); their values are arbitrary")
    rep.assumed_contract("tetrahedron.point_inside: symmetric under exchange of vertices 2,3 — PROVED here on the real code (rational normal form), row-wise proved in C06; "
                         "and its full contract (inside <=> volume != 0 and barycentric coordinates by Cramer's rule in the simplex) PROVED here on the real code; "
                         "check_chirality: returns the vertices with 2,3 exchanged exactly on negative-determinant rows — PROVED here on the real code "
                         "(checks/c06_cores.py chirality_contract), so the Tetrahedron wrapper's stub is a checked contract")
    rep.assumed_contract("BHJM_cylinder_segment_internal is verified modularly: its callees BHJM_cylinder_segment and "
                         "BHJM_magnet_cylinder enter by their own (proved here) postconditions")
    rep.assume("TriangularMesh wrapper (BHJM_magnet_trimesh) is covered by C06's loop obligations and the stand-in, not by this check's proof part")
    rep.assume("rotation of J into the observer frame is getBH_level1's covariance (C03)")
    rep.axiom("sqrt(x) >= 0 and sqrt(x)^2 = x for x >= 0 (instantiated at each use)")
    rep.explanation = "row-generic symbolic execution of each wrapper for B,H,J,M; identities discharged for the generic row"
    names = list(WRAPPERS)
    tasks = [(nm, (lambda r, nm=nm: wrapper_obligations(r, nm))) for nm in names]
    tasks += [("setters", setter_obligations), ("audit", constant_audit)]
    from checks import c06_cores

    tasks.append(("core.check_chirality.contract", lambda r: c06_cores.chirality_contract(r)))
    tasks.append(("core.point_inside.symmetry", lambda r: c06_cores.point_inside_symmetry(r)))
    tasks.append(("core.point_inside.contract", lambda r: c06_cores.point_inside_contract(r)))
    fails = run_parallel(rep, tasks)
    known = {k["id"]: k for k in load_known() if k["property"] == PID and k.get("status") == "known"}
    # known findings: proved on the complement; witness must still fail natively
    regions_hit = sorted({f["known_region"] for f in fails if f.get("known_region")})
    for rid in regions_hit:
        if rid not in known:
            f0 = next(f for f in fails if f.get("known_region") == rid)
            rep.violation(f0["name"], {"why": "refuted (region not listed in known_findings.json)", "region": rid}, found_input=False)
            continue
        if rid == "segment-angles-beyond-360":
            if native_segment_interior((1, 2, 1, 350, 380), (1.5 * np.cos(np.deg2rad(5)), 1.5 * np.sin(np.deg2rad(5)), 0.1)):
                rep.notes.append(f"known finding {rid}: witness no longer fails natively")
        if rid in KNOWN_WITNESS:
            nm, rows = KNOWN_WITNESS[rid]
            bad = native_check(nm, rows, skip_known=False)
            if not bad:
                rep.notes.append(f"known finding {rid}: witness no longer fails natively")
        rep.known_finding(known[rid])
    rng = np.random.default_rng(seed + 1)
    for f in fails:
        if f.get("known_region"):
            continue
        if f.get("witness"):
            rep.violation(f["name"], {"why": f["why"], "input": f["witness"], "script": REPLAY_PI.format(w=json.dumps(f["witness"]))})
            continue
        nm = f["wrapper"]
        payload = {"why": f["why"], "wrapper": nm}
        found = None
        if nm in WRAPPERS:
            cands = []
            if f.get("row"):
                cands.append({k: [v] for k, v in f["row"].items()})
            cands.append(gen_rows(nm, rng, 400))
            for rows in cands:
                try:
                    bad = native_check(nm, rows)
                except Exception as e:  # pylint: disable=broad-except
                    bad = [(0, f"raised {type(e).__name__}: {e}")]
                if bad:
                    i = bad[0][0]
                    one = {k: [v[i]] for k, v in rows.items()}
                    found = (one, bad[0][1])
                    break
        if found:
            payload.update(input=found[0], native_result=found[1],
                           script=REPLAY.format(name=nm, rows=json.dumps(found[0]), skip="True"))
            rep.violation(f["name"], payload)
        else:
            payload["solver_output"] = json.dumps(f.get("row"))
            rep.violation(f["name"], payload, found_input=False)
    # bounded stand-in: native identities on random + special rows
    nrows = 300 if tier == "quick" else 5000
    total = nbad = 0
    samples = []
    for nm in names:
        rows = gen_rows(nm, rng, nrows)
        bad = native_check(nm, rows)
        total += nrows
        nbad += len(bad)
        if not samples:
            samples.append({nm: {k: v[0] for k, v in rows.items()}})
        if bad and not rep.violations:
            i = bad[0][0]
            one = {k: [v[i]] for k, v in rows.items()}
            rep.violation(f"standin.{nm}.identities", {"native_result": bad[0][1], "input": one,
                                                       "script": REPLAY.format(name=nm, rows=json.dumps(one), skip="True")})
    from checks.c06 import REPLAY_TM, native_trimesh

    bad_tm = native_trimesh(seed)
    rep.standin("TriangularMesh in multi-source calls: B, H, J, M of each mesh equal the mesh alone (J = polarization exactly inside ITS OWN body)",
                "4 adversarial mesh families x all ordered pairs/triples x {6 observers, 1 observer}", 4 * 12 * 2 * 4, 4 * 12 * 2,
                "concentric cubes, shared-facet tetrahedra, shared-base pyramids, mixed facet counts", [dict(family="concentric cubes", order=[0, 1])], failures=len(bad_tm), exhaustive=True)
    if bad_tm and not rep.violations:
        rep.violation("standin.trimesh-J-inside-own-body", {"native_result": bad_tm[0], "script": REPLAY_TM.format(seed=seed)})
    ntb, bad_tb = native_trimesh_body(seed)
    rep.standin("TriangularMesh: J = polarization strictly inside / 0 strictly outside and B = mu0*H + J, bodies from 1 m down to 0.2 mm, with and without a pose",
                "2 shapes x 4 sizes x {identity, random pose} x ~45 points", ntb, ntb, "random points at least 5 % of the size away from the surface", [dict(shape="octahedron", size=3e-4)],
                failures=len(bad_tb), exhaustive=False)
    for b in bad_tb[:2]:
        rep.violation("standin.trimesh-body", {"native_result": b, "script": REPLAY_TMB.format(seed=seed)})
    nte, bad_te = native_tetrahedron_body(seed)
    rep.standin("Tetrahedron: J = polarization strictly inside / 0 strictly outside against an exact rational barycentric oracle; right- and left-handed vertex orders, zero-volume bodies, "
                "sizes 1 m .. 0.1 mm, object interface and many bodies in one functional call", "39 bodies x ~25 points, twice", nte, nte,
                "random convex combinations, near and far points, at least 1e-6 (barycentric) away from the surface", [dict(vertices="random normal * 1e-4, vertices 2 and 3 exchanged")],
                failures=len(bad_te), exhaustive=False)
    for b in bad_te[:2]:
        rep.violation("standin.tetrahedron-body", {"native_result": b, "script": REPLAY_TEB.format(seed=seed)})
    rep.standin("native B=mu0*H+J / J=mu0*M / J in {0,pol} on random and special rows (faces, edges, axis), all wrappers",
                f"{nrows} rows per wrapper", total, total, "random rows incl. rows placed on faces/edges; known regions skipped",
                samples, failures=nbad)
    return rep.finish()
