"""C11 — the collection tree stays a consistent forest under any history.

Heap-shape invariants over Python lists with reachability are outside the VC generator (no separation-style verifier is
installed); the invariant itself is therefore carried by a labelled BOUNDED stand-in.  What is proved:

P (transaction obligations, generated from the AST of the real methods on every run).  With sidecar effect contracts of the
  callees (pure / writes / may-raise, contracts/tree_effects below) every tree-editing method is abstractly interpreted:
  a write that breaks the forest invariant OPENS a transaction (a child detached or attached on one side only: `x._parent = ...`,
  `self._children = ...` / `+=`), the statement that re-establishes the derived views CLOSES it (`self._update_src_and_sens()`,
  or, for remove, the `child._parent = None` that completes `rec_obj_remover`).  Obligation: **no statement that may raise is
  reachable while a transaction is open** (loops are iterated to a fixpoint, so a raise in a later iteration after a write in an
  earlier one is found).  Then every exit — returning or raising — happens in a state where all parent/children/view writes
  made so far form complete transactions, which is what "the forest is consistent also after calls that raise" needs.
  `obj._parent.remove(obj)` is may-raise by signature; it cannot raise when obj is listed by its parent — the forest invariant
  itself, recorded as an explicit assumption of that obligation.
SI (bounded): well_formed(forest) evaluated as a run-time invariant after EVERY operation (raising or not) over all histories
  of bounded length on a small universe of sources, sensors and collections, all flag combinations, state-hash pruning.
"""
import ast
import inspect
import itertools
import json
import textwrap

import numpy as np

from engine.rebind import describe
from engine.report import Report

PID = "C11"
TREE_ATTRS = ("_parent", "_children", "_sources", "_sensors", "_collections")

# ---- sidecar effect contracts ------------------------------------------------------------------------------------------------
# deepcopy walks user-extensible state (objects accept arbitrary attributes, styles hold user data): it may raise (e.g. an attribute that cannot be
# pickled), and like every call it can be interrupted
MAY_RAISE_CALLS = {"check_format_input_obj", "format_obj_input", "add", "remove", "MagpylibBadUserInput", "deepcopy"}
PURE_NO_RAISE = {"isinstance", "len", "getattr", "id", "list", "tuple", "any", "all", "enumerate", "zip", "repr", "type", "super",
                 "add_iteration_suffix", "append", "extend", "copy", "bool", "items", "split", "update"}
CLOSERS = {"_update_src_and_sens"}  # re-establish the derived views == closes the transaction
# complete transactions by themselves (callee contracts): rec_obj_remover removes the child from its parent's list AND updates that parent's views
ATOMIC_WRITERS = {"rec_obj_remover"}
# call sites where a may-raise callee cannot raise under the forest invariant (explicit assumption, printed in the evidence)
NO_RAISE_UNDER_INVARIANT = {"obj._parent.remove(obj)", "self._parent.remove(self)"}


class Tx:
    def __init__(self, fname):
        self.fname = fname
        self.problems = []
        self.assumed = set()
        self.nodes = 0
        self.saved = {}  # local name -> tree attribute expression it was saved from (`parent = self._parent`)

    def restores(self, st, open_):
        """`X.attr = name` where `name` was saved from `X.attr` before the open write to that same attribute: closes that transaction"""
        if isinstance(st, ast.Assign) and len(st.targets) == 1 and isinstance(st.targets[0], ast.Attribute) and isinstance(st.value, ast.Name):
            tgt = ast.unparse(st.targets[0])
            return self.saved.get(st.value.id) == tgt and open_ is not None and open_.replace(" ", "").startswith(tgt.replace(" ", "") + "=")
        return False

    def quiet_run(self, stmts, open_):
        """result of running `stmts` from state `open_` without recording anything: (open state afterwards, had problems)"""
        t = Tx(self.fname)
        t.saved = dict(self.saved)
        out = t.run_block(stmts, open_)
        return out, bool(t.problems)

    def _calls(self, node):
        for n in ast.walk(node):
            if isinstance(n, ast.Call):
                yield n

    def may_raise(self, node):
        """does evaluating this expression/statement possibly raise (by the sidecar effect contracts)?"""
        out = []
        for n in ast.walk(node):
            if isinstance(n, ast.Raise):
                out.append("raise")
            if isinstance(n, ast.Call):
                src = ast.unparse(n)
                name = n.func.attr if isinstance(n.func, ast.Attribute) else getattr(n.func, "id", "?")
                if any(src.startswith(k.split("(")[0]) and src.replace(" ", "") == k.replace(" ", "") for k in NO_RAISE_UNDER_INVARIANT):
                    self.assumed.add(src)
                    continue
                if name in MAY_RAISE_CALLS:
                    out.append(f"call {name}()")
                elif name in PURE_NO_RAISE or name in CLOSERS or name in ATOMIC_WRITERS:
                    pass
                elif name in ("collections_all",):
                    pass
                else:
                    out.append(f"call {name}() (no effect contract: may raise?)")
        return out

    def opens(self, st):
        """statement writes a tree attribute in a way that leaves the invariant broken until closed"""
        for n in ast.walk(st):
            tgts = []
            if isinstance(n, ast.Assign):
                tgts = n.targets
            elif isinstance(n, ast.AugAssign):
                tgts = [n.target]
            for t in tgts:
                if isinstance(t, ast.Attribute) and t.attr in TREE_ATTRS:
                    return ast.unparse(n)[:60]
        return None

    def closes(self, st):
        for c in self._calls(st):
            if isinstance(c.func, ast.Attribute) and c.func.attr in CLOSERS:
                return True
            # self.add(...) is itself a complete tree-editing method (it ends by recomputing the views of self): when it RETURNS the views are consistent
            if isinstance(c.func, ast.Attribute) and c.func.attr == "add" and isinstance(c.func.value, ast.Name) and c.func.value.id == "self":
                return True
        return False

    def run_block(self, stmts, open_):
        for st in stmts:
            open_ = self.run_stmt(st, open_)
        return open_

    def run_stmt(self, st, open_):
        self.nodes += 1
        if isinstance(st, (ast.For, ast.While)):
            hdr = st.iter if isinstance(st, ast.For) else st.test
            if open_ and self.may_raise(hdr):
                self.problems.append((open_, self.may_raise(hdr)[0], ast.unparse(hdr)[:60]))
            o1 = self.run_block(st.body, open_)
            o2 = self.run_block(st.body, o1)  # second iteration: effects of an earlier iteration are visible
            return o2 or open_
        if isinstance(st, ast.If):
            if open_ and self.may_raise(st.test):
                self.problems.append((open_, self.may_raise(st.test)[0], ast.unparse(st.test)[:60]))
            a = self.run_block(st.body, open_)
            b = self.run_block(st.orelse, open_)
            return a or b
        if isinstance(st, ast.Try):
            n0 = len(self.problems)
            a = self.run_block(st.body, open_)
            if st.finalbody and len(self.problems) > n0:
                # an exception in the body runs the finally block: raises while a transaction is open are harmless if that block closes it (and cannot itself raise first)
                opened = {p[0] for p in self.problems[n0:]}
                if all(self.quiet_run(st.finalbody, o) == (None, False) for o in opened):
                    del self.problems[n0:]
            for h in st.handlers:
                a = self.run_block(h.body, a) or a
            return self.run_block(st.finalbody, a)
        if isinstance(st, (ast.Return,)):
            if st.value is not None and open_ and self.may_raise(st.value):
                self.problems.append((open_, self.may_raise(st.value)[0], ast.unparse(st)[:60]))
            return open_
        # simple statement: order inside one statement = evaluate RHS/calls first, then store
        mr = self.may_raise(st)
        if open_ and mr:
            self.problems.append((open_, mr[0], ast.unparse(st)[:70]))
        if self.closes(st) or self.restores(st, open_):
            return None
        if isinstance(st, ast.Assign) and len(st.targets) == 1 and isinstance(st.targets[0], ast.Name) and isinstance(st.value, ast.Attribute) \
                and st.value.attr in TREE_ATTRS and open_ is None:
            self.saved[st.targets[0].id] = ast.unparse(st.value)
        # remove(): `child._parent = None` right after the atomic rec_obj_remover completes the detachment: a closing write
        w = self.opens(st)
        if w:
            if self.fname == "remove" and ast.unparse(st).replace(" ", "") == "child._parent=None":
                return None
            if self.fname == "parent" and ast.unparse(st).replace(" ", "") == "self._parent=None":
                return None
            return w
        return open_


def transaction_obligations(rep):
    import magpylib._src.obj_classes.class_BaseGeo as BG
    import magpylib._src.obj_classes.class_Collection as CO

    fails = []
    targets = [(CO.BaseCollection, "add"), (CO.BaseCollection, "remove"), (CO.BaseCollection, "children"), (CO.BaseCollection, "sources"),
               (CO.BaseCollection, "sensors"), (CO.BaseCollection, "collections"), (BG.BaseGeo, "parent"), (BG.BaseGeo, "copy")]
    for cls, name in targets:
        member = cls.__dict__[name]
        fn = member.fset if isinstance(member, property) else member
        d = describe(member if not isinstance(member, property) else member)
        rep.function(d)
        tree = ast.parse(textwrap.dedent(inspect.getsource(fn))).body[0]
        tx = Tx(name)
        end_open = tx.run_block([s for s in tree.body if not (isinstance(s, ast.Expr) and isinstance(getattr(s, "value", None), ast.Constant))], None)
        label = f"{cls.__name__}.{name}{'.fset' if isinstance(member, property) else ''}"
        ok = not tx.problems
        # a call without an effect contract (a helper added by a refactoring) is neither known to raise nor known not to: undecided, not a violation
        only_unknown = bool(tx.problems) and all("no effect contract" in p_[1] for p_ in tx.problems)
        st_ = "discharged" if ok else ("unknown" if only_unknown else "refuted")
        rep.obligation(f"{label}.no-raise-while-a-tree-transaction-is-open", {"status": st_, "backend": f"ast-effect-analysis({tx.nodes} statements)", "time_s": 0,
                                                                              "reason": "; ".join(f"`{p_[2]}`: {p_[1]}" for p_ in tx.problems[:3])},
                       d["function"], "exceptional", sample={"assumed_no_raise_call_sites": sorted(tx.assumed)} if name == "add" else None)
        if not ok and not only_unknown:
            o, r, where = tx.problems[0]
            fails.append(dict(name=f"{label}.no-raise-while-a-tree-transaction-is-open", method=name,
                              why=f"after the write `{o}` the statement `{where}` may raise ({r}) before the tree is consistent again"))
        ok2 = end_open is None
        rep.obligation(f"{label}.every-transaction-is-closed-at-normal-exit", {"status": "discharged" if ok2 else "refuted", "backend": "ast-effect-analysis", "time_s": 0},
                       d["function"], "post")
        if not ok2:
            fails.append(dict(name=f"{label}.closed-at-exit", method=name, why=f"write `{end_open}` is not followed by a view update"))
        for a in tx.assumed:
            rep.assume(f"{label}: `{a}` cannot raise because obj is listed by its parent (the forest invariant itself)")
    return fails


# --------------------------------------------------------------------------------------------- bounded stand-in
def well_formed(objs):
    """forest invariant over the universe `objs`; returns list of violations"""
    import magpylib as magpy
    from magpylib._src.obj_classes.class_BaseExcitations import BaseSource

    msgs = []
    for o in objs:
        p = o._parent
        if p is not None:
            k = sum(1 for c in p._children if c is o)
            if k != 1:
                msgs.append(f"{o!r}: its parent lists it {k} times")
        if isinstance(o, magpy.Collection):
            ids = [id(c) for c in o._children]
            if len(set(ids)) != len(ids):
                msgs.append(f"{o!r} lists a child twice")
            for c in o._children:
                if c._parent is not o:
                    msgs.append(f"{c!r} is a child of {o!r} but its parent is {c._parent!r}")
            if [c for c in o._children if isinstance(c, BaseSource)] != list(o._sources) or o.sources is not o._sources:
                msgs.append(f"{o!r}.sources is not the typed partition of children")
            if [c for c in o._children if isinstance(c, magpy.Sensor)] != list(o._sensors):
                msgs.append(f"{o!r}.sensors is not the typed partition of children")
            if [c for c in o._children if isinstance(c, magpy.Collection)] != list(o._collections):
                msgs.append(f"{o!r}.collections is not the typed partition of children")
            # acyclic + flattenings
            seen, stack, cyc = set(), [o], False
            flat = []

            def walk(c, depth=0):
                nonlocal cyc
                if depth > 20:
                    cyc = True
                    return
                for ch in c._children:
                    flat.append(ch)
                    if ch is o:
                        cyc = True
                        return
                    if isinstance(ch, magpy.Collection):
                        walk(ch, depth + 1)

            walk(o)
            if cyc:
                msgs.append(f"{o!r} contains itself")
            else:
                if [x for x in flat if isinstance(x, BaseSource)] != o.sources_all:
                    msgs.append(f"{o!r}.sources_all is not the ordered flattening")
                if [x for x in flat if isinstance(x, magpy.Sensor)] != o.sensors_all:
                    msgs.append(f"{o!r}.sensors_all is not the ordered flattening")
                if [x for x in flat if isinstance(x, magpy.Collection)] != o.collections_all:
                    msgs.append(f"{o!r}.collections_all is not the ordered flattening")
    return msgs


def universe():
    import magpylib as magpy

    s1, s2 = magpy.misc.Dipole(moment=(1, 2, 3)), magpy.misc.Dipole(moment=(1, 2, 3))
    k1 = magpy.Sensor()
    c1, c2, c3 = magpy.Collection(), magpy.Collection(), magpy.Collection()
    return [s1, s2, k1, c1, c2, c3]


def operations():
    """operation templates over indices into the universe; (name, fn(objs))"""
    ops = []
    leaves, cols, every = (0, 1, 2), (3, 4, 5), (0, 1, 2, 3, 4, 5)
    for c in cols:
        for a in every:
            for ov in (False, True):
                ops.append((f"c{c}.add(o{a},override={ov})", lambda o, c=c, a=a, ov=ov: o[c].add(o[a], override_parent=ov)))
        for a, b in itertools.product(every, repeat=2):
            if a <= b:
                for ov in (False, True):
                    ops.append((f"c{c}.add(o{a},o{b},override={ov})", lambda o, c=c, a=a, b=b, ov=ov: o[c].add(o[a], o[b], override_parent=ov)))
        for a in every:
            for rec, err in itertools.product((True, False), ("raise", "ignore")):
                ops.append((f"c{c}.remove(o{a},rec={rec},err={err})", lambda o, c=c, a=a, rec=rec, err=err: o[c].remove(o[a], recursive=rec, errors=err)))
        ops.append((f"c{c}.remove(o0,o1)", lambda o, c=c: o[c].remove(o[0], o[1])))
        ops.append((f"c{c}.children=[o0,o2]", lambda o, c=c: setattr(o[c], "children", [o[0], o[2]])))
        ops.append((f"c{c}.children=[o1,'bad']", lambda o, c=c: setattr(o[c], "children", [o[1], "bad"])))
        ops.append((f"c{c}.children=[]", lambda o, c=c: setattr(o[c], "children", [])))
        ops.append((f"c{c}.sources=[o1]", lambda o, c=c: setattr(o[c], "sources", [o[1]])))
        ops.append((f"c{c}.sources=[o0,3]", lambda o, c=c: setattr(o[c], "sources", [o[0], 3])))
        ops.append((f"c{c}.sensors=[o2]", lambda o, c=c: setattr(o[c], "sensors", [o[2]])))
        ops.append((f"c{c}.sensors=['x']", lambda o, c=c: setattr(o[c], "sensors", ["x"])))
        ops.append((f"c{c}.collections=[c{cols[(cols.index(c) + 1) % 3]}]", lambda o, c=c: setattr(o[c], "collections", [o[cols[(cols.index(c) + 1) % 3]]])))
        ops.append((f"c{c}.collections=[c{c}]", lambda o, c=c: setattr(o[c], "collections", [o[c]])))
    for a in every:
        for c in cols:
            ops.append((f"o{a}.parent=c{c}", lambda o, a=a, c=c: setattr(o[a], "parent", o[c])))
        ops.append((f"o{a}.parent=None", lambda o, a=a: setattr(o[a], "parent", None)))
        ops.append((f"o{a}.parent=3", lambda o, a=a: setattr(o[a], "parent", 3)))
    ops.append(("o0+o1 (new collection)", lambda o: o[0] + o[1]))
    ops.append(("c3+o0", lambda o: o[3] + o[0]))
    ops.append(("c4.copy()", lambda o: o[4].copy()))
    ops.append(("o0.copy()", lambda o: o[0].copy()))
    for a in (0, 4):
        ops.append((f"o{a}.copy() while it holds an attribute that cannot be deep-copied", lambda o, a=a: _copy_uncopyable(o[a])))
    ops.append(("o0.copy(position='bad')", lambda o: o[0].copy(position="bad")))
    return ops


def _copy_uncopyable(obj):
    import threading

    obj._verif_uncopyable = threading.Lock()
    try:
        return obj.copy()
    finally:
        del obj._verif_uncopyable


def state_key(objs):
    idx = {id(o): i for i, o in enumerate(objs)}
    return tuple((idx.get(id(o._parent), -1), tuple(idx.get(id(c), -2) for c in getattr(o, "_children", ()))) for o in objs)


def operations_nested():
    """operations of a collections-centred universe (deep nesting, cycles): indices 0 = one source, 3,4,5 = collections"""
    keep = []
    for name, fn in operations():
        toks = [t for t in name.replace("(", " ").replace(")", " ").replace(",", " ").replace("=", " ").replace(".", " ").replace("[", " ").replace("]", " ").split()]
        if any(t in ("o1", "o2") for t in toks):
            continue
        keep.append((name, fn))
    return keep


def explore_histories(depth, budget, seed, ops=None):
    """BFS over histories with state-hash pruning; returns (evaluations, distinct states, violations[(history, msgs)])"""
    import warnings

    warnings.simplefilter("ignore")
    ops = ops or operations()
    rng = np.random.default_rng(seed)
    frontier = [()]
    seen = {state_key(universe())}
    evals = 0
    bad = []
    for d in range(depth):
        nxt = []
        for hist in frontier:
            for oi in range(len(ops)):
                if evals >= budget:
                    return evals, len(seen), bad
                objs = universe()
                try:
                    for j in hist:
                        try:
                            ops[j][1](objs)
                        except Exception:  # pylint: disable=broad-except
                            pass
                    raised = None
                    try:
                        ops[oi][1](objs)
                    except Exception as e:  # pylint: disable=broad-except
                        raised = type(e).__name__
                except RecursionError:
                    raised = "RecursionError"
                evals += 1
                msgs = well_formed(objs)
                if msgs:
                    bad.append(([ops[j][0] for j in hist] + [ops[oi][0]], raised, msgs[:3]))
                    if len(bad) >= 5:
                        return evals, len(seen), bad
                    continue
                k = state_key(objs)
                if k not in seen:
                    seen.add(k)
                    nxt.append(hist + (oi,))
        if len(nxt) > 400:
            nxt = [nxt[i] for i in sorted(rng.permutation(len(nxt))[:400])]
        frontier = nxt
    return evals, len(seen), bad


REPLAY = """import sys
from checks.c11 import operations, universe, well_formed
names = {names!r}
ops = dict(operations()); objs = universe()
for n in names:
    try: ops[n](objs); print(n, '-> ok')
    except Exception as e: print(n, '-> raises', type(e).__name__)
msgs = well_formed(objs)
for m in msgs: print('INVARIANT BROKEN:', m)
sys.exit(1 if msgs else 0)
"""


def main(tier, seed):
    rep = Report(PID, tier, seed, "other")
    rep.explanation = ("PROVED sub-obligations: transaction ordering of every tree-editing method from its AST with sidecar effect contracts "
                       "(no may-raise statement while a parent/children/view write is not yet completed). BOUNDED: the forest invariant itself as a run-time "
                       "invariant after every operation (raising or not) over all histories up to the stated depth with state-hash pruning.")
    rep.assumed_contract("effect contracts of the callees: check_format_input_obj / format_obj_input pure, may raise; rec_obj_remover removes the child from its "
                         "parent's list and updates that parent's views (atomic); _update_src_and_sens recomputes the three typed views, cannot raise")
    rep.assume("heap-shape (reachability, exactly-once listing, acyclicity) is NOT proved for all histories: bounded stand-in only")
    fails = transaction_obligations(rep)
    depth, budget = (3, 16000) if tier == "quick" else (4, 250000)
    evals, states, bad = explore_histories(depth, budget, seed)
    d2, b2 = (4, 14000) if tier == "quick" else (5, 120000)
    e2, s2, bad2 = explore_histories(d2, b2, seed, operations_nested())
    rep.standin("forest invariant, collections-centred universe (deep nesting, cycle attempts through add / parent= / typed setters)",
                f"1 source + 3 collections, {len(operations_nested())} operations, history length <= {d2}, budget {b2}", e2, s2,
                "BFS with state-hash pruning", [dict(history=["c3.add(o4,override=False)", "c4.add(o5,override=False)", "c5.add(o3,override=True)"])], failures=len(bad2))
    bad = bad + bad2
    rep.standin("forest invariant after every operation over all histories (state-hash pruning)", f"universe 2 sources + 1 sensor + 3 collections, {len(operations())} operations, history length <= {depth}, budget {budget}",
                evals, states, "BFS over operation histories from the empty forest; distinct = distinct forest shapes reached; every op incl. raising ones is followed by the invariant check",
                [dict(history=["c3.add(o0,override=False)", "c4.add(o0,o1,override=False)"])], failures=len(bad))
    for f in fails:
        hit = [b for b in bad if any(f["method"] in step or (f["method"] in ("children", "sources", "sensors", "collections") and f".{f['method']}=" in step) for step in b[0][-1:])]
        hit = hit or bad
        if hit:
            hist, raised, msgs = hit[0]
            rep.violation(f["name"], {"why": f["why"], "history": hist, "last_op_raised": raised, "native_result": msgs, "script": REPLAY.format(names=hist)})
        else:
            rep.violation(f["name"], {"why": f["why"], "solver_output": f["why"]}, found_input=False)
    if not fails:
        for hist, raised, msgs in bad[:3]:
            rep.violation("standin.forest-invariant", {"history": hist, "last_op_raised": raised, "native_result": msgs, "script": REPLAY.format(names=hist)})
    return rep.finish()
