"""C19 — show() draws each object where it is and does not alter it.   (bounded stand-in + two proved pieces)

P1 place_and_orient_model3d (real code object, term-exact): for symbolic vertices v_i, symbolic rotation R and position p,
   rational scale and length factor, every new vertex equals (act(R, v_i)*scale + p)*length_factor — a swapped transform order
   (translate before rotate, scale after translate, unit factor before translate) is refuted by the normal form.
P2 style_temp_edit: CFG obligation from the AST — the temporary `obj._style` assignment is enclosed by try/finally whose finally
   restores the value read before; executed with an injected exception: the style object is the original one (identity).
SI (bounded): the generic/plotly model of every class at several poses/paths/frame selections/unit settings: drawn vertices of a
   magnet lie on its analytic surface at a displayed path index and span its extent; current lines pass through the conductor's
   points; the path line passes through the path positions; coordinates are in the announced unit; objects, styles and defaults are
   unchanged by show().
"""
import ast
import inspect
import itertools
import json
import textwrap

import numpy as np

from engine.rebind import describe, rebind
from engine.report import Report

PID = "C19"


def _st(ok, backend):
    return {"status": "discharged" if ok else "refuted", "backend": backend, "time_s": 0}


def place_orient_obligations(rep):
    from fractions import Fraction

    import magpylib._src.display.traces_utility as TU
    from standins.talg import Rot, S, vec, vkey

    fails = []
    fn = describe(TU.place_and_orient_model3d)
    rep.function(fn)

    class NPx:
        def __getattr__(self, n):
            return getattr(np, n)

        @staticmethod
        def array(x, dtype=None, **k):
            if isinstance(x, np.ndarray) and x.dtype == object:
                return x
            return np.array(x, dtype=dtype, **k)

    class OArr(np.ndarray):
        def astype(self, t, **k):  # float conversion of symbolic scalars: identity (reals)
            return self

    for nv, scale, lf, with_ori in itertools.product((1, 3), (1, 3), (1, 1000), (True, False)):
        verts = np.empty((3, nv), dtype=object)
        vs = [vec(("v", i)) for i in range(nv)]
        for i in range(nv):
            for c in range(3):
                verts[c, i] = vs[i][c]

        def gv(model_kwargs, model_args, coordsargs):
            return verts.view(OArr), {"x": "x", "y": "y", "z": "z"}, False

        ns = rebind(TU, dict(np=NPx(), get_vertices_from_model=gv))
        R = Rot([(("R", 1),)], single=True) if with_ori else None
        p = vec("p")
        out = ns["place_and_orient_model3d"]({"type": "mesh3d", "x": None, "y": None, "z": None}, orientation=R, position=p, scale=scale, length_factor=lf)
        ok = True
        why = ""
        for i in range(nv):
            rot = R.apply(vs[i]) if with_ori else vs[i]
            exp = (rot * scale + p) * lf
            got = [out[k][i] for k in "xyz"]
            if not all(S.lift(a) == S.lift(b) for a, b in zip(got, exp)):
                ok = False
                why = f"vertex {i}: got {got[0]!r}, prescribed {exp[0]!r}"
        nm = f"place_and_orient_model3d[nv={nv},scale={scale},length_factor={lf},rotation={with_ori}].vertex==(R·v*scale+p)*unit"
        rep.obligation(nm, _st(ok, "normal-form(term-exact execution)"), fn["function"], "post")
        if not ok:
            fails.append(dict(name=nm, why=why))
    return fails


def style_temp_obligations(rep):
    import magpylib._src.utility as UT

    fails = []
    fn = describe(UT.style_temp_edit.__wrapped__ if hasattr(UT.style_temp_edit, "__wrapped__") else UT.style_temp_edit)
    rep.function(fn)
    src = textwrap.dedent(inspect.getsource(UT.style_temp_edit))
    tree = ast.parse(src).body[0]
    tries = [n for n in ast.walk(tree) if isinstance(n, ast.Try)]
    ok = False
    if tries:
        t = tries[0]
        writes_outside = [n for n in ast.walk(tree) if isinstance(n, ast.Assign) and "obj._style" in ast.unparse(n.targets[0]) and not any(n in ast.walk(x) for x in [t])]
        fin = [ast.unparse(s) for s in t.finalbody]
        ok = not writes_outside and any(s.replace(" ", "") == "obj._style=orig_style" for s in fin) and any(isinstance(n, ast.Yield) for b in t.body for n in ast.walk(b))
    rep.obligation("style_temp_edit.temporary-style-assigned-only-inside-try-and-restored-in-finally", _st(ok, "ast/cfg"), fn["function"], "exceptional")
    if not ok:
        fails.append(dict(name="style_temp_edit.cfg", why="obj._style is not restored on every exit"))

    class O:
        pass

    class St:
        def copy(self):
            return St()

    for copy_, raise_ in itertools.product((True, False), (True, False)):
        o = O()
        o._style = orig = St()
        try:
            with UT.style_temp_edit(o, St(), copy=copy_):
                inside_is_temp = o._style is not orig
                if raise_:
                    raise RuntimeError("injected")
        except RuntimeError:
            pass
        ok2 = o._style is orig and inside_is_temp
        rep.obligation(f"style_temp_edit[copy={copy_},body-raises={raise_}].style-restored(identity)", _st(ok2, "concrete-execution-with-fault-injection"), fn["function"], "exceptional")
        if not ok2:
            fails.append(dict(name="style_temp_edit.restore", why="style not restored"))
    return fails


# --------------------------------------------------------------------------------------------- bounded stand-in on the plotly/generic model
def frame_index_obligations(rep):
    """get_rot_pos_from_path (real code object) for a LIST of frame indices, symbolically: a generic requested index i >= 0 and a symbolic path length
    L >= 1 — the pose taken is the one at min(i, L-1) ("beyond the end of its path an object stays at its last pose"), for every i and L."""
    import z3

    import magpylib._src.display.traces_utility as TU
    from engine import solve
    from engine.symex import Ctx, SymBool, SymInt, Unsupported, explore

    fails = []
    fn = describe(TU.get_rot_pos_from_path)
    rep.function(fn)
    i, L, n = z3.Int("i_requested"), z3.Int("path_len"), z3.Int("n_requested")

    class IArr:
        """array of requested indices: one generic element"""

        def __init__(self, elem):
            self.elem = elem

        def __ge__(self, o):
            return ("mask", self.elem >= (o.t if isinstance(o, SymInt) else o))

        def __lt__(self, o):
            return ("mask", self.elem < (o.t if isinstance(o, SymInt) else o))

        def __mod__(self, o):
            return IArr(self.elem % (o.t if isinstance(o, SymInt) else o))

        def __add__(self, o):
            return IArr(self.elem + (o.t if isinstance(o, SymInt) else o))

        def __setitem__(self, k, v):
            if not (isinstance(k, tuple) and k[0] == "mask"):
                raise Unsupported("index assignment pattern")
            val = v.t if isinstance(v, SymInt) else (v.elem if isinstance(v, IArr) else z3.IntVal(int(v)))
            self.elem = z3.If(k[1], val, self.elem)

        def __getitem__(self, k):
            if isinstance(k, tuple) and k[0] == "mask":
                return IArr(self.elem)
            raise Unsupported("index pattern")

        @property
        def size(self):
            return SymInt(n)

    taken = []

    class Path:
        def __init__(self, what):
            self.what = what
            self.shape = (SymInt(L), 3)

        def __getitem__(self, k):
            if not isinstance(k, IArr):
                raise Unsupported("path indexed by something else than the frame indices")
            taken.append((self.what, k.elem))
            return (self.what, k)

    class NPi:
        @staticmethod
        def array(x, **kw):
            if isinstance(x, IArr):
                return IArr(x.elem)
            raise Unsupported("np.array of a concrete list in the symbolic run")

        @staticmethod
        def unique(x):
            return x  # the same set of indices (sorted, without repetitions)

        def __getattr__(self, nm):
            raise Unsupported(f"np.{nm}")

    class Obj:
        pass

    ns = rebind(TU, dict(np=NPi(), isinstance=lambda o, k: (False if isinstance(o, IArr) and k in (int, str) else isinstance(o, k)),
                         hasattr=lambda o, a: (True if isinstance(o, IArr) and a == "__iter__" else hasattr(o, a))))

    def body():
        del taken[:]
        c = Ctx.cur
        c.pc.extend([L >= 1, i >= 0, n >= 1])
        o = Obj()
        o._position, o._orientation = Path("position"), Path("orientation")
        return ns["get_rot_pos_from_path"](o, IArr(i))

    npth = 0
    for ctx, (kind, res) in explore(body):
        npth += 1
        nm = f"get_rot_pos_from_path[list of frames]@path{npth}.pose-taken-at-min(i,L-1)-for-position-and-orientation"
        if kind != "ok":
            st = "unknown" if kind == "unsupported" else "refuted"
            rep.obligation(nm, {"status": st, "backend": "symex", "time_s": 0, "reason": str(res)[:200]}, fn["function"])
            if st == "refuted":
                fails.append(dict(name=nm, why=repr(res)))
            continue
        want = z3.If(i >= L, L - 1, i)
        ok_struct = sorted(w for w, _ in taken) == ["orientation", "position"]
        goal = z3.And(*[e == want for _, e in taken]) if ok_struct else z3.BoolVal(False)
        r = solve.discharge(ctx.pc, goal)
        rep.obligation(nm, r, fn["function"], sample=solve.sample_smt2(ctx.pc, goal) if npth == 1 else None)
        if r["status"] == "refuted":
            fails.append(dict(name=nm, why="a frame index beyond the end of the path is not shown at the last pose (or position and orientation are taken at different indices)"))
    if npth == 0:
        raise RuntimeError("vacuity: get_rot_pos_from_path has no path")
    return fails


def on_surface(cname, obj, loc, tol):
    """is the local point on the analytic surface of the object (within tol)?"""
    x, y, z = loc
    if cname == "Cuboid":
        a, b, c = np.array(obj.dimension) / 2
        inside = abs(x) <= a + tol and abs(y) <= b + tol and abs(z) <= c + tol
        onface = min(abs(abs(x) - a), abs(abs(y) - b), abs(abs(z) - c)) <= tol
        return inside and onface
    if cname == "Cylinder":
        r0, h = obj.dimension[0] / 2, obj.dimension[1]
        r = np.hypot(x, y)
        return r <= r0 + tol and abs(z) <= h / 2 + tol and (abs(r - r0) <= tol or abs(abs(z) - h / 2) <= tol)
    if cname == "Sphere":
        return abs(np.linalg.norm(loc) - obj.diameter / 2) <= tol
    if cname == "CylinderSegment":
        r1, r2, h, p1, p2 = obj.dimension
        r = np.hypot(x, y)
        return r1 - tol <= r <= r2 + tol and abs(z) <= h / 2 + tol
    if cname in ("Tetrahedron", "TriangularMesh", "Triangle"):
        V = np.asarray(obj.vertices, dtype=float)
        return np.min(np.linalg.norm(V - loc, axis=1)) <= tol  # drawn vertices are the body's vertices
    return True


def extent(cname, obj):
    if cname == "Cuboid":
        return np.array(obj.dimension, dtype=float)
    if cname == "Cylinder":
        return np.array([obj.dimension[0], obj.dimension[0], obj.dimension[1]], dtype=float)
    if cname == "Sphere":
        return np.array([obj.diameter] * 3, dtype=float)
    if cname in ("Tetrahedron", "TriangularMesh", "Triangle"):
        V = np.asarray(obj.vertices, dtype=float)
        return V.max(axis=0) - V.min(axis=0)
    return None


def snapshot(objs):
    import magpylib as magpy

    out = []
    for o in objs:
        d = {"pos": o._position.tobytes(), "ori": o._orientation.as_quat().tobytes(), "style": json.dumps(o.style.as_dict(), sort_keys=True, default=str),
             "parent": id(o._parent), "children": [id(c) for c in getattr(o, "_children", [])]}
        for a in ("_dimension", "_polarization", "_vertices", "_diameter", "_current", "_moment", "_pixel"):
            v = getattr(o, a, None)
            d[a] = None if v is None else np.asarray(v).tobytes()
        out.append(d)
    out.append(json.dumps(magpy.defaults.as_dict(), sort_keys=True, default=str))
    return out


def native_show(seed, tier):
    import warnings

    import magpylib as magpy
    from scipy.spatial.transform import Rotation as R

    warnings.simplefilter("ignore")
    rng = np.random.default_rng(seed)
    pts = np.array([(x, y, z) for x in (-.5, .5) for y in (-.6, .6) for z in (-.4, .4)])
    mk = {
        "Cuboid": lambda: magpy.magnet.Cuboid(dimension=(1, 2, 3), polarization=(0, 0, 1)),
        "Cylinder": lambda: magpy.magnet.Cylinder(dimension=(1, 2), polarization=(0, 0, 1)),
        "CylinderSegment": lambda: magpy.magnet.CylinderSegment(dimension=(1, 2, 1.5, 20, 250), polarization=(0, 0, 1)),
        "Sphere": lambda: magpy.magnet.Sphere(diameter=1.6, polarization=(0, 0, 1)),
        "Tetrahedron": lambda: magpy.magnet.Tetrahedron(vertices=[(0, 0, 0), (1, 0, 0), (0, 1, 0), (.2, .3, 1)], polarization=(0, 0, 1)),
        "Tetrahedron(left-handed vertex order)": lambda: magpy.magnet.Tetrahedron(vertices=[(0, 0, 0), (1, 0, 0), (.2, .3, 1), (0, 1, 0)], polarization=(0, 0, 1)),
        "TriangularMesh": lambda: magpy.magnet.TriangularMesh.from_ConvexHull(points=pts, polarization=(0, 0, 1)),
        "Triangle": lambda: magpy.misc.Triangle(vertices=[(0, 0, 0), (1, 0, 0), (0, 1, .3)], polarization=(0, 0, 1)),
        "Polyline": lambda: magpy.current.Polyline(vertices=[(0, 0, 0), (1, 0, 0), (1, 1, .5), (2, 1, 1)], current=1.5),
        "Circle": lambda: magpy.current.Circle(diameter=1.4, current=1.5),
    }
    bad, n = [], 0
    for cname0, unit, m, in_col, beyond in itertools.product(mk, ("m", "mm"), (1, 3), (False, True), (False, True)):
        if beyond and (m == 1 or unit == "mm"):
            continue
        cname = cname0.split("(")[0]
        o = mk[cname0]()
        o._position = rng.normal(size=(m, 3)) * 2
        o._orientation = R.from_rotvec(rng.normal(size=(m, 3)))
        objs = [o]
        shown = o
        if in_col:
            col = magpy.Collection(o, position=(0, 0, 0))
            objs.append(col)
            shown = col
        frames = list(range(m))
        shown_idx = set(range(m))
        if beyond:
            # a frame selection that reaches beyond the end of this object's path: the object stays at its last pose
            frames = [0, m + 3]
            shown_idx = {0, m - 1}
        fac = {"m": 1.0, "mm": 1000.0}[unit]
        before = snapshot(objs)
        n += 1
        case = dict(cls=cname0, unit=unit, path=m, in_collection=in_col, frames=frames)
        try:
            extra = {"style_orientation_show": False} if cname in ("Triangle", "TriangularMesh") else {}
            fig = magpy.show(shown, backend="plotly", return_fig=True, style_path_frames=frames, units_length=unit, style_magnetization_show=False, **extra)
        except Exception as e:  # pylint: disable=broad-except
            bad.append((case, f"show raised {type(e).__name__}: {str(e)[:80]}"))
            continue
        if snapshot(objs) != before:
            bad.append((case, "show() modified an object, a style or the defaults"))
        lab = fig.layout.scene.xaxis.title.text
        if f"({unit})" not in str(lab):
            bad.append((case, f"axis label {lab!r} does not announce the unit {unit}"))
        meshes = [t for t in fig.data if type(t).__name__ == "Mesh3d"]
        scat = [t for t in fig.data if type(t).__name__ == "Scatter3d"]
        tol = 1e-6 * 3
        if cname in ("Cuboid", "Cylinder", "Sphere", "CylinderSegment", "Tetrahedron", "TriangularMesh", "Triangle"):
            if not meshes:
                bad.append((case, "no mesh trace for a body"))
                continue
            V = np.concatenate([np.c_[t.x, t.y, t.z] for t in meshes]).astype(float) / fac
            assigned = {k: [] for k in range(m)}
            off = 0
            for v in V:
                hit = None
                for k in range(m):
                    loc = o._orientation[k].inv().apply(v - o._position[k])
                    if on_surface(cname, o, loc, tol if cname != "Sphere" else 1e-6):
                        hit = k
                        assigned[k].append(loc)
                        break
                if hit is None:
                    off += 1
            if off:
                bad.append((case, f"{off} of {len(V)} drawn vertices do not lie on the object's surface at any displayed path index"))
            drawn_idx = {k for k in range(m) if assigned[k]}
            if cname != "Sphere" and drawn_idx != shown_idx:
                bad.append((case, f"the model is drawn at path indices {sorted(drawn_idx)}, the frame selection {frames} prescribes {sorted(shown_idx)}"))
            ext = extent(cname, o)
            if ext is not None:
                for k in sorted(shown_idx):
                    if not assigned[k]:
                        bad.append((case, f"no drawn vertex at path index {k}"))
                        continue
                    L = np.array(assigned[k])
                    got = L.max(axis=0) - L.min(axis=0)
                    if np.any(got < ext * (0.97 if cname in ("Sphere", "Cylinder") else 0.999) - 1e-9):
                        bad.append((case, f"drawn model at path index {k} spans {np.round(got, 3).tolist()}, the object's extent is {np.round(ext, 3).tolist()}"))
        if cname == "Polyline":
            P = np.concatenate([np.c_[t.x, t.y, t.z] for t in scat if t.x is not None]).astype(float) / fac
            P = P[np.isfinite(P).all(axis=1)]
            for k in sorted(shown_idx):
                for v in np.asarray(o.vertices):
                    g = o._orientation[k].apply(v) + o._position[k]
                    if np.min(np.linalg.norm(P - g, axis=1)) > 1e-6:
                        bad.append((case, f"the drawn current line does not pass through conductor vertex {v.tolist()} at path index {k}"))
                        break
        if cname == "Circle":
            P = np.concatenate([np.c_[t.x, t.y, t.z] for t in scat if t.x is not None and "path" not in str(t.name)]).astype(float) / fac
            P = P[np.isfinite(P).all(axis=1)]
            good = 0
            for v in P:
                for k in range(m):
                    loc = o._orientation[k].inv().apply(v - o._position[k])
                    if abs(np.hypot(loc[0], loc[1]) - 0.7) < 1e-6 and abs(loc[2]) < 1e-6:
                        good += 1
                        break
            if good < 0.7 * len(P):
                bad.append((case, f"only {good} of {len(P)} drawn points lie on the loop"))
        if m > 1 and not beyond:
            P = [np.c_[t.x, t.y, t.z].astype(float) / fac for t in scat if t.x is not None and len(t.x) == m]
            okp = any(np.allclose(p_, o._position, atol=1e-6) for p_ in P)
            if not okp:
                bad.append((case, "no drawn line passes through the object's path positions"))
    return n, bad


def native_matplotlib_slices(seed):
    """the matplotlib back end cannot draw colour gradients: the magnet mesh is cut into slabs of constant colour. The union of the slabs must still
    be the whole magnet (drawn vertices span the full extent, cuboid vertices on the surface), whatever the pole colours are — also when two of them coincide"""
    import warnings

    try:
        import matplotlib

        matplotlib.use("Agg")
        import matplotlib.pyplot as plt
    except ImportError:
        return 0, []
    import magpylib as magpy
    from scipy.spatial.transform import Rotation as R

    warnings.simplefilter("ignore")
    rng = np.random.default_rng(seed)
    mk = {
        "Cuboid": lambda: magpy.magnet.Cuboid(dimension=(1, 2, 3), polarization=(0.3, 0.2, 1)),
        "Cylinder": lambda: magpy.magnet.Cylinder(dimension=(1, 2), polarization=(0, 0, 1)),
        "Sphere": lambda: magpy.magnet.Sphere(diameter=1.6, polarization=(0, 1, 1)),
    }
    red, grey, green = "#E71111", "#DDDDDD", "#00B050"
    colourings = [("tricolor", red, grey, green, None), ("tricolor", red, red, green, None), ("tricolor", red, green, green, None), ("tricolor", red, grey, red, None),
                  ("bicolor", red, grey, green, None), ("bicolor", red, grey, red, None), ("tricycle", red, grey, green, red), ("tricycle", red, grey, green, "blue")]
    bad, n = [], 0
    for cname, (mode, north, middle, south, own) in itertools.product(mk, colourings):
        o = mk[cname]()
        o._position = rng.normal(size=(1, 3))
        o._orientation = R.from_rotvec(rng.normal(size=(1, 3)))
        o.style.magnetization.mode = "color"
        o.style.magnetization.color.mode = mode
        o.style.magnetization.color.north, o.style.magnetization.color.middle, o.style.magnetization.color.south = north, middle, south
        if own:
            o.style.color = own
        case = dict(cls=cname, backend="matplotlib", colour_mode=mode, north=north, middle=middle, south=south, own=own)
        n += 1
        try:
            fig = magpy.show(o, backend="matplotlib", return_fig=True)
            V = []
            for ax in fig.axes:
                for coll in ax.collections:
                    f = getattr(coll, "_faces", None)
                    if f is not None and np.size(f):
                        V.append(np.asarray(f, dtype=float).reshape(-1, 3))
            plt.close(fig)
        except Exception as e:  # pylint: disable=broad-except
            bad.append((case, f"show raised {type(e).__name__}: {str(e)[:80]}"))
            continue
        if not V:
            bad.append((case, "no surface drawn"))
            continue
        L = o._orientation[0].inv().apply(np.concatenate(V) - o._position[0])
        got, ext = L.max(axis=0) - L.min(axis=0), extent(cname, o)
        if np.any(got < ext * (0.97 if cname != "Cuboid" else 0.999) - 1e-9):
            bad.append((case, f"the drawn magnet spans {np.round(got, 3).tolist()} in its own frame, its extent is {np.round(ext, 3).tolist()}: a part of the body is not drawn"))
        if cname == "Cuboid" and not all(on_surface(cname, o, v, 1e-6) for v in L):
            bad.append((case, "drawn vertices off the surface"))
    return n, bad


REPLAY_MPL = """import sys
from checks.c19 import native_matplotlib_slices
n, bad = native_matplotlib_slices({seed})
for c, m in bad[:6]: print(c, m)
sys.exit(1 if bad else 0)
"""

REPLAY = """import sys
from checks.c19 import native_show
n, bad = native_show({seed}, 'quick')
for c, m in bad[:6]: print(c, m)
sys.exit(1 if bad else 0)
"""


def main(tier, seed):
    rep = Report(PID, tier, seed, "other")
    rep.explanation = ("PROVED pieces: place_and_orient_model3d term-exactly (all vertex values, rotations, positions; rational scale/unit) and the restore-on-every-exit "
                       "of style_temp_edit. BOUNDED: drawn plotly/generic models of 9 classes x units x path lengths x collection nesting against the analytic shapes.")
    rep.assume("pyvista back end not examined; matplotlib only for the colour-slab geometry of magnets; everything else through the generic traces of the plotly back end")
    rep.assume("trace generation (make_Cuboid ... make_Sensor, get_frames) is reflection- and dictionary-heavy presentation code: bounded stand-in only")
    fails = place_orient_obligations(rep) + style_temp_obligations(rep) + frame_index_obligations(rep)
    n, bad = native_show(seed, tier)
    rep.standin("drawn vertices on the analytic surface at a displayed path index and spanning the extent; current lines through conductor points; path line through path "
                "positions; announced unit; show() leaves objects, styles and defaults untouched", "9 classes x {m, mm} x path length {1,3} x {bare, inside a Collection}",
                n, n, "random poses; all path frames displayed", [dict(cls="Cuboid", unit="mm", path=3, in_collection=True)], failures=len(bad), exhaustive=True)
    for f in fails:
        if bad:
            rep.violation(f["name"], {"why": f["why"], "native_result": str(bad[0]), "script": REPLAY.format(seed=seed)})
        else:
            rep.violation(f["name"], {"why": f["why"], "solver_output": f["why"]}, found_input=False)
    if not fails:
        for c, m_ in bad[:3]:
            rep.violation(f"standin.drawn-model[{c['cls']}]", {"case": c, "native_result": m_, "script": REPLAY.format(seed=seed)})
    n3, bad3 = native_matplotlib_slices(seed)
    rep.standin("matplotlib back end: the colour slabs of a magnet together span its full extent (cuboid vertices on the surface) for every colour mode, also with coinciding pole colours",
                "3 magnet classes x 8 colourings (tricolor / bicolor / tricycle, distinct and coinciding colours)", n3, n3, "random pose", [dict(cls="Cuboid", colour_mode="tricolor", middle="== north")],
                failures=len(bad3), exhaustive=True)
    for c, m_ in bad3[:3]:
        rep.violation(f"standin.colour-slabs[{c['cls']},{c['colour_mode']}]", {"case": c, "native_result": m_, "script": REPLAY_MPL.format(seed=seed)})
    return rep.finish()
