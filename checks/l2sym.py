"""Level-2 field evaluation for ALL path lengths and ALL pixel counts (obligations shared by C03-C08).

The real  getBH_level2 -> format_src_inputs / check_format_input_observers / check_static_sensor_orient -> get_src_dict ->
tile_group_property -> getBH_level1  (code objects from /repo, re-bound over the symbolic-shape shim engine/shape.py) are executed
to path exhaustion for a STRUCTURE (how many sources / collections / sensors, nesting, which share a field function, which
objects have a shorter path, pixel format, handedness) with
    * symbolic maximal path length M >= 1 and symbolic shorter lengths 1 <= n < M,
    * symbolic pixel counts K (or K_a != K_b with a pixel aggregator),
    * uninterpreted positions P_o(i), orientations Q_o(i), pixel positions, properties and field functions F_g.
Obligations per path (all discharged by z3, cvc5 second), at generic indices m, k:
    out[l, m, s, k] = flip_s( Q_s(ms)^-1 . SUM_{leaf of source l} Q_leaf(ml) . F_g( Q_leaf(ml)^-1 (Q_s(ms).pix_s(k) + P_s(ms) - P_leaf(ml)) ; props_leaf ) )
    with ml = min(m, n_leaf - 1), ms = min(m, n_s - 1)                                   [C03, C04, C05, C06, C07]
    the output has exactly the documented shape (L, M, S, K, 3) resp. squeezed / summed / aggregated   [C04, C07]
    the pixel aggregator is called on exactly the per-pixel sensor-frame values, along the pixel axes    [C04]
    every object's position and orientation path is restored (length and every entry)                    [C08]
    every slice / index used is within bounds (safety)
What is NOT symbolic: the structure (numbers of objects) — enumerated, bounded, stated in the evidence; pixel grids of rank > 2.
Dropped bindings: np -> engine.shape.NPS, R -> RotS, builtins len/int/zip/all/max -> size-aware versions, the pixel aggregator ->
an uninterpreted reduction recorded with its argument.
"""
import itertools
import warnings

import z3

from engine import shape as S
from engine import solve
from engine.idx import RID, VZERO, Rot, Vec, act, inv, vadd, vsub
from engine.rebind import _refunc, describe, rebind
from engine.symex import Ctx, Unsupported, explore

I = z3.IntSort()
M = S.Poly.sym("M")


SET_ORDER = {"reverse": False}


class DetSet:
    """`set` of the re-bound namespaces: same members as the built-in set, but with a DETERMINISTIC iteration order (insertion order, or its
    reverse: run_structure alternates between the two from structure to structure).  getBH_level2 iterates `set(src_list + sensors)`; the
    built-in orders objects by their addresses, which change from one replay of a path to the next, so the decision-vector replay would meet the
    branches in a different order and skip parts of the decision tree (noticed by the replay-divergence guard of engine/symex.py)."""

    def __init__(self, it=()):
        keys = list(dict.fromkeys(it))
        self._d = dict.fromkeys(reversed(keys) if SET_ORDER["reverse"] else keys)

    def __iter__(self):
        return iter(list(self._d))

    def __len__(self):
        return len(self._d)

    def __contains__(self, x):
        return x in self._d

    def add(self, x):
        self._d[x] = None

    def __eq__(self, o):
        return set(self._d) == (set(o._d) if isinstance(o, DetSet) else o)

    def __hash__(self):
        raise TypeError("unhashable type: 'set'")


def namespaces():
    import magpylib._src.fields.field_wrap_BH as FW
    import magpylib._src.utility as UT

    nps = S.NPS()
    base = dict(np=nps, len=S.s_len, int=S.s_int, zip=S.s_zip, all=S.s_all, max=S.s_max, set=DetSet)
    ut = rebind(UT, dict(base))
    fw = rebind(FW, dict(base, R=S.RotS, check_static_sensor_orient=ut["check_static_sensor_orient"]))
    real_agg = FW.check_format_pixel_agg

    def check_format_pixel_agg(pixel_agg):
        f = real_agg(pixel_agg)  # the real validation, on real NumPy
        return None if f is None else Agg(pixel_agg)

    fw["check_format_pixel_agg"] = check_format_pixel_agg
    return fw, ut


class InjectedFault(Exception):
    """a user-supplied callable (field function of a CustomSource, pixel aggregator) raises"""

    modelled = True


class InjectedInterrupt(BaseException):
    """... or is interrupted (KeyboardInterrupt-like: not an Exception)"""

    modelled = True


FAULT = {"at": None, "cls": InjectedFault}  # ("ff", group name) | ("agg",) | None


class Agg:
    """uninterpreted pixel aggregator: records (argument, axis); the result is an opaque function of the remaining indices"""

    calls = []

    def __init__(self, name):
        self.name = name

    def __call__(self, arr, axis=None):
        if FAULT["at"] == ("agg",):
            raise FAULT["cls"]("the pixel aggregator raises")
        arr = S.as_sa(arr)
        axes = (axis,) if isinstance(axis, int) else tuple(axis)
        axes = tuple(a + arr.ndim if a < 0 else a for a in axes)
        if any(a >= len(arr.dims) for a in axes):
            raise Unsupported("aggregation over the cell")
        k = len(Agg.calls)
        keep = [d for i, d in enumerate(arr.dims) if i not in axes]
        atoms = [a for d in keep for a in d]
        f = z3.Function(f"AGG_{self.name}_{k}", *([I] * len(atoms)), Vec)
        Agg.calls.append(dict(arr=arr.snapshot(), axes=axes, fn=f, atoms=atoms))
        return S.SA(keep, arr.cell, arr.sort, lambda env, atoms=atoms, f=f: f(*[env[a.id] for a in atoms]) if atoms else f())


# ------------------------------------------------------------------------------------------------ objects
def _sensor_class():
    import magpylib as magpy
    import magpylib._src.obj_classes.class_BaseGeo as BG

    ns = rebind(BG, dict(len=S.s_len))

    class SensorS(magpy.Sensor):
        orientation = property(_refunc(BG.BaseGeo.orientation.fget, ns))

    return SensorS


class Obj:
    """symbolic state of one object"""

    def __init__(self, name, short):
        self.name = name
        self.n = S.Poly.sym("n_" + name) if short else M
        self.P = z3.Function("P_" + name, I, Vec)
        self.Q = z3.Function("Q_" + name, I, Rot)

    def arrays(self):
        a1, a2 = S.Ax(self.n), S.Ax(self.n)
        pos = S.SA([[a1]], (3,), "vec", lambda env, a=a1: self.P(env[a.id]))
        ori = S.RotS(S.SA([[a2]], (4,), "quat", lambda env, a=a2: self.Q(env[a.id])))
        return pos, ori

    def clamp(self, m):
        nz = self.n.z3()
        return z3.If(m < nz, m, nz - 1)


def make_ff(gname, prop_names):
    F = {}

    def fun(field):
        if field not in F:
            F[field] = z3.Function(f"F_{gname}_{field}", Vec, *([S.Prop] * len(prop_names)), Vec)
        return F[field]

    def ff(field, observers, **props):
        if FAULT["at"] == ("ff", gname):
            raise FAULT["cls"](f"the field function of group {gname} raises")
        f = fun(field)
        obs = S.as_sa(observers)
        cur = S.SA(obs.dims, (3,), "tmp", (lambda env, e=S.fz(obs): (e(env),)), obs.pending)
        for pn in prop_names:
            p = S.as_sa(props[pn])
            p = S.SA(p.dims, (3,), "tmp", S.fz(p), p.pending)
            cur = S.elementwise(lambda t, x: t + (x,), cur, p, "tmp", cell=(3,))
        return S.SA(cur.dims, (3,), "vec", (lambda env, e=S.fz(cur): f(*e(env))), cur.pending)

    ff.__name__ = "ff_" + gname
    ff.F = F
    ff.fun = fun
    return ff


def build(spec):
    """-> (sources, sensors, leaves_of[l], objs dict name -> Obj, pc list); fresh objects (state is mutated by the run)"""
    import magpylib as magpy

    from standins.level2 import PropSource

    SensorS = _sensor_class()
    objs, pc, ffs = {}, [M.z3() >= 1], {}

    def obj(name, short):
        o = Obj(name, short)
        objs[name] = o
        if short:
            pc.extend([o.n.z3() >= 1, o.n.z3() < M.z3()])
        return o

    def mk(e):
        if e[0] == "s":
            _, name, short, group = e[:4]
            props = tuple(e[4]) if len(e) > 4 and e[4] else ()
            o = obj(name, short)
            ff = ffs.setdefault(group, make_ff(group, tuple(sorted(props))))
            if props:
                src = PropSource(field_func=None)
                for pn in props:
                    shape = (e[5] if len(e) > 5 else 2, 3) if pn == "vertices" else (3,)
                    c = z3.Const(f"{pn}_{name}", S.Prop)
                    setattr(src, pn, S.SA([], shape, "prop", lambda env, c=c: c))
            else:
                src = magpy.misc.CustomSource(field_func=None)
            src._field_func = ff
            src._position, src._orientation = o.arrays()
            src._sym, src._props = o, tuple(sorted(props))
            return src
        col = magpy.Collection()
        kids = [mk(x) for x in e[1]]
        col._children = kids
        col._sources = [k for k in kids if not isinstance(k, (magpy.Collection, magpy.Sensor))]
        col._collections = [k for k in kids if isinstance(k, magpy.Collection)]
        col._sensors = []
        for k in kids:
            k._parent = col
        return col

    sources = [mk(e) for e in spec["sources"]]
    sensors = []
    for name, short, pix, hand in spec["sensors"]:
        o = obj(name, short)
        s = SensorS(handedness=hand)
        s._position, s._orientation = o.arrays()
        s._sym = o
        o.PIX = z3.Function("pix_" + name, I, Vec)
        if pix is None:
            s._pixel, o.K = None, S.Poly.of(1)
        elif pix == "bare":
            s._pixel, o.K = S.SA([], (3,), "vec", lambda env, o=o: o.PIX(z3.IntVal(0))), S.Poly.of(1)
        else:
            o.K = S.Poly.of(1) if pix == "one" else S.Poly.sym(pix)
            ax = S.Ax(o.K)
            s._pixel = S.SA([[ax]], (3,), "vec", lambda env, o=o, ax=ax: o.PIX(env[ax.id]))
            if pix != "one":
                pc.append(o.K.z3() >= 1)
        o.pixkind = pix
        sensors.append(s)
    ks = sorted({s._sym.K for s in sensors if not s._sym.K.is_const}, key=repr)
    for a, b in itertools.combinations(ks, 2):
        pc.append(a.z3() != b.z3())  # different symbols stand for different pixel counts (equal counts: the same-symbol structures)
    return sources, sensors, objs, pc


def leaves(src):
    import magpylib as magpy

    if isinstance(src, magpy.Collection):
        out = []
        for c in src.children:
            if not isinstance(c, magpy.Sensor):
                out += leaves(c)
        return out
    return [src]


def vsum(ts):
    t = ts[0]
    for x in ts[1:]:
        t = vadd(t, x)
    return t


def expected_global(src, field, sens, m, k):
    """sum over the leaves of `src` of the leaf field at pixel k of the sensor, path index m, in the GLOBAL frame"""
    so = sens._sym
    ms = so.clamp(m)
    if so.pixkind is None:
        obs = so.P(ms)
    else:
        obs = vadd(act(so.Q(ms), so.PIX(k)), so.P(ms))
    parts = []
    for lf in leaves(src):
        o = lf._sym
        ml = o.clamp(m)
        loc = act(inv(o.Q(ml)), vsub(obs, o.P(ml)))
        f = lf._field_func.fun(field)  # the leaf's OWN field function, whether or not the code under test called it
        props = [z3.Const(f"{pn}_{o.name}", S.Prop) for pn in lf._props]
        parts.append(act(o.Q(ml), f(loc, *props)))
    return vsum(parts)


def in_sensor_frame(sens, m, v):
    so = sens._sym
    out = act(inv(so.Q(so.clamp(m))), v)
    return S.flipx(out) if sens.handedness == "left" else out


ALL_KINDS = frozenset(("element", "shape", "agg", "restore", "safety"))


def run_structure(rep, fnl, spec, field="B", sumup=False, squeeze=False, pixel_agg=None, tag="", fault=None, kinds=ALL_KINDS, set_reverse=False):
    """explores the real getBH_level2 on one structure; returns list of failure dicts.
    fault: ("ff", group) | ("agg",): that user-supplied callable raises; then only 'the injected exception propagates' and 'all paths restored' are obligations"""
    fw, _ = namespaces()
    fails = []
    state = {}

    def body():
        c = Ctx.cur
        SET_ORDER["reverse"] = set_reverse
        sources, sensors, objs, pc = build(spec)
        c.pc.extend(pc)
        c.axioms.extend(S.base_axioms())
        Agg.calls = []
        state.update(sources=sources, sensors=sensors, objs=objs)
        FAULT["at"] = tuple(fault[:2]) if fault and fault[0] == "ff" else (("agg",) if fault else None)
        FAULT["cls"] = InjectedInterrupt if fault and fault[-1] == "interrupt" else InjectedFault
        try:
            with warnings.catch_warnings():
                warnings.simplefilter("ignore")
                out = fw["getBH_level2"](sources, sensors, field=field, sumup=sumup, squeeze=squeeze, pixel_agg=pixel_agg, output="ndarray", in_out="auto")
        except (InjectedFault, InjectedInterrupt):
            return "raised", list(Agg.calls)
        finally:
            FAULT["at"] = None
        return out, list(Agg.calls)

    npth = 0
    for ctx, (kind, res) in explore(body, max_paths=400):
        npth += 1
        rep.paths += 1
        base = f"getBH_level2[{tag}]@path{npth}"
        if kind == "unsupported":
            rep.obligation(base + ".runs-to-completion", {"status": "unknown", "backend": "symex", "time_s": 0, "reason": f"{type(res).__name__}: {res}"[:300]}, fnl)
            continue
        if kind == "exc":
            # the real code raised on valid input: a failure of the value obligations; for the restore obligations it is one more exit to be checked
            if kinds & {"element", "shape", "agg"}:
                rep.obligation(base + ".runs-to-completion", {"status": "refuted", "backend": "symex", "time_s": 0, "reason": f"{type(res).__name__}: {res}"[:300]}, fnl)
                fails.append(dict(name=base + ".runs-to-completion", why=f"raised {type(res).__name__}: {res}"))
            res = ("raised", [])
            if "restore" not in kinds:
                continue
        out, aggcalls = res
        sources, sensors, objs = state["sources"], state["sensors"], state["objs"]
        assum = list(ctx.pc) + list(ctx.axioms)
        m, k = z3.Int("m_idx"), z3.Int("k_idx")

        def prove(name, hyps, goal, kind_="post", sample=False):
            r = solve.discharge_quantified(assum + hyps, goal)
            rep.obligation(name, r, fnl, kind_, sample=solve.sample_smt2((assum + hyps)[:6], goal) if sample else None)
            if r["status"] == "refuted":
                fails.append(dict(name=name, why="counter-model found by the solver"))
            return r["status"] == "discharged"

        # --- safety obligations recorded by the shim (slices / indices within bounds)
        seen = set()
        for j, (pc_, ax_, f_, label, kd) in enumerate(ctx.oblig if "safety" in kinds else []):
            key = (f_.sexpr(), label)
            if key in seen:
                continue
            seen.add(key)
            if z3.is_true(z3.simplify(f_)):
                r = {"status": "discharged", "backend": "z3-simplify", "time_s": 0.0}
            else:
                r = solve.discharge_quantified(pc_ + ax_, f_)
            if r["status"] == "refuted":
                # NumPy clips out-of-range slices silently: relying on that is legal; whether the RESULT is right is decided by the element obligations
                r = dict(r, status="unknown", reason="a slice / index is not provably within bounds (NumPy would clip or raise)")
            rep.obligation(f"{base}.safety{j}.{label.replace(' ', '-')}", r, fnl, "safety")
        # --- C08: every path restored
        import magpylib as magpy

        allobjs = [lf for s_ in sources for lf in leaves(s_)] + sensors
        for ob in ({id(o): o for o in allobjs}.values() if "restore" in kinds else []):
            so = ob._sym
            pos, ori = ob._position, ob._orientation
            okshape = isinstance(pos, S.SA) and len(pos.dims) == 1 and isinstance(ori, S.RotS) and len(ori.q.dims) == 1
            if not okshape:
                rep.obligation(f"{base}.paths-restored[{so.name}]", {"status": "refuted", "backend": "structural", "time_s": 0}, fnl, "frame")
                fails.append(dict(name=f"{base}.paths-restored[{so.name}]", why="path arrays have another rank after the call"))
                continue
            i = z3.Int("i_path")
            envp = {a.id: i for a in pos.atoms()}
            envq = {a.id: i for a in ori.q.atoms()}
            goal = z3.And(S.dim_size(pos.dims[0]).z3() == so.n.z3(), S.dim_size(ori.q.dims[0]).z3() == so.n.z3(),
                          z3.Implies(z3.And(0 <= i, i < so.n.z3()), z3.And(pos.elem(envp) == so.P(i), ori.q.elem(envq) == so.Q(i))))
            prove(f"{base}.paths-restored[{so.name}](length-and-every-entry)" + ("-after-the-injected-exception" if fault else ""), [], goal, "frame")
        if isinstance(out, str) and not fault:
            continue  # raised without an injected fault: only the restore obligations above apply
        if fault:
            okf = isinstance(out, str) and out == "raised"
            rep.obligation(base + ".injected-exception-propagates-to-the-caller", {"status": "discharged" if okf else "refuted", "backend": "symex", "time_s": 0}, fnl, "exceptional")
            if not okf:
                fails.append(dict(name=base + ".injected-exception-propagates", why="the exception raised by the user-supplied callable was swallowed"))
            continue
        if not (kinds & {"element", "shape", "agg"}):
            continue
        # --- shape of the output
        L = 1 if sumup else len(sources)
        Sn = len(sensors)
        Ks = [s_._sym.K for s_ in sensors]
        same = len({repr(x) for x in Ks}) == 1
        if not isinstance(out, S.SA) or out.cell != (3,) or out.sort != "vec":
            rep.obligation(base + ".output-is-a-vector-array", {"status": "refuted", "backend": "structural", "time_s": 0}, fnl)
            fails.append(dict(name=base + ".output", why="output is not an array of 3-vectors"))
            continue
        want = [("L", S.Poly.of(L)), ("M", M), ("S", S.Poly.of(Sn))]
        if pixel_agg is None:
            want.append(("K", Ks[0]))
        elif not squeeze:
            want.append(("agg", S.Poly.of(1)))
        if squeeze:
            want2 = []
            for nm, p in want:
                if p.is_const:
                    if p.value != 1:
                        want2.append((nm, p))
                elif ctx.check(p.z3() != 1) != z3.unsat:  # symbolic size: kept unless the path says it is 1
                    if ctx.check(p.z3() == 1) == z3.unsat:
                        want2.append((nm, p))
                    else:
                        want2 = None
                        break
            if want2 is None:
                rep.obligation(base + ".squeeze-decided-the-size-1-question", {"status": "unknown", "backend": "symex", "time_s": 0, "reason": "size neither 1 nor > 1 on this path"}, fnl)
                continue
            want = want2
        got = [S.dim_size(d) for d in out.dims]
        okr = len(got) == len(want)
        shp_goal = z3.And(*[g.z3() == w.z3() for g, (_, w) in zip(got, want)]) if okr else z3.BoolVal(False)
        if not prove(base + f".output-shape=({','.join(nm for nm, _ in want)},3)", [], shp_goal):
            continue
        # --- elements
        axis_of = {nm: d for (nm, _), d in zip(want, out.dims)}
        for l in range(L):
            for si, sens in enumerate(sensors):
                so = sens._sym
                env = {}
                for nm, d in axis_of.items():
                    if len(d) != 1:
                        env = None
                        break
                    env[d[0].id] = {"L": z3.IntVal(l), "M": m, "S": z3.IntVal(si), "K": k, "agg": z3.IntVal(0)}[nm]
                if env is None:
                    rep.obligation(base + f".element[{l},{si}]", {"status": "unknown", "backend": "symex", "time_s": 0, "reason": "composite output axis"}, fnl)
                    continue
                rng = [0 <= m, m < M.z3(), 0 <= k, k < so.K.z3()]
                if "M" not in axis_of:
                    rng.append(m == 0)
                if "K" not in axis_of and pixel_agg is None:
                    rng.append(k == 0)
                srcs = sources if sumup else [sources[l]]
                try:
                    if pixel_agg is None:
                        expv = in_sensor_frame(sens, m, vsum([expected_global(s_, field, sens, m, k) for s_ in srcs])) if not sumup else \
                            vsum([in_sensor_frame(sens, m, expected_global(s_, field, sens, m, k)) for s_ in srcs])
                        prove(base + f".element[source {l}, path m, sensor {si}, pixel k]=prescribed-term", rng, out.elem(env) == expv,
                              sample=(npth == 1 and l == 0 and si == 0))
                    else:
                        _agg_obligations(rep, prove, base, aggcalls, out, env, sources, sensors, l, si, sens, m, k, rng, field, sumup, same)
                except Unsupported as e:
                    rep.obligation(base + f".element[{l},{si}]", {"status": "unknown", "backend": "symex", "time_s": 0, "reason": str(e)[:200]}, fnl)
    if npth == 0:
        raise RuntimeError("vacuity: no feasible path for structure " + tag)
    return fails


def _agg_obligations(rep, prove, base, aggcalls, out, env, sources, sensors, l, si, sens, m, k, rng, field, sumup, same):
    """pixel_agg given: the aggregator saw exactly the per-pixel sensor-frame values of sensor si along the pixel axis, and its value is returned"""
    Ls = len(sources)
    call = aggcalls[0] if same else aggcalls[si]
    arr = call["arr"]
    # the aggregated array: dims (L', M, S, K) [same pixel shape] or (L', M, K_si) [one call per sensor]
    nd = len(arr.dims)
    exp_axes = (3,) if same else (2,)
    okax = call["axes"] == exp_axes and nd == (4 if same else 3)
    rep.obligation(base + f".aggregator-call[{l},{si}].over-the-pixel-axis", {"status": "discharged" if okax else "refuted", "backend": "structural", "time_s": 0}, "")
    if not okax:
        return
    rows = range(Ls)
    tot = None
    for ll in rows:
        e = {}
        names = ["L", "M", "S", "K"] if same else ["L", "M", "K"]
        bad = False
        for nm, d in zip(names, arr.dims):
            if len(d) != 1:
                bad = True
                break
            e[d[0].id] = {"L": z3.IntVal(ll), "M": m, "S": z3.IntVal(si), "K": k}[nm]
        if bad:
            raise Unsupported("composite axis in the aggregated array")
        expv = in_sensor_frame(sens, m, expected_global(sources[ll], field, sens, m, k))
        klen = S.dim_size(arr.dims[-1]).z3()
        prove(base + f".aggregator-argument[source {ll}, path m, sensor {si}, pixel k]=prescribed-term,pixel-axis-length=K",
              rng, z3.And(arr.elem(e) == expv, klen == sens._sym.K.z3()))
        # value returned by the aggregator at (ll, m[, si])
        idx = [z3.IntVal(ll), m] + ([z3.IntVal(si)] if same else [])
        v = call["fn"](*idx)
        tot = v if tot is None else vadd(tot, v)
        if not sumup and ll == l:
            prove(base + f".element[source {l}, path m, sensor {si}]=aggregator-result", rng, out.elem(env) == v)
    if sumup:
        prove(base + f".element[sum, path m, sensor {si}]=sum-of-aggregator-results", rng, out.elem(env) == tot)


# ------------------------------------------------------------------------------------------------ structures
def structures(tier):
    out = []
    s = lambda name, short, g, props=None, kk=2: ("s", name, short, g, props, kk)
    # A: two sources of different groups, one sensor; pixel formats x handedness x which object is short
    for (sa, sb, sk), pix, hand in itertools.product([(False, False, False), (True, False, False), (False, False, True), (True, True, False)],
                                                     [None, "bare", "K", "one"], ("right", "left")):
        out.append(("A", dict(sources=[s("a", sa, "g1"), s("b", sb, "g2")], sensors=[("k", sk, pix, hand)])))
    # B: sources sharing a group (tiling inside the group), properties incl. ragged vertices, two sensors with equal pixel counts
    for sa, sk, pix in itertools.product((False, True), (False, True), ("K", None)):
        pp = ("polarization", "dimension")
        out.append(("B", dict(sources=[s("a", sa, "g1", pp), s("b", False, "g1", pp), s("c", True, "g2"), s("d", sa, "g1", pp)],
                              sensors=[("k", sk, pix, "right"), ("j", not sk, pix, "left")])))
        out.append(("B'", dict(sources=[s("a", sa, "g3", ("vertices",), 2), s("b", False, "g3", ("vertices",), 3), s("c", True, "g3", ("vertices",), 2)],
                               sensors=[("k", sk, pix, "right")])))
    # C: collections (nested), interleaved groups, duplicates of one group on both sides of a collection
    for sa, sk in itertools.product((False, True), (False, True)):
        out.append(("C", dict(sources=[("c", [s("a", sa, "g1"), s("b", False, "g2"), ("c", [s("e", True, "g1")])]), s("c", False, "g1"), ("c", [s("d", sa, "g2")])],
                              sensors=[("k", sk, "K", "right"), ("j", False, "K", "left")])))
    # D: arrangements of top-level entries (source | collection of 1, 2, 3 leaves | nested collection), up to 3 (thorough: 4) entries
    kinds = ("s", "c1", "c2", "c3", "cn")
    cnt = [0]

    def entry(kd):
        cnt[0] += 1
        nm = f"x{cnt[0]}"
        short = cnt[0] % 2 == 0
        g = ["g1", "g2"][cnt[0] % 2]
        if kd == "s":
            return s(nm, short, g)
        if kd == "cn":
            return ("c", [s(nm + "a", False, "g1"), ("c", [s(nm + "b", short, "g2")])])
        return ("c", [s(f"{nm}{i}", short if i == 0 else (i % 2 == 1), ["g1", "g2"][i % 2]) for i in range(int(kd[1]))])

    for Ln in (1, 2, 3, 4) if tier == "thorough" else (1, 2, 3):
        for combo in itertools.product(kinds, repeat=Ln):
            code = sum(kinds.index(x) * 7 ** j for j, x in enumerate(combo))
            if (tier == "quick" and Ln == 3 and code % 5) or (Ln == 4 and code % 4):
                continue
            cnt[0] = 0
            out.append(("D", dict(sources=[entry(kd) for kd in combo], sensors=[("k", False, "K", "right")])))
    return out


def random_structures(seed, count):
    """thorough tier: structures drawn at random (top-level entries, nesting, groups, which paths are shorter, sensors and pixel formats)"""
    import random

    rnd = random.Random(seed)
    out = []
    for _ in range(count):
        cnt = [0]

        def src():
            cnt[0] += 1
            props = rnd.choice([None, None, ("polarization",), ("polarization", "dimension")])
            g = rnd.choice(["g1", "g2", "g3"])
            if props:
                g = g + "p" + str(len(props))  # one property signature per group
            return ("s", f"r{cnt[0]}", rnd.random() < 0.4, g, props, 2)

        def entry(depth=0):
            k = rnd.random()
            if k < 0.45 or depth >= 2:
                return src()
            return ("c", [entry(depth + 1) for _ in range(rnd.randint(1, 3))])

        sources = [entry() for _ in range(rnd.randint(1, 4))]
        pix = rnd.choice(["K", "K", None, "bare", "one"])
        sensors = [(f"k{j}", rnd.random() < 0.4, pix, rnd.choice(["right", "left"])) for j in range(rnd.randint(1, 2))]

        def any_full(es):
            return any((any_full(e[1]) if e[0] == "c" else not e[2]) for e in es)

        if not any_full(sources) and all(sh for _, sh, _, _ in sensors):
            sensors[0] = (sensors[0][0], False) + sensors[0][2:]  # M is the LONGEST path: at least one object has it
        out.append(("R", dict(sources=sources, sensors=sensors)))
    return out


def variants(fam, spec, tier):
    """(field, sumup, squeeze, pixel_agg) combinations run for a structure"""
    v = [("B", False, False, None)]
    if fam in ("A", "C", "R"):
        v += [("B", True, False, None), ("H", False, True, None)]
    if fam in ("A", "B") and all(x[2] not in (None, "bare") for x in spec["sensors"]):
        v += [("B", False, False, "mean")]
    if tier == "thorough":
        v += [("B", True, True, None), ("B", True, False, "mean") if all(x[2] not in (None, "bare") for x in spec["sensors"]) else ("J", False, False, None)]
    return v


def mixed_pixel_structures(tier="thorough"):
    s = lambda name, short, g: ("s", name, short, g, None, 2)
    out = []
    for sk in (False, True):
        sens = [("k", sk, "Ka", "right"), ("j", False, "Kb", "left")] + ([("i", False, None, "right")] if tier == "thorough" else [])
        out.append(("E", dict(sources=[s("a", False, "g1"), ("c", [s("b", True, "g2"), s("c", False, "g1")])], sensors=sens)))
    return out


def _standin_spec(spec):
    """the structure as a concrete instance for the term-exact NumPy harness (standins/level2.py): M = 3, shorter paths n = 2, K = 2, K_a = 2, K_b = 3"""
    def src(e):
        if e[0] == "c":
            return ["c", [src(x) for x in e[1]]]
        _, name, short, g, props, kk = e
        return ["s", name, 2 if short else 3, "var", g] + ([list(props), kk] if props else [])

    pix = {None: None, "bare": [3], "K": [2, 3], "Ka": [2, 3], "Kb": [3, 3], "one": [1, 3]}
    return dict(sources=[src(e) for e in spec["sources"]], sensors=[[n, 2 if sh else 3, "var", pix[p], h] for n, sh, p, h in spec["sensors"]])


REPLAY = """import sys, json
from standins import level2
spec, kw = json.loads({spec!r}), json.loads({kw!r})
spec['sources'] = level2._detuple(spec['sources']); spec['sensors'] = [tuple(x[:3]) + (tuple(x[3]) if x[3] else None, x[4]) for x in spec['sensors']]
ns = level2.harness_ns()
sources, sensors = level2.build(spec)
n, msgs = level2.check_structure(ns, sources, sensors, **kw)
for m in msgs: print(m)
print('concrete instance of the structure (M=3, shorter paths 2, K=2): elements compared:', n, 'mismatches:', len(msgs))
sys.exit(1 if msgs else 0)
"""


def report_fails(rep, fails):
    """a refuted obligation is replayed on a concrete instance of its structure with real NumPy (term-exact harness)"""
    import json

    from standins import level2

    seen = set()
    for f in fails:
        key = (f["tag"], f["name"].split("@")[1].split(".", 1)[1] if "@" in f["name"] else f["name"])
        if key in seen or len(seen) >= 3:
            continue
        seen.add(key)
        sp = _standin_spec(f["spec"])
        kw = dict(field=f["field"], sumup=f["sumup"], pixel_agg=f["pixel_agg"])
        msgs = None
        if f.get("fault"):
            # a fault-injection obligation: replay through the public API with a field function / aggregator that raises (checks/c08.py)
            from checks.c08 import REPLAY_NATIVE, native_faults

            try:
                _, bad = native_faults(0)
            except Exception as e:  # pylint: disable=broad-except
                bad = ["a later call on the same objects raised " + repr(e)]
            payload = {"why": f["why"], "structure": f["spec"], "call": kw, "fault": list(f["fault"]), "solver_output": f.get("why", "")}
            if bad:
                payload.update(native_result=bad[:4], script=REPLAY_NATIVE.format(seed=0))
                rep.violation(f["name"], payload)
            else:
                rep.violation(f["name"], payload, found_input=False)
            continue
        try:
            spec2 = dict(sources=level2._detuple(sp["sources"]), sensors=[tuple(x[:3]) + (tuple(x[3]) if x[3] else None, x[4]) for x in sp["sensors"]])
            sources, sensors = level2.build(spec2)
            _, msgs = level2.check_structure(level2.harness_ns(), sources, sensors, **kw)
        except Exception as e:  # pylint: disable=broad-except
            msgs = [f"raised {type(e).__name__}: {e}"]
        payload = {"why": f["why"], "structure": f["spec"], "call": kw, "solver_output": f.get("why", "")}
        if msgs:
            payload.update(native_result=msgs[:5], script=REPLAY.format(spec=json.dumps(sp), kw=json.dumps(kw)))
            rep.violation(f["name"], payload)
        else:
            rep.violation(f["name"], payload, found_input=False)


def _groups(entries):
    for e in entries:
        if e[0] == "c":
            yield from _groups(e[1])
        else:
            yield e[3]


def jobs_for(tier, fams, stride=None, faults=False, seed=0):
    jobs = []
    extra_structs = random_structures(seed, 40) if tier == "thorough" else []
    for fam, spec in structures(tier) + extra_structs:
        for (field, sumup, squeeze, agg) in variants(fam, spec, tier):
            jobs.append((fam, spec, field, sumup, squeeze, agg))
    for fam, spec in mixed_pixel_structures(tier):
        jobs.append((fam, spec, "B", False, False, "mean"))
        jobs.append((fam, spec, "B", True, True, "mean"))
    jobs = [j + (None,) for j in jobs if fams is None or j[0] in fams or j[0] == "R"]
    if faults:
        extra = []
        for j in jobs:
            fam, spec, field, sumup, squeeze, agg, _ = j
            if sumup or squeeze or field != "B":
                continue
            groups = sorted({g for g in _groups(spec["sources"])})
            for g in groups:
                extra.append((fam, spec, field, sumup, squeeze, agg, ("ff", g, "exception")))
                extra.append((fam, spec, field, sumup, squeeze, agg, ("ff", g, "interrupt")))
            if agg:
                extra.append((fam, spec, field, sumup, squeeze, agg, ("agg", "exception")))
                extra.append((fam, spec, field, sumup, squeeze, agg, ("agg", "interrupt")))
        jobs = jobs + extra
    if tier == "quick" and stride:
        keep = []
        cnt = {}
        for j in jobs:
            c = cnt.get(j[0], 0)
            cnt[j[0]] = c + 1
            if c % stride.get(j[0], 1) == 0:
                keep.append(j)
        jobs = keep
    return jobs


def run(rep, tier, fams=None, stride=None, faults=False, kinds=ALL_KINDS):
    """obligations of the level-2 evaluation for the structure families `fams`; returns failures (see report_fails)"""
    import magpylib._src.fields.field_wrap_BH as FW
    import magpylib._src.input_checks as IC
    import magpylib._src.utility as UT
    from engine import shape_crosscheck
    from engine.par import run_parallel

    for f in (FW.getBH_level2, FW.get_src_dict, FW.tile_group_property, FW.getBH_level1, UT.format_src_inputs, UT.format_obj_input,
              UT.check_static_sensor_orient, IC.check_format_input_observers, IC.check_dimensions, IC.check_excitations):
        rep.function(describe(f))
    fnl = describe(FW.getBH_level2)["function"]
    shape_crosscheck.attach(rep)
    rep.assumed_contract("scipy Rotation: from_quat∘as_quat = identity, apply = group action, inv = group inverse; iteration / indexing / len as for arrays")
    rep.assume("level-2 obligations (checks/l2sym.py) hold for every path length M >= 1, every shorter path length 1 <= n < M, every pixel count K >= 1, all "
               "positions / orientations / field functions; the STRUCTURE (numbers of sources, collections, sensors; nesting; groups) is enumerated: "
               "<= 4 top-level sources, <= 3 leaves per collection, nesting depth 2, <= 3 sensors; pixel arrays of rank <= 2 ((K,3), (3,), None)")
    rep.assume("iteration order of `set(src_list + sensors)` in getBH_level2 (address-ordered in CPython, different on every run): executed with insertion order "
               "and with reversed insertion order (alternating from structure to structure); other orders are assumed to behave alike — the loop over the "
               "set only pads each object's own path")
    jobs = jobs_for(tier, fams, stride, faults, seed=rep.seed)
    if not jobs:
        raise RuntimeError("vacuity: no level-2 structure selected")
    tasks = []
    for i, (fam, spec, field, sumup, squeeze, agg, fault) in enumerate(jobs):
        tag = f"{fam}{i}:{field}{',sumup' if sumup else ''}{',squeeze' if squeeze else ''}{',agg=' + agg if agg else ''}{',fault=' + '/'.join(fault) if fault else ''}"

        def task(sub, spec=spec, field=field, sumup=sumup, squeeze=squeeze, agg=agg, tag=tag, fault=fault, rev=bool(i % 2)):
            old = solve.RECHECK_EVERY
            solve.RECHECK_EVERY = 40  # thorough tier: cvc5 second opinion on every 40th of these (many, similar) VCs
            try:
                fl = run_structure(sub, fnl, spec, field, sumup, squeeze, agg, tag=tag, fault=fault, kinds=frozenset(kinds), set_reverse=rev)
            finally:
                solve.RECHECK_EVERY = old
            for f in fl:
                f.update(spec=spec, field=field, sumup=sumup, pixel_agg=agg, tag=tag, fault=fault)
            return fl

        tasks.append((tag, task))
    return run_parallel(rep, tasks)
