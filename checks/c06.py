"""C06 — each output element depends only on its own source, path index and observer.

P1 (proof): non-interference of batch-global values in every BHJM wrapper: the wrapper is run
row-generically to path exhaustion; for ANY two feasible global situations (any()/all()/len of the
batch) that are consistent with the same row, the row's result must be the same.
P2 (proof): the grouping loop of BHJM_magnet_trimesh, cut with an inductive invariant (checks/c06_trimesh.py).
SI (bounded): term-exact execution of getBH_level2 (element provenance), vectorised == element-wise natively.
"""
import itertools
import json

import numpy as np
import z3

from contracts.bhjm import MU0, WRAPPERS
from engine import solve
from engine.par import run_parallel
from engine.rebind import describe
from engine.report import Report, load_known
from engine.rowgen import NROWS

PID = "C06"


def _globals_of(exprs):
    seen, out = set(), {}

    def walk(t):
        if t.get_id() in seen:
            return
        seen.add(t.get_id())
        if z3.is_const(t) and t.decl().kind() == z3.Z3_OP_UNINTERPRETED:
            nm = t.decl().name()
            if nm.startswith(("any_", "all_", "count_")) or nm == "n_rows":
                out[nm] = t
        for c in t.children():
            walk(c)

    for e in exprs:
        walk(e)
    return out


def _prime(exprs, gl):
    sub = [(v, z3.Const(k + "__other_batch", v.sort())) for k, v in gl.items()]
    return [z3.substitute(e, *sub) for e in exprs]


def noninterference(rep, name):
    from checks.c02 import _row_model

    sp = WRAPPERS[name]
    fn = describe(sp.real())
    rep.function(fn)
    fails = []
    args = sp.fresh_args()
    for f in "BHJM":
        paths = [p for p in sp.run(f, args=args) if "out" in p]
        from contracts.bhjm import report_problems

        report_problems(rep, sp, f"{name}.{f}", fn["function"])
        rep.paths += len(paths)
        for (i, p1), (j, p2) in itertools.combinations_with_replacement(list(enumerate(paths, 1)), 2):
            gl = _globals_of(p2["pc"] + p2["ax"] + p2["out"])
            pc2 = _prime(p2["pc"] + p2["ax"], gl)
            out2 = _prime(p2["out"], gl)
            assum = p1["pc"] + p1["ax"] + pc2
            s = z3.Solver()
            s.set("timeout", 20000)
            s.add(*assum)
            if s.check() == z3.unsat:
                continue  # the two global situations never share a row
            goal = z3.And(*[a == b for a, b in zip(p1["out"], out2)])
            r = solve.discharge(assum, goal)
            nm = f"{name}.{f}.row-result-independent-of-batch[path{i}~path{j}]"
            rep.obligation(nm, r, fn["function"], "noninterference",
                           sample=solve.sample_smt2(assum[:5], goal) if (name, f, i, j) == ("Cylinder", "B", 1, 2) else None)
            if r["status"] == "refuted":
                fails.append(dict(name=nm, wrapper=name, field=f, why="row result depends on what else is in the batch",
                                  row=_row_model(r["model"], args) if r.get("model") is not None else None))
    return fails


# ------------------------------------------------------------------------------------------------
def native_batch_independence(name, rows, field):
    """real library: evaluate each row alone and in the batch; returns list of (i, msg)"""
    sp = WRAPPERS[name]
    f = sp.real()
    a = {k: np.array(v, dtype=float) for k, v in rows.items()}
    with np.errstate(all="ignore"):
        full = f(field, **{k: v.copy() for k, v in a.items()}, **sp.extra_kwargs)
        bad = []
        for i in range(len(full)):
            one = f(field, **{k: v[i:i + 1].copy() for k, v in a.items()}, **sp.extra_kwargs)[0]
            if not np.allclose(one, full[i], rtol=1e-10, atol=1e-300, equal_nan=True):
                bad.append((i, f"{field}: alone {one.tolist()} vs in batch {full[i].tolist()}"))
    return bad


def native_trimesh(seed, quick=True):
    """real library: several TriangularMesh sources in one call vs each alone; adversarial mesh families
    (same face count, same coordinate sum, shared first facets, different sizes). returns list of messages"""
    import itertools
    import warnings

    import magpylib as magpy

    warnings.simplefilter("ignore")
    rng = np.random.default_rng(seed)

    def hull(pts, pol=(0.1, 0.2, 0.3)):
        return magpy.magnet.TriangularMesh.from_ConvexHull(points=np.array(pts, dtype=float), polarization=pol)

    def cube(a):
        return hull([(x, y, z) for x in (-a, a) for y in (-a, a) for z in (-a, a)])

    def pyramid(h):
        return hull([(0, 0, 0), (1, 0, 0), (0, 1, 0), (1, 1, 0), (0.5, 0.5, h)])

    def tetra(h):
        v = np.array([(0, 0, 0), (1, 0, 0), (0, 1, 0), (0.3, 0.3, h)], dtype=float)
        return magpy.magnet.TriangularMesh(vertices=v, faces=[(0, 2, 1), (0, 1, 3), (1, 2, 3), (0, 3, 2)], polarization=(0.1, 0.2, 0.3))

    fams = {
        "tetrahedra with an identical first facet": [tetra(0.4), tetra(2.0), tetra(1.0)],
        "concentric cubes (same facet count, same coordinate sum)": [cube(0.5), cube(2.0), cube(1.0)],
        "pyramids on one base (shared facets)": [pyramid(0.5), pyramid(2.0), pyramid(1.0)],
        "cube + pyramid (different facet counts)": [cube(0.5), pyramid(2.0), cube(2.0)],
    }
    obs = np.array([(0.3, 0.3, 0.3), (0.3, 0.3, 0.8), (1.2, 0.1, 0.3), (0.5, 0.5, 1.4), (5.0, 5.0, 5.0), (-0.3, -0.2, 0.2)])
    bad = []
    for name, meshes in fams.items():
        alone = {id(m): {f: getattr(magpy, "get" + f)(m, obs) for f in "BHJM"} for m in meshes}
        orders = list(itertools.permutations(range(len(meshes)), 2)) + list(itertools.permutations(range(len(meshes)), 3))
        for order in orders:
            srcs = [meshes[i] for i in order]
            for o_sel in (slice(None), slice(1, 2)):
                for f in "BHJM":
                    got = getattr(magpy, "get" + f)(srcs, obs[o_sel], squeeze=False)[:, 0, 0]
                    for l, m in enumerate(srcs):
                        exp = alone[id(m)][f][o_sel].reshape(got[l].shape)
                        if not np.allclose(got[l], exp, rtol=1e-9, atol=1e-14):
                            bad.append(f"{name}: get{f} of sources {list(order)} with {len(np.atleast_2d(obs[o_sel]))} observer(s): entry {l} differs from that source alone")
                            break
            if quick and len(bad) > 3:
                return bad
    return bad


def native_polylines(seed):
    """several Polyline sources (equal and ragged vertex counts, different currents) in one call == each alone"""
    import itertools
    import warnings

    import magpylib as magpy

    warnings.simplefilter("ignore")
    rng = np.random.default_rng(seed)
    obs = rng.normal(size=(4, 3)) * 2 + 3
    bad = []
    lines = [magpy.current.Polyline(vertices=rng.normal(size=(k, 3)), current=c) for k, c in ((3, 1.0), (3, -2.5), (3, 0.7), (2, 4.0), (5, 1.5), (4, -1.0))]
    alone = {id(l): {f: getattr(magpy, "get" + f)(l, obs) for f in "BH"} for l in lines}
    for sel in [(0, 1, 2), (0, 1), (2, 1, 0), (0, 3, 1), (3, 4, 5), (0, 4, 1, 5, 2), (1, 1, 0)]:
        srcs = [lines[i] for i in sel]
        for f in "BH":
            got = getattr(magpy, "get" + f)(srcs, obs, squeeze=False)[:, 0, 0]
            for l, src in enumerate(srcs):
                if not np.allclose(got[l], alone[id(src)][f], rtol=1e-9, atol=1e-16, equal_nan=True):
                    bad.append(f"Polylines {list(sel)} (vertex counts {[len(x.vertices) for x in srcs]}, currents {[x.current for x in srcs]}): get{f} entry {l} differs from that source alone")
                    break
    return bad


REPLAY_PL = """import sys
from checks.c06 import native_polylines
bad = native_polylines({seed})
for b in bad[:6]: print(b)
sys.exit(1 if bad else 0)
"""

REPLAY_TM = """import sys
from checks.c06 import native_trimesh
bad = native_trimesh({seed})
for b in bad[:6]: print(b)
sys.exit(1 if bad else 0)
"""

REPLAY = """import sys, json
from checks.c06 import native_batch_independence
name, rows, field = {name!r}, json.loads({rows!r}), {field!r}
bad = native_batch_independence(name, rows, field)
for i, msg in bad: print('row', i, msg)
sys.exit(1 if bad else 0)
"""


def main(tier, seed):
    from checks.c02 import gen_rows

    rep = Report(PID, tier, seed, "proof")
    from engine import crosscheck

    crosscheck.attach(rep, seed)
    rep.assumed_contract("core field functions are row-wise: PROVED here for magnet_cuboid_Bfield, dipole_Hfield, triangle_Bfield, current_polyline_Hfield, check_chirality (real code under the shim, "
                         "checks/c06_cores.py), also current_circle_Hfield, magnet_cylinder_axial_Bfield, magnet_cylinder_diametral_Hfield with cel / cel_iter / ellipe / ellipk as row-wise stubs, and point_inside; ASSUMED for magnet_cylinder_segment_Hfield (2000 lines of case analysis over el3)")
    rep.assume("cel / el3 / ellipe / ellipk / KD-tree routines row-wise (bounded numeric stand-in only)")
    rep.explanation = "non-interference of batch-global values per wrapper and core; trimesh loop invariant; level-2 provenance for all path lengths and pixel counts (checks/l2sym.py)"
    names = list(WRAPPERS)
    tasks = [(nm, (lambda r, nm=nm: noninterference(r, nm))) for nm in names]
    from checks import c06_cores
    from contracts.bhjm import CORES

    for cn in CORES:
        if getattr(CORES[cn], "skip_rowwise", False):
            continue  # non-interference of this core stays an assumed contract (stated above)
        tasks.append((f"core.{cn}", lambda r, cn=cn: c06_cores.rowwise(r, cn)))
    try:
        from checks import c06_trimesh

        tasks.append(("trimesh-loop", lambda r: c06_trimesh.run(r, tier)))
    except ImportError:
        rep.notes.append("trimesh loop obligations not built")
    fails = run_parallel(rep, tasks)
    rng = np.random.default_rng(seed + 7)
    bad_tm = native_trimesh(seed)
    rep.standin("native: several TriangularMesh sources in one call == each source alone (adversarial mesh families, all orders, B/H/J/M)",
                "4 families x all ordered pairs/triples x {6 observers, 1 observer}", 4 * 12 * 2 * 4, 4 * 12 * 2, "concentric cubes, shared-base pyramids, mixed facet counts",
                [dict(family="concentric cubes", order=[0, 1])], failures=len(bad_tm), exhaustive=True)
    for f in fails:
        nm = f["wrapper"]
        found = None
        if nm == "TriangularMesh" and bad_tm:
            rep.violation(f["name"], {"why": f["why"], "native_result": bad_tm[0], "script": REPLAY_TM.format(seed=seed)})
            continue
        if nm in WRAPPERS:
            cands = []
            if f.get("row"):
                other = gen_rows(nm, rng, 3)
                cands.append({k: [v] + other[k] for k, v in f["row"].items()})
            cands.append(gen_rows(nm, rng, 300))
            for rows in cands:
                bad = native_batch_independence(nm, rows, f.get("field", "B"))
                if bad:
                    found = (rows if len(rows["observers"]) <= 4 else {k: [v[bad[0][0]], v[(bad[0][0] + 1) % len(v)]] for k, v in rows.items()}, bad[0][1])
                    if not native_batch_independence(nm, found[0], f.get("field", "B")):
                        found = (rows, bad[0][1])
                    break
        if found:
            rep.violation(f["name"], {"why": f["why"], "input": found[0], "native_result": found[1],
                                      "script": REPLAY.format(name=nm, rows=json.dumps(found[0]), field=f.get("field", "B"))})
        else:
            rep.violation(f["name"], {"why": f["why"], "solver_output": json.dumps(f.get("row"))}, found_input=False)
    bad_pl = native_polylines(seed)
    rep.standin("native: several Polyline sources (equal / ragged vertex counts, different currents) in one call == each source alone", "7 source selections x B,H",
                14, 7, "fixed selections incl. duplicates and mixed vertex counts", [dict(selection=[0, 1, 2], currents=[1.0, -2.5, 0.7])], failures=len(bad_pl), exhaustive=True)
    if bad_pl:
        rep.violation("standin.polylines-in-one-call", {"native_result": bad_pl[0], "script": REPLAY_PL.format(seed=seed)})
    if bad_tm and not any(f["wrapper"] == "TriangularMesh" for f in fails):
        rep.violation("standin.trimesh-sources-in-one-call", {"native_result": bad_tm[0], "script": REPLAY_TM.format(seed=seed)})
    # bounded stand-in: vectorised == element-wise natively
    nrows = 60 if tier == "quick" else 600
    total = nbad = 0
    for nm in names:
        rows = gen_rows(nm, rng, nrows)
        for fld in "BHJM":
            bad = native_batch_independence(nm, rows, fld)
            total += nrows
            nbad += len(bad)
            if bad and not rep.violations:
                rep.violation(f"standin.{nm}.{fld}.vectorised==elementwise", {"native_result": bad[0][1], "input": rows,
                                                                           "script": REPLAY.format(name=nm, rows=json.dumps(rows), field=fld)})
    rep.standin("native: every row evaluated alone equals the row evaluated in a batch (all wrappers, B/H/J/M)",
                f"{nrows} rows per wrapper and field", total, total, "random + special rows (faces/edges/axis)",
                [{"wrapper": "Cylinder", "rows": nrows}], failures=nbad)
    try:
        from standins import level2

        level2.standin_c06(rep, tier, seed)
    except ImportError:
        rep.notes.append("level-2 term-exact stand-in not built")
    # level-2 evaluation for all path lengths and pixel counts (checks/l2sym.py): element provenance: own source, own path index, own pixel
    from checks import l2sym

    l2sym.report_fails(rep, l2sym.run(rep, tier, fams=['B', "B'", 'D'], stride={'B': 3, 'D': 2}, kinds=("element", "shape", "safety")))
    return rep.finish()
