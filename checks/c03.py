"""C03 — fields are covariant under rigid motion of the whole setup.

P1 (proof, all batch lengths): the real getBH_level1 (code object re-bound over the index-map shim) satisfies the
    direct form   result[i] = act(R[i], F(act(inv(R[i]), o[i] - p[i])))   — inverse rotation first, forward after —
    for an arbitrary field function F of the local observer (QF UF+LIA obligation at a fresh index).
P2 (lemma over that contract, normal form): for all Q in Rot, t in Vec:
    level1(Q∘R, Q·p + t, Q·o + t) = Q · level1(R, p, o).
SI (bounded): pose tiling of get_src_dict / getBH_level2: the term-exact harness is run on a structure and on the
    same structure moved by a symbolic (Q, t); results must be Q·(old) for position observers and identical for
    co-moving sensors.
"""
import json

import numpy as np
import z3

import magpylib._src.fields.field_wrap_BH as FW
from engine import nf, solve
from engine.idx import Arr, NPs, Rot, SRot, Vec, act, inv, mul, slen, vadd, vsub
from engine.rebind import describe, rebind
from engine.report import Report
from engine.symex import Ctx, explore

PID = "C03"
N, k = z3.Ints("N k")
F = z3.Function("F", Vec, Vec)
Rf = z3.Function("R_src", z3.IntSort(), Rot)
Pf = z3.Function("p_src", z3.IntSort(), Vec)
Of = z3.Function("obs", z3.IntSort(), Vec)


def level1_direct(rep):
    fails = []
    calls = []

    def field_func(field, observers, **kw):
        calls.append((field, sorted(kw)))
        obs = observers
        return Arr(obs.length, lambda i: F(obs.elem(i)), "vec")

    ns = rebind(FW, dict(np=NPs, R=SRot, len=slen))
    f = ns["getBH_level1"]
    fn = describe(FW.getBH_level1)
    rep.function(fn)

    n = 0
    for FIELD in "BHJM":
        def body():
            Ctx.cur.pc.append(N >= 1)
            return f(field_func=field_func, field=FIELD, position=Arr(N, lambda i: Pf(i), "vec"),
                     orientation=SRot(Arr(N, lambda i: Rf(i), "quat")), observers=Arr(N, lambda i: Of(i), "vec"), in_out="auto")

        for ctx, (kind, res) in explore(body):
            n += 1
            if kind == "unsupported":
                rep.obligation(f"getBH_level1[{FIELD}]@path{n}.path-outside-the-verified-subset", {"status": "unknown", "backend": "symex", "time_s": 0, "reason": str(res)[:200]}, fn["function"])
                continue
            if kind == "exc":
                r = {"status": "refuted", "backend": "symex", "time_s": 0}
                rep.obligation(f"getBH_level1[{FIELD}]@path{n}.no-exception", r, fn["function"])
                fails.append((f"getBH_level1[{FIELD}]@path{n}.no-exception", repr(res)))
                continue
            goal = z3.And(res.length == N, z3.Implies(z3.And(0 <= k, k < N),
                                                      res.elem(k) == act(Rf(k), F(act(inv(Rf(k)), vsub(Of(k), Pf(k)))))))
            r = solve.discharge(ctx.pc, goal)
            rep.obligation(f"getBH_level1[{FIELD}]@path{n}.result==R·F(R^-1(o-p))", r, fn["function"], sample=solve.sample_smt2(ctx.pc, goal))
            if r["status"] != "discharged":
                fails.append((f"getBH_level1[{FIELD}]@path{n}.direct-form", str(r.get("model"))[:800]))
            for i, (pc, ax, fm, label, kd) in enumerate(ctx.oblig):
                r = solve.discharge(pc, fm)
                rep.obligation(f"getBH_level1[{FIELD}]@path{n}.safety{i}.{label.split(':')[0].replace(' ', '_')}", r, fn["function"], kd)
                if r["status"] != "discharged":
                    fails.append((f"getBH_level1[{FIELD}]@path{n}.safety{i}", label))
            ok = calls and calls[-1][0] == FIELD and "in_out" not in calls[-1][1]
            r = {"status": "discharged" if ok else "refuted", "backend": "structural", "time_s": 0}
            rep.obligation(f"getBH_level1[{FIELD}]@path{n}.field-forwarded,in_out-dropped-for-functions-without-it", r, fn["function"])
            if not ok:
                fails.append((f"getBH_level1[{FIELD}]@path{n}.forwarding", str(calls[-1:])))
    rep.paths += n
    # lemma: covariance from the direct form
    Q, R0 = z3.Consts("Q R0", Rot)
    o, p, t = z3.Consts("o p t", Vec)
    lvl1 = lambda R_, p_, o_: act(R_, F(act(inv(R_), vsub(o_, p_))))
    lhs = lvl1(mul(Q, R0), vadd(act(Q, p), t), vadd(act(Q, o), t))
    rhs = act(Q, lvl1(R0, p, o))
    st = nf.prove_eq(lhs, rhs)
    rep.obligation("lemma.level1(QR, Qp+t, Qo+t) == Q·level1(R, p, o)", {"status": st, "backend": "normal-form", "time_s": 0},
                   "lemma over getBH_level1's contract", "lemma", sample=f"NF({lhs.sexpr()}) == NF({rhs.sexpr()})")
    if st != "discharged":
        fails.append(("lemma.covariance", "normal forms differ"))
    # canaries: forward instead of inverse / translation after rotation must be refuted
    wrong = act(mul(Q, R0), F(act(mul(Q, R0), vsub(vadd(act(Q, o), t), vadd(act(Q, p), t)))))
    if nf.prove_eq(wrong, rhs) == "discharged":
        raise RuntimeError("canary lemma proved")
    return fails


# ------------------------------------------------------------------------------------------------
def moved(spec_objs, Qw, tvec):
    """apply the rigid motion (Q, t) to every pose of the built objects (in place)"""
    from standins.talg import Rot as TRot, wmul

    for o in spec_objs:
        o._position = np.array([TRot([Qw], True).apply(r) + tvec for r in o._position], dtype=object)
        o._orientation = TRot([wmul(Qw, w) for w in o._orientation.words], o._orientation.single)


def covariance_standin(rep, tier, seed):
    from standins import level2
    from standins.talg import Rot as TRot, S, vec

    ns = level2.harness_ns()
    Qw = (("Qglobal", 1),)
    tvec = vec("tglobal")
    nst = nel = 0
    fails = []
    sample = None
    for spec in level2.structures(tier, seed, "c03"):
        for comoving in (False, True):
            src1, sen1 = level2.build(spec)
            src2, sen2 = level2.build(spec)
            objs2 = [l for s in src2 for l in level2.leaves(s)]
            moved(objs2, Qw, tvec)
            if comoving:
                moved(sen2, Qw, tvec)
            else:
                # observers are positions: move pixel positions and sensor position, keep the (identity) axes
                if any(e[2] != "id" or e[4] != "right" for e in spec["sensors"]):
                    continue
                for s in sen2:
                    s._position = np.array([TRot([Qw], True).apply(r) + tvec for r in s._position], dtype=object)
                    if s._pixel is not None:
                        shp = s._pixel.shape
                        s._pixel = np.array([TRot([Qw], True).apply(r) for r in s._pixel.reshape(-1, 3)], dtype=object).reshape(shp)
            try:
                B1 = level2.run_level2(ns, src1, sen1)
                B2 = level2.run_level2(ns, src2, sen2)
            except Exception as e:  # pylint: disable=broad-except
                fails.append((spec, dict(comoving=comoving), [f"raised {type(e).__name__}: {e}"]))
                continue
            nst += 1
            f1, f2 = B1.reshape(-1, 3), B2.reshape(-1, 3)
            bad = []
            if f1.shape != f2.shape:
                bad.append(f"shapes {B1.shape} vs {B2.shape}")
            else:
                for i, (a, b) in enumerate(zip(f1, f2)):
                    nel += 1
                    e = a if comoving else TRot([Qw], True).apply(a)
                    if not all(S.lift(x) == S.lift(y) for x, y in zip(b, e)):
                        bad.append(f"flat element {i}: moved setup gives {b[0]!r}, covariance prescribes {e[0]!r}")
                        if len(bad) > 3:
                            break
            if sample is None:
                sample = dict(spec=spec, comoving=comoving)
            if bad:
                fails.append((spec, dict(comoving=comoving), bad))
    rep.standin("level-2 pose plumbing: whole setup moved by symbolic (Q,t) -> fields rotate by Q (position observers) / unchanged (co-moving sensors), term-exact",
                "<= 4 sources, nested collections, path lengths <= 3, <= 2 sensors, pixel shapes up to (2,2,3)", nel, nst,
                "all poses, rotations, translations symbolic; distinct = structures x {position observers, co-moving sensors}",
                [sample], failures=len(fails))
    return fails


def scale_of(B, n):
    return np.abs(B).reshape(n, -1).max(axis=1).reshape(-1, 1, 1, 1, 1) + 1e-300


def native_covariance(seed):
    """native replay on the real library with random rigid motions; returns message or None"""
    import magpylib as magpy
    from scipy.spatial.transform import Rotation as R

    rng = np.random.default_rng(seed)
    for trial in range(24):
        Q = R.from_rotvec(rng.normal(size=3))
        m = int(rng.integers(1, 4))
        # how the common rigid motion is applied: poses set directly | rotate(anchor=0) + move on every source | the same on a nested Collection
        how = ("direct", "methods", "collection")[trial % 3]
        sc = 1e-9 if trial % 8 == 7 else 1.0  # the whole setup in nanometre-sized numbers (fields of magnets are scale invariant)
        t = rng.normal(size=3) * sc
        srcs = [magpy.magnet.Cuboid(dimension=(1 * sc, 2 * sc, 3 * sc), polarization=(0.1, 0.2, 0.3)),
                magpy.current.Circle(diameter=1.3 * sc, current=2.0), magpy.misc.Dipole(moment=(1, 2, 3))]
        obs = rng.normal(size=(5, 3)) * 3 * sc
        for s in srcs:
            s._position = rng.normal(size=(m, 3)) * sc
            s._orientation = R.from_rotvec(rng.normal(size=(m, 3)))
        # two observers inside the cuboid at its first pose (J, M are non-zero only there)
        obs[:2] = srcs[0]._position[0] + srcs[0]._orientation[0].apply(rng.uniform(-0.3, 0.3, size=(2, 3)) * sc)
        for fld in "BHJM":
            g = getattr(magpy, "get" + fld)
            poses = [(s._position.copy(), s._orientation) for s in srcs]
            B1 = g(srcs, obs, squeeze=False)
            col = None
            if how == "direct":
                for s in srcs:
                    s._position = Q.apply(s._position) + t
                    s._orientation = Q * s._orientation
            elif how == "methods":
                for s in srcs:
                    s.rotate(Q, anchor=0, start=0)
                    s.move(t, start=0)
            else:
                inner = magpy.Collection(srcs[1], srcs[2])
                inner._position = rng.normal(size=(m, 3)) * sc
                col = magpy.Collection(srcs[0], inner)
                col._position = rng.normal(size=(m, 3)) * sc
                col.rotate(Q, anchor=0, start=0)
                col.move(t, start=0)
            B2 = g(srcs, Q.apply(obs) + t, squeeze=False)
            if col is not None:
                # ... and once more about the collection's own position (anchor=None), the observers riding along as a sensor of the
                # collection: the rigid motion x -> Q(x - c) + c + t at every path index; the sensor then reads the unchanged field
                sens = magpy.Sensor(pixel=Q.inv().apply(obs - t))
                sens._position = np.zeros((m, 3)); sens._orientation = R.from_quat(np.tile((0, 0, 0, 1.0), (m, 1)))
                inner.add(sens)
                B3 = g(srcs, sens, squeeze=False)
                Q2 = R.from_rotvec(rng.normal(size=3))
                col.rotate(Q2, start=0)
                col.move(t, start=0)
                B4 = g(srcs, sens, squeeze=False)
                inner.remove(sens)
                if B3.shape != B4.shape or not np.all(np.abs(B4 - B3) <= 1e-7 * scale_of(B3, len(srcs))):
                    return (f"trial {trial} (collection rotated about its own position and moved, length unit {sc:g}): get{fld} read by a sensor "
                            f"that rides along changed (max relative dev {(np.abs(B4 - B3) / scale_of(B3, len(srcs))).max():.3e})")
                col.remove(srcs[0])
                inner.remove(srcs[1], srcs[2])
            for s, (p0, o0) in zip(srcs, poses):
                s._position, s._orientation = p0, o0
            exp = Q.apply(B1.reshape(-1, 3)).reshape(B1.shape)
            scale_ = np.abs(B1).reshape(len(srcs), -1).max(axis=1).reshape(-1, 1, 1, 1, 1) + 1e-300
            if B2.shape != exp.shape or not np.all(np.abs(B2 - exp) <= 1e-7 * scale_):
                return (f"trial {trial} (rigid motion applied by: {how}, length unit {sc:g}): get{fld} of the moved setup is not the rotated field "
                        f"(max relative dev {(np.abs(B2 - exp) / scale_).max():.3e})")
    return None


REPLAY = """import sys
from checks.c03 import native_covariance
msg = native_covariance({seed})
print(msg or 'covariant')
sys.exit(1 if msg else 0)
"""


def main(tier, seed):
    from standins import level2

    rep = Report(PID, tier, seed, "proof")
    rep.assumed_contract("field_func is an arbitrary function F of the local observer (and pose-independent keyword arguments)")
    rep.assumed_contract("scipy Rotation.apply(v, inverse) is the group action / its inverse (laws cross-checked numerically in the native replay)")
    rep.assume("pose tiling per source / path / pixel in get_src_dict and getBH_level2 is covered by the labelled bounded stand-in only")
    rep.explanation = "direct form of getBH_level1 for all batch lengths (z3) + covariance lemma (normal form); level-2 plumbing bounded"
    fails = level1_direct(rep)
    sfails = covariance_standin(rep, tier, seed)
    # second sentence of the property: "position and orientation of a source are honoured exactly as 'local frame placed in the global frame'"
    # (at every path index, shorter paths staying at their last pose): direct form through level 2, term-exact
    ns = level2.harness_ns()
    nst, nel, lfails, sample = level2.sweep(ns, tier, seed + 3, "c03", fields=("B",), sumups=(False,), aggs=(None,))
    level2.report(rep, "level-2 direct form: element = R_src[m]·F(R_src[m]^-1(observer - p_src[m])) at every path index (term-exact)", nst, nel, lfails, sample,
                  "<= 4 sources, path lengths <= 3 (shorter paths stay at their last pose), <= 2 sensors")
    msg = native_covariance(seed)
    for name, why in fails:
        if msg:
            rep.violation(name, {"why": why, "native_result": msg, "script": REPLAY.format(seed=seed)})
        else:
            rep.violation(name, {"why": why, "solver_output": why}, found_input=False)
    for spec, kw, bad in sfails[:2]:
        payload = {"structure": spec, "variant": kw, "native_result": bad[:4]}
        if msg:
            payload["script"] = REPLAY.format(seed=seed)
            rep.violation("standin.level2-covariance", payload)
        else:
            payload["script"] = ("import sys\nfrom checks.c03 import covariance_standin\nfrom engine.report import Report\n"
                                 f"r = Report('C03', 'quick', {seed}, 'proof'); f = covariance_standin(r, 'quick', {seed})\n"
                                 "print(f[:1]); sys.exit(1 if f else 0)\n")
            rep.violation("standin.level2-covariance", payload)
    if not fails and not sfails and msg:
        rep.violation("standin.native-covariance", {"native_result": msg, "script": REPLAY.format(seed=seed)})
    # level-2 evaluation for all path lengths and pixel counts (checks/l2sym.py): direct form 'local frame placed in the global frame' of every element
    from checks import l2sym

    l2sym.report_fails(rep, l2sym.run(rep, tier, fams=['A'], stride=None, kinds=("element", "shape", "safety")))
    return rep.finish()
