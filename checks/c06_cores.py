"""Core field functions executed as REAL code under the row-generic shim (no stub): magnet_cuboid_Bfield, dipole_Hfield,
triangle_Bfield, current_polyline_Hfield.  Obligations (shared by C06, C08, C12, C05, C15 through the helpers below):
 * row-wise: the generic row's result does not depend on the batch-global any()/all()/len (non-interference);
 * frame: no in-place write to an argument array;
 * homogeneity in the length unit and in the excitation by the dimension calculus (the ASSUMED stub contracts of C12 become proved);
 * linearity in the excitation by the linearity typing (the ASSUMED stub contracts of C05 become proved where typable).
Cores with data-dependent convergence loops (cel*, el3*, ellipe/ellipk: cylinder, circle, cylinder segment) stay assumed.
"""
import itertools
from fractions import Fraction

import z3

from contracts.bhjm import CORES, report_problems
from engine import solve
from engine.rebind import describe


def paths_of(rep, name):
    sp = CORES[name]
    fn = describe(sp.real())
    rep.function(fn)
    args = sp.fresh_args()
    paths = [p for p in sp.run("-", args=args) if "out" in p]
    report_problems(rep, sp, name, fn["function"])
    rep.paths += len(paths)
    return sp, fn, args, paths


def rowwise(rep, name):
    from checks.c06 import _globals_of, _prime

    sp, fn, args, paths = paths_of(rep, name)
    fails = []
    for (i, p1), (j, p2) in itertools.combinations_with_replacement(list(enumerate(paths, 1)), 2):
        gl = _globals_of(p2["pc"] + p2["ax"] + p2["out"])
        pc2, out2 = _prime(p2["pc"] + p2["ax"], gl), _prime(p2["out"], gl)
        assum = p1["pc"] + p1["ax"] + pc2
        s = z3.Solver()
        s.set("timeout", 10000)
        s.add(*assum)
        if s.check() == z3.unsat:
            continue
        r = solve.discharge(assum, z3.And(*[a == b for a, b in zip(p1["out"], out2)]), timeout_ms=30000)
        if r["status"] == "unknown":
            w = solve.concrete_refute(assum, list(zip(p1["out"], out2)))
            if w is not None:
                r = {"status": "refuted", "backend": "concrete-witness(float evaluation of the terms)", "time_s": r["time_s"], "model": None,
                     "reason": "witness " + ", ".join(f"{k}={v:.4g}" if isinstance(v, float) else f"{k}={v}" for k, v in sorted(w.items())[:12])}
        nm = f"core.{name}.row-result-independent-of-batch[path{i}~path{j}]"
        rep.obligation(nm, r, fn["function"], "noninterference")
        if r["status"] == "refuted":
            fails.append(dict(name=nm, wrapper=name, why="core row result depends on the batch"))
    return fails


def no_arg_writes(rep, name):
    sp, fn, args, paths = paths_of(rep, name)
    fails = []
    if getattr(sp, "writes_argument_by_contract", False):
        # documented in-place function: the obligation is on its call sites (fresh copies), see checks/c08.py chirality_frame
        return fails
    for i, p in enumerate(paths, 1):
        ok = not p["writes"]
        rep.obligation(f"core.{name}@path{i}.no-in-place-write-to-a-caller-array", {"status": "discharged" if ok else "refuted", "backend": "shim-write-log", "time_s": 0}, fn["function"], "frame")
        if not ok:
            fails.append(dict(name=f"core.{name}@path{i}.writes-argument", why=f"in-place {p['writes']} on an argument array", wrapper=name, field="B"))
    return fails


def homogeneity(rep, name, known_literals=None):
    from checks.c12 import var_degrees
    from engine.dimcalc import ANY, DimCheck, DimError

    sp, fn, args, paths = paths_of(rep, name)
    fails = []
    for grading in ("length", "excitation") if sp.pol else ("length",):
        vd = var_degrees(sp, grading)
        if grading == "excitation":
            for k in list(vd):
                vd[k] = Fraction(1 if k.startswith(sp.pol) else 0)
        want = Fraction(sp.homog) if grading == "length" else Fraction(1)
        for i, p in enumerate(paths, 1):
            dc = DimCheck(vd, {k: (v[0], v[1]) if grading == "length" else (v[2], v[3]) for k, v in getattr(sp, "stub_rules", {}).items()})
            try:
                for t in p["pc"]:
                    dc.deg(t)
                degs = [dc.deg(t) for t in p["out"]]
            except DimError as e:
                rep.obligation(f"core.{name}.{grading}-homogeneous[path{i}]", {"status": "unknown", "backend": "dimension-calculus", "time_s": 0, "reason": str(e)}, fn["function"])
                continue
            viol = list(dc.violations)
            if any(d not in (ANY, want) for d in degs):
                viol.append((f"output degree {[str(d) for d in degs]} instead of {want}", "", []))
            known = (known_literals or {}).get(name) if grading == "length" else None
            unknown_v = [v for v in viol if not (known and v[2] and set(v[2]) <= known[1])]
            st = "discharged" if not unknown_v else "refuted"
            be = f"dimension-calculus({dc.nodes} nodes)" + (f"(up to the absolute constants {sorted(known[1])} of known finding {known[0]})" if viol and not unknown_v else "")
            nm = f"core.{name}.homogeneous-of-degree-{want}-in-{grading}[path{i}]"
            rep.obligation(nm, {"status": st, "backend": be, "time_s": 0}, fn["function"])
            if viol and not unknown_v:
                fails.append(dict(name=nm, wrapper=name, known_region=known[0], why=viol[0][0]))
            elif unknown_v:
                fails.append(dict(name=nm, wrapper=name, why="; ".join(f"{v[0]} @ {v[1][:140]}" for v in unknown_v[:3])))
    return fails


def linearity(rep, name):
    from engine.dimcalc import LinCheck

    sp, fn, args, paths = paths_of(rep, name)
    fails = []
    if not sp.pol:
        return fails  # no excitation argument
    evars = [t.decl().name() for t in args[sp.pol].blocks[0].flat]
    for i, p in enumerate(paths, 1):
        lc = LinCheck(evars, {})
        ok = all(lc.cls(t) == "bconst" for t in p["pc"]) and all(lc.cls(t) in ("lin", "zero") for t in p["out"])
        nm = f"core.{name}.linear-in-{sp.pol}[path{i}]"
        st = "discharged" if ok else "unknown"
        rep.obligation(nm, {"status": st, "backend": f"linearity-typing({lc.nodes} nodes)", "time_s": 0, "reason": lc.why or ""}, fn["function"])
    return fails


def chirality_contract(rep):
    """check_chirality meets the contract that the Tetrahedron wrapper's stub assumes: vertices 2 and 3 exchanged exactly on the rows with a
    negative determinant of (p1-p0, p2-p0, p3-p0), all other entries unchanged — for every row of every batch"""
    name = "check_chirality"
    sp, fn, args, paths = paths_of(rep, name)
    fails = []
    P = [[args["points"].blocks[0][i, j] for j in range(3)] for i in range(4)]
    e = [[P[i][j] - P[0][j] for j in range(3)] for i in (1, 2, 3)]
    # det of the matrix whose COLUMNS are the edge vectors = det of the matrix whose rows are the edge vectors
    det = (e[0][0] * (e[1][1] * e[2][2] - e[1][2] * e[2][1]) - e[0][1] * (e[1][0] * e[2][2] - e[1][2] * e[2][0]) + e[0][2] * (e[1][0] * e[2][1] - e[1][1] * e[2][0]))
    for i, p in enumerate(paths, 1):
        exp = []
        for r in range(4):
            for c in range(3):
                src = {2: 3, 3: 2}.get(r, r)
                exp.append(z3.If(det < 0, P[src][c], P[r][c]))
        goal = z3.And(*[o == x for o, x in zip(p["out"], exp)])
        r_ = solve.discharge(p["pc"] + p["ax"], goal, timeout_ms=30000)
        nm = f"core.{name}.vertices-2-and-3-exchanged-exactly-on-rows-with-negative-determinant[path{i}]"
        if r_["status"] == "refuted":
            # a callee that no longer meets the contract its caller's proof assumes: the caller's obligations are then UNDECIDED (the property may
            # still hold, e.g. a different treatment of degenerate tetrahedra) — never reported as a violation of the property by itself
            r_ = dict(r_, status="unknown", reason="check_chirality does not meet the contract assumed by the Tetrahedron wrapper's proof: the wrapper obligations no longer apply")
        rep.obligation(nm, r_, fn["function"])
    return fails


def _pi_split(o):
    """point_inside result term -> (guard terms d of guards 'd != 0', conjunction); If(d != 0, If(conj, 1, 0), 0) | If(conj, 1, 0) | conj"""
    def is_zero(o):
        return z3.is_rational_value(o) and o.numerator_as_long() == 0 or z3.is_int_value(o) and o.as_long() == 0

    def is_one(o):
        return z3.is_rational_value(o) and o.numerator_as_long() == o.denominator_as_long() or z3.is_int_value(o) and o.as_long() == 1

    guards = []
    while o.decl().kind() == z3.Z3_OP_ITE and not z3.is_bool(o):
        c, t, e = o.children()
        if not is_zero(e):
            raise ValueError("else-branch is not 0")
        if is_one(t):
            return guards, c
        if z3.is_distinct(c) and c.num_args() == 2:
            a, b = c.children()
        elif z3.is_not(c) and z3.is_eq(c.arg(0)):
            a, b = c.arg(0).children()
        else:
            raise ValueError(f"guard {c.decl()}")
        guards.append(a - b)
        o = t
    if not z3.is_bool(o):
        raise ValueError("result is not a truth value")
    return guards, o


def _pi_atoms(b):
    if z3.is_and(b):
        return [a for c in b.children() for a in _pi_atoms(c)]
    k = b.decl().kind()
    if k == z3.Z3_OP_GE:
        return [(b.arg(0), b.arg(1))]
    if k == z3.Z3_OP_LE:
        return [(b.arg(1), b.arg(0))]
    raise ValueError(f"atom {b.decl()}")


def point_inside_contract(rep):
    """tetrahedron.point_inside against an independent specification, for every row of every batch: a point is reported inside exactly when the
    tetrahedron has volume (D = det(p1-p0, p2-p0, p3-p0) != 0) and its barycentric coordinates by Cramer's rule, l_k = D_k / D (D_k: D with edge k
    replaced by p - p0), satisfy 0 <= l_k <= 1 (k = 1..3) and l_1 + l_2 + l_3 <= 1.  The real code (matrix inverse, matmul) is executed on the
    generic row; its non-degeneracy guard must be D up to sign and each of its comparisons must be one of the seven specified ones — equality of
    rational functions decided by exact polynomial normal form (engine/ratpoly.py).  A mismatch is searched for a concrete witness, which is
    replayed on the real function against an exact Fraction oracle; without a replayed witness the obligation is undecided.
    Returns failure records (with a native witness) for the caller."""
    from engine import ratpoly

    name = "point_inside"
    sp = CORES[name]
    fn = describe(sp.real())
    rep.function(fn)
    args = sp.fresh_args()
    paths = [p for p in sp.run("-", args=args) if "out" in p]
    report_problems(rep, sp, name + ".contract", fn["function"])
    nm = "core.point_inside.inside<=>volume!=0-and-barycentric-coordinates-in-the-simplex"
    V = [[args["vertices"].blocks[0][i, j] for j in range(3)] for i in range(4)]
    X = [args["points"].blocks[0][j] for j in range(3)]
    e = [[V[k][j] - V[0][j] for j in range(3)] for k in (1, 2, 3)]
    d = [X[j] - V[0][j] for j in range(3)]

    def det3(a, b, c):
        return a[0] * (b[1] * c[2] - b[2] * c[1]) - a[1] * (b[0] * c[2] - b[2] * c[0]) + a[2] * (b[0] * c[1] - b[1] * c[0])

    D = det3(*e)
    lam = [det3(d, e[1], e[2]) / D, det3(e[0], d, e[2]) / D, det3(e[0], e[1], d) / D]
    spec_atoms = [(l, z3.RealVal(0)) for l in lam] + [(z3.RealVal(1), l) for l in lam] + [(z3.RealVal(1), lam[0] + lam[1] + lam[2])]

    def zero(o):
        o = z3.simplify(o)
        return z3.is_rational_value(o) and o.numerator_as_long() == 0 or z3.is_int_value(o) and o.as_long() == 0

    main = [p for p in paths if not zero(p["out"][0])]
    rest = [p for p in paths if zero(p["out"][0])]
    why = None
    try:
        if len(main) != 1:
            raise ValueError(f"{len(main)} paths with a non-constant result")
        cache = {}
        g, conj = _pi_split(main[0]["out"][0])
        A = [ratpoly.from_z3(l, cache) - ratpoly.from_z3(r, cache) for l, r in _pi_atoms(conj)]
        S = [ratpoly.from_z3(l, cache) - ratpoly.from_z3(r, cache) for l, r in spec_atoms]
        Dq = ratpoly.from_z3(D, cache)
        G = [ratpoly.from_z3(x, cache) for x in g]
        used = set()
        for q in A:
            j = next((j for j, q2 in enumerate(S) if j not in used and q.same(q2)), None)
            if j is None:
                raise LookupError("a comparison of the real code is not one of the seven specified ones")
            used.add(j)
        if len(used) != len(S):
            raise LookupError(f"only {len(used)} of the {len(S)} specified comparisons are made")
        if len(paths) > 1 or G:
            # rows without volume: "outside".  Either a guard D != 0 (up to sign) on the result, or (no guard) the code must not have a constant path
            if len(G) != 1 or not (G[0].same(Dq) or G[0].same(-Dq)):
                raise LookupError("the non-degeneracy guard is not 'determinant of the edge vectors != 0'")
        else:
            raise LookupError("rows without volume are not answered (no guard on the determinant)")
        # constant-0 paths (no row of the batch has volume): sound only if their path condition excludes volume for this row
        for p in rest:
            r_ = solve.discharge(p["pc"] + p["ax"], D == 0, timeout_ms=20000)
            if r_["status"] != "discharged":
                raise LookupError("a path returning the constant 0 does not imply a zero determinant for the row")
        st = {"status": "discharged", "backend": f"rational-normal-form({len(A)} comparisons + guard matched with Cramer's rule)", "time_s": 0}
    except (ValueError, LookupError) as ex:
        why = str(ex)
        st = {"status": "unknown", "backend": "rational-normal-form", "time_s": 0, "reason": why}
    fails = []
    if why is not None:
        wit = _pi_witness(sp)
        if wit is not None:
            st = {"status": "refuted", "backend": "rational-normal-form + replayed concrete witness", "time_s": 0, "reason": why}
            fails.append(dict(name=nm, why=f"{why}; witness replayed on the real function: vertices={wit[0]}, point={wit[1]}: point_inside says {wit[2]}, exact barycentric oracle says {wit[3]}",
                              witness=dict(vertices=wit[0], point=wit[1])))
    rep.obligation(nm, st, fn["function"])
    return fails


def _pi_witness(sp, tries=4000, seed=0):
    """random search for a row on which the REAL point_inside (native, batch of one and batch of many) disagrees with the exact Fraction oracle by a margin"""
    import warnings
    from fractions import Fraction as Fr

    import numpy as np

    real = sp.real()
    rng = np.random.default_rng(seed)

    def det3(a, b, c):
        return a[0] * (b[1] * c[2] - b[2] * c[1]) - a[1] * (b[0] * c[2] - b[2] * c[0]) + a[2] * (b[0] * c[1] - b[1] * c[0])

    def oracle(v, x):
        v = [[Fr(float(t)) for t in q] for q in v]
        x = [Fr(float(t)) for t in x]
        e = [[v[k][i] - v[0][i] for i in range(3)] for k in (1, 2, 3)]
        d = [x[i] - v[0][i] for i in range(3)]
        D = det3(*e)
        if D == 0:
            return False, 1.0
        lam = [det3(d, e[1], e[2]) / D, det3(e[0], d, e[2]) / D, det3(e[0], e[1], d) / D]
        lam = [1 - sum(lam)] + lam
        m = min(min(lam), min(1 - t for t in lam))
        return m > 0, abs(float(m))

    vs, xs = [], []
    for k in range(tries):
        if k % 10 == 0:
            v = np.array([(0, 0, 0), (1, 0, 0), (0, 1, 0), (1, 1, 0)], dtype=float) * rng.integers(1, 4) if k % 20 == 0 else np.round(rng.normal(size=(1, 3)), 1).repeat(4, axis=0) + np.outer(rng.integers(0, 3, 4), (1.0, 0.5, 0.0))
        else:
            v = rng.normal(size=(4, 3))
        w = rng.dirichlet(np.ones(4))
        x = w @ v if k % 3 else v.mean(axis=0) + rng.normal(size=3) * (3 if k % 2 else 0.7)
        vs.append(v), xs.append(x)
    vs, xs = np.array(vs), np.array(xs)
    with warnings.catch_warnings():
        warnings.simplefilter("ignore")
        try:
            got = np.asarray(real(xs.copy(), vs.copy(), "auto")).astype(bool)
        except Exception as ex:  # pylint: disable=broad-except
            return (vs[0].tolist(), xs[0].tolist(), f"raised {type(ex).__name__}: {ex}", "a truth value")
    for i in range(len(vs)):
        exp, margin = oracle(vs[i], xs[i])
        if margin > 1e-6 and bool(got[i]) != exp:
            return (vs[i].tolist(), xs[i].tolist(), bool(got[i]), exp)
    return None


def point_inside_symmetry(rep):
    """tetrahedron.point_inside is symmetric under the exchange of vertices 2 and 3 (what check_chirality may do): the Tetrahedron wrapper's proof
    assumes it.  The real code is run on the generic row with the vertices as given and exchanged; both results are conjunctions of the same seven
    comparisons of barycentric coordinates (cofactor / determinant terms); each comparison of the first run is matched with one of the second whose
    difference is the zero rational function (exact polynomial normal form, engine/ratpoly.py)"""
    from engine import ratpoly
    from engine.rowgen import G

    name = "point_inside"
    sp = CORES[name]
    fn = describe(sp.real())
    rep.function(fn)
    args = sp.fresh_args()
    r1 = [p for p in sp.run("-", args=args) if "out" in p]
    V = args["vertices"]
    blk = V.blocks[0].copy()
    blk[[2, 3]] = blk[[3, 2]]
    r2 = [p for p in sp.run("-", args=dict(args, vertices=G([blk], 0, V.tag, V.layout))) if "out" in p]
    report_problems(rep, sp, name, fn["function"])
    nm = "core.point_inside.symmetric-under-exchange-of-vertices-2-and-3"
    def is_zero(o):
        return z3.is_rational_value(o) and o.numerator_as_long() == 0 or z3.is_int_value(o) and o.as_long() == 0

    def is_one(o):
        return z3.is_rational_value(o) and o.numerator_as_long() == o.denominator_as_long() or z3.is_int_value(o) and o.as_long() == 1

    # rows without volume are answered "outside" through a batch-global np.any fork: the paths on which no row of the batch has volume return the
    # constant 0 in both runs (trivially symmetric); the remaining path of each run carries the comparisons, guarded by "determinant != 0"
    m1 = [p for p in r1 if not is_zero(z3.simplify(p["out"][0]))]
    m2 = [p for p in r2 if not is_zero(z3.simplify(p["out"][0]))]
    if len(m1) != 1 or len(m2) != 1 or len(r1) != len(r2):
        rep.obligation(nm, {"status": "unknown", "backend": "symex", "time_s": 0, "reason": f"{len(r1)} / {len(r2)} paths, {len(m1)} / {len(m2)} with a non-constant result"}, fn["function"])
        return []

    def split(o):
        """result term -> (list of guard terms d of the form 'd != 0', conjunction): If(d != 0, If(conj, 1, 0), 0) or If(conj, 1, 0) or conj"""
        guards = []
        while o.decl().kind() == z3.Z3_OP_ITE and not z3.is_bool(o):
            c, t, e = o.children()
            if not is_zero(e):
                raise ValueError("else-branch is not 0")
            if is_one(t):
                return guards, c
            g = c
            if z3.is_distinct(g) and g.num_args() == 2:
                a, b = g.children()
            elif z3.is_not(g) and z3.is_eq(g.arg(0)):
                a, b = g.arg(0).children()
            else:
                raise ValueError(f"guard {g.decl()}")
            guards.append(a - b)
            o = t
        if not z3.is_bool(o):
            raise ValueError("result is not a truth value")
        return guards, o

    def atoms(b):
        if z3.is_and(b):
            return [a for c in b.children() for a in atoms(c)]
        return [b]

    def norm(a):
        k = a.decl().kind()
        if k == z3.Z3_OP_GE:
            return a.arg(0), a.arg(1)
        if k == z3.Z3_OP_LE:
            return a.arg(1), a.arg(0)
        raise ValueError(f"atom {a.decl()}")

    try:
        cache = {}
        g1, c1 = split(m1[0]["out"][0])
        g2, c2 = split(m2[0]["out"][0])
        A1 = [norm(a) for a in atoms(c1)]
        A2 = [norm(a) for a in atoms(c2)]
        Q1 = [ratpoly.from_z3(l, cache) - ratpoly.from_z3(r, cache) for l, r in A1]
        Q2 = [ratpoly.from_z3(l, cache) - ratpoly.from_z3(r, cache) for l, r in A2]
        D1 = [ratpoly.from_z3(g, cache) for g in g1]
        D2 = [ratpoly.from_z3(g, cache) for g in g2]
    except ValueError as e:
        rep.obligation(nm, {"status": "unknown", "backend": "rational-normal-form", "time_s": 0, "reason": f"result is not a (guarded) conjunction of >= / <= comparisons of rational terms: {e}"}, fn["function"])
        return []
    # "d != 0" guards: the same set up to sign
    gok = len(D1) == len(D2) and all(any(d.same(e) or d.same(-e) for e in D2) for d in D1) and all(any(d.same(e) or d.same(-e) for e in D1) for d in D2)
    used, ok = set(), gok and len(Q1) == len(Q2)
    for q in Q1:
        j = next((j for j, q2 in enumerate(Q2) if j not in used and q.same(q2)), None)
        if j is None:
            ok = False
            break
        used.add(j)
    # as for check_chirality: a callee that misses the contract its caller's proof assumes makes the caller's obligations undecided, not violated
    st = {"status": "discharged", "backend": f"rational-normal-form({len(Q1)} comparisons and {len(D1)} non-degeneracy guards matched)", "time_s": 0} if ok else \
        {"status": "unknown", "backend": "rational-normal-form", "time_s": 0, "reason": "the comparisons of the two runs cannot be matched: the symmetry assumed by the Tetrahedron wrapper's proof is not established"}
    rep.obligation(nm, st, fn["function"])
    return []
