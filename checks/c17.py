"""C17 — malformed inputs are rejected at assignment, valid ones stored faithfully.

Proof part: the REAL validators (input_checks.check_array_shape, check_format_input_vector, _scalar, _vertices,
_cylinder_segment; code objects re-bound) and the REAL setters of every class are executed on *abstract inputs*:
    kind in {None, number, str, other object, array-like with symbolic ndim and symbolic shape}, symbolic value facts
(np.array(..., dtype=float) is a contract stub: same shape, fresh array, or a conversion error for non-numeric content).
All paths are explored; per setter the obligation is
    accept  <=>  documented format (sidecar table written from the class docstrings / the property statement)
    accept   => stored value is the (fresh) converted input, codependent attributes consistent
    reject   => MagpylibBadUserInput (no foreign exception type on any path) and ALL attributes identical to the pre-state.
Bounded stand-in: grammar sweep on the real classes (coercion corners the abstraction hides) + "no accepted object later fails
inside a field computation with an internal error".
"""
import itertools
import json

import numpy as np
import z3

from engine import solve
from engine.rebind import describe, rebind, rebind_class
from engine.report import Report, load_known
from engine.symex import Ctx, SymBool, SymInt, Unsupported, explore

PID = "C17"


# --------------------------------------------------------------------------------------------- abstract inputs
class AList(list):
    """abstract array-like (list/tuple/ndarray): symbolic rank, symbolic dims, symbolic content facts"""

    def __init__(self, name):
        super().__init__()
        self.name = name
        self.ndim_t = z3.Int(f"{name}_ndim")
        self.dims = [z3.Int(f"{name}_d{i}") for i in range(4)]
        self.numeric = z3.Bool(f"{name}_numeric")  # every entry float-compatible and the nesting is rectangular


class AArr:
    """result of np.array(alist, dtype=float): the contract of make_float_array's NumPy call"""

    def __init__(self, src, fresh=True):
        self.src = src
        self.fresh = fresh
        self.reshaped = None

    @property
    def ndim(self):
        return SymInt(self.src.ndim_t)

    @property
    def shape(self):
        return AShape(self.src)

    def __len__(self):
        raise Unsupported("builtin len on abstract array")

    def __le__(self, o):
        if o == 0:
            return ("le0", self)
        raise Unsupported("comparison")

    def __lt__(self, o):
        if o == 0:
            return ("lt0", self)
        raise Unsupported("comparison")

    def __iter__(self):
        # unpacking `r1, r2, h, phi1, phi2 = inp` : only reached for ndim == 1, d0 == 5 (checked by the caller's path condition)
        c = Ctx.cur
        if c.check(z3.Not(z3.And(self.src.ndim_t == 1, self.src.dims[0] == 5))) != z3.unsat:
            raise Unsupported("iteration over an abstract array of unknown length")
        return iter([AReal(z3.Real(f"{self.src.name}_v{i}")) for i in range(5)])

    def astype(self, t):
        return self

    def __mul__(self, c):
        if isinstance(c, (int, float)):
            a = AArr(self.src)
            a.factor = getattr(self, "factor", 1.0) * c
            return a
        return NotImplemented

    def __truediv__(self, c):
        if isinstance(c, (int, float)):
            a = AArr(self.src)
            a.factor = getattr(self, "factor", 1.0) / c
            return a
        return NotImplemented


class AShape:
    def __init__(self, src):
        self.src = src

    def __getitem__(self, k):
        s = self.src
        if k == -1:
            t = s.dims[0]
            for i in range(1, 4):
                t = z3.If(s.ndim_t == i + 1, s.dims[i], t)
            return SymInt(t)
        if k == 0:
            return SymInt(s.dims[0])
        raise Unsupported("shape index")


class AReal:
    def __init__(self, t):
        self.t = t

    def _c(self, o, f):
        ot = o.t if isinstance(o, AReal) else z3.RealVal(o)
        return f(self.t, ot)

    def __gt__(self, o):
        return SymBool(self._c(o, lambda a, b: a > b))

    def __lt__(self, o):
        return SymBool(self._c(o, lambda a, b: a < b))

    def __le__(self, o):
        return SymBool(self._c(o, lambda a, b: a <= b))

    def __ge__(self, o):
        return SymBool(self._c(o, lambda a, b: a >= b))

    def __sub__(self, o):
        return AReal(self._c(o, lambda a, b: a - b))

    def __float__(self):
        raise Unsupported("float() of abstract real")


class ANumber(float):
    """abstract scalar number (isinstance Number) with symbolic value"""

    def __new__(cls, name):
        o = float.__new__(cls, 1.0)
        o.t = z3.Real(name)
        return o

    def __lt__(self, o):
        return SymBool(self.t < o)

    def __float__(self):
        return self


class NPv:
    """shim for `np` in input_checks / the class modules"""

    ndarray = AArr
    integer = np.integer

    @staticmethod
    def array(x, dtype=None):
        if isinstance(x, AList):
            if not Ctx.cur.branch(x.numeric):
                # NumPy's contract: ValueError (strings, ragged nesting) or TypeError (complex numbers, dicts, arbitrary objects among the entries)
                if Ctx.cur.branch(z3.Bool(f"{x.name}_conversion_error_is_TypeError")):
                    err = TypeError("float() argument must be a string or a real number (abstract non-numeric content)")
                    err.modelled = True
                    raise err
                err = ValueError("could not convert string to float (abstract non-numeric content)")
                err.modelled = True
                raise err
            Ctx.cur.pc.append(z3.And(x.ndim_t >= 1, x.ndim_t <= 4, *[d >= 0 for d in x.dims]))
            return AArr(x)
        raise Unsupported("np.array of a non-abstract value")

    @staticmethod
    def asarray(x, dtype=None):
        a = NPv.array(x, dtype=dtype)
        a.fresh = False  # np.asarray returns its argument when it already is a float array: no independent copy
        return a

    @staticmethod
    def reshape(a, shape):
        a.reshaped = tuple(shape)
        return a

    @staticmethod
    def any(x):
        if isinstance(x, tuple) and x[0] in ("le0", "lt0"):
            neg, zero = z3.Bool(f"{x[1].src.name}_has_negative_entry"), z3.Bool(f"{x[1].src.name}_has_zero_entry")
            return Ctx.cur.branch(z3.Or(neg, zero) if x[0] == "le0" else neg)
        raise Unsupported("np.any")

    @staticmethod
    def all(x):
        raise Unsupported("np.all")

    pi = float(np.pi)

    class linalg:
        @staticmethod
        def norm(x):
            return 1e9


def s_len(x):
    if isinstance(x, AArr):
        return SymInt(x.src.dims[0])
    return len(x)


def s_float(x):
    if isinstance(x, ANumber):
        return x
    return float(x)


def v_isinstance(obj, cls):
    cl = cls if isinstance(cls, tuple) else (cls,)
    if isinstance(obj, AList):
        return any(c in (list, tuple, AArr) or getattr(c, "__name__", "") == "ndarray" for c in cl)
    return isinstance(obj, tuple(c for c in cl if isinstance(c, type)))


def ic_namespace():
    import magpylib._src.input_checks as IC

    return rebind(IC, dict(np=NPv, len=s_len, isinstance=v_isinstance, float=s_float))


# --------------------------------------------------------------------------------------------- the documented formats (sidecar spec)
def fmt_vector(nd, last, first=None, positive=False):
    def pred(x):
        c = [x.numeric, x.ndim_t == nd]
        lastdim = x.dims[nd - 1]
        c.append(lastdim == last)
        if first is not None:
            c.append(x.dims[0] == first)
        must = list(c)
        if positive:
            # the property names NEGATIVE sizes as invalid; zero sizes are left open (the class docstrings say "positive"):
            # must accept when all entries are positive, may accept when none is negative
            c.append(z3.Not(z3.Bool(f"{x.name}_has_negative_entry")))
            must += [z3.Not(z3.Bool(f"{x.name}_has_negative_entry")), z3.Not(z3.Bool(f"{x.name}_has_zero_entry"))]
        return z3.And(*must), z3.And(*c)

    return pred


def fmt_pixel(x):
    last = x.dims[0]
    for i in range(1, 4):
        last = z3.If(x.ndim_t == i + 1, x.dims[i], last)
    return z3.And(x.numeric, x.ndim_t >= 1, last == 3)


def fmt_segment(x):
    v = [z3.Real(f"{x.name}_v{i}") for i in range(5)]
    r1, r2, h, p1, p2 = v
    # invalid <=> r1<0 or r2<=0 or h<=0 or r1>r2 or phi1>phi2 or phi2-phi1>360 (the property's statement; degenerate r1=r2, phi1=phi2 accepted)
    return z3.And(x.numeric, x.ndim_t == 1, x.dims[0] == 5, r1 >= 0, r2 > 0, h > 0, r1 <= r2, p1 <= p2, p2 - p1 <= 360)


def fmt_polyline(x):
    return z3.And(x.numeric, x.ndim_t == 2, x.dims[1] == 3, x.dims[0] >= 2)


# class, attribute, private storage, format of array-like values, None allowed, scalar format (for scalar attributes)
def attr_table():
    import magpylib as magpy

    return [
        (magpy.magnet.Cuboid, "dimension", "_dimension", fmt_vector(1, 3, positive=True), True),
        (magpy.magnet.Cylinder, "dimension", "_dimension", fmt_vector(1, 2, positive=True), True),
        (magpy.magnet.CylinderSegment, "dimension", "_dimension", fmt_segment, True),
        (magpy.magnet.Tetrahedron, "vertices", "_vertices", fmt_vector(2, 3, first=4), True),
        (magpy.misc.Triangle, "vertices", "_vertices", fmt_vector(2, 3, first=3), True),
        (magpy.current.Polyline, "vertices", "_vertices", fmt_polyline, True),
        (magpy.misc.Dipole, "moment", "_moment", fmt_vector(1, 3), True),
        (magpy.Sensor, "pixel", "_pixel", fmt_pixel, True),
        (magpy.magnet.Cuboid, "polarization", "_polarization", fmt_vector(1, 3), True),
        (magpy.magnet.Cuboid, "magnetization", "_magnetization", fmt_vector(1, 3), True),
    ]


SCALARS = None


def scalar_table():
    import magpylib as magpy

    return [(magpy.magnet.Sphere, "diameter", "_diameter", True), (magpy.current.Circle, "diameter", "_diameter", True),
            (magpy.current.Circle, "current", "_current", False)]


class V3:
    """value token: the converted array (AArr) possibly scaled by a constant"""


def _module_of(cls, attr):
    import importlib

    for k in cls.__mro__:
        if attr in k.__dict__:
            return importlib.import_module(k.__module__), k
    raise KeyError(attr)


def setter_obligations(rep):
    from magpylib._src.exceptions import MagpylibBadUserInput

    fails = []
    icns = ic_namespace()
    for cls, attr, store, fmt, none_ok in attr_table():
        mod, owner = _module_of(cls, attr)
        prop = owner.__dict__[attr]
        rep.function(describe(prop))
        fnl = describe(prop)["function"]
        over = dict(np=NPv, len=s_len, isinstance=v_isinstance, float=s_float)
        for nm in ("check_format_input_vector", "check_format_input_scalar", "check_format_input_vertices", "check_format_input_cylinder_segment"):
            if nm in mod.__dict__:
                over[nm] = icns[nm]
        ns = rebind(mod, over)
        C = rebind_class(owner, ns, names={attr, "_magnetization_low_warning"})
        kinds = {
            "array-like": lambda: AList("x"),
            "None": lambda: None,
            "str": lambda: "some string",
            "number": lambda: 3.5,
            "other-object": lambda: object(),
        }
        for kname, mk in kinds.items():
            outcomes = []

            def body():
                o = object.__new__(C)
                pre = {"_dimension": "D0", "_vertices": "V0", "_moment": "M0", "_pixel": "P0", "_polarization": "J0", "_magnetization": "MM0"}
                o.__dict__.update(pre)
                val = mk()
                try:
                    setattr(o, attr, val)
                except MagpylibBadUserInput:
                    return "reject", dict(o.__dict__) == pre, val, o
                return "accept", None, val, o

            for i, (ctx, (kind, res)) in enumerate(explore(body), 1):
                rep.paths += 1
                base = f"{cls.__name__}.{attr}=[{kname}]@path{i}"
                if kind == "unsupported":
                    rep.obligation(base + ".path-outside-the-verified-subset", {"status": "unknown", "backend": "symex", "time_s": 0, "reason": str(res)[:200]}, fnl)
                    continue
                if kind == "exc":
                    r = {"status": "refuted", "backend": "symex", "time_s": 0}
                    rep.obligation(base + f".no-foreign-exception[{type(res).__name__}]", r, fnl, "exceptional")
                    fails.append(dict(name=base + ".no-foreign-exception", cls=cls.__name__, attr=attr, kind=kname,
                                      why=f"raises {type(res).__name__}: {res} instead of accepting or raising the input error"))
                    continue
                what, unchanged, val, o = res
                if kname == "array-like":
                    good = fmt(val)
                elif kname == "None":
                    good = z3.BoolVal(none_ok)
                else:
                    good = z3.BoolVal(False)
                must, good = good if isinstance(good, tuple) else (good, good)
                if what == "accept":
                    r = solve.discharge(ctx.pc, good)
                    rep.obligation(base + ".accepted=>documented-format", r, fnl, "post",
                                   sample=solve.sample_smt2(ctx.pc, good) if (cls.__name__, attr, kname, i) == ("Tetrahedron", "vertices", "array-like", 1) else None)
                    if r["status"] == "refuted":
                        m = r["model"]
                        shape = None
                        if kname == "array-like":
                            nd = m.eval(val.ndim_t, model_completion=True).as_long()
                            shape = [m.eval(val.dims[j], model_completion=True).as_long() for j in range(max(1, min(nd, 4)))]
                        fails.append(dict(name=base + ".accepted=>documented-format", cls=cls.__name__, attr=attr, kind=kname, shape=shape,
                                          why=f"a value outside the documented format is accepted (array shape {shape})"))
                    stored = o.__dict__.get(store)
                    okst = (val is None and stored is None) or (isinstance(stored, AArr) and stored.src is val and stored.fresh
                                                                     and getattr(stored, "factor", 1.0) == 1.0)
                    if okst and attr in ("polarization", "magnetization") and val is not None:
                        oth = o.__dict__.get("_magnetization" if attr == "polarization" else "_polarization")
                        c = 4 * np.pi * 1e-7
                        okst = isinstance(oth, AArr) and oth.src is val and abs(getattr(oth, "factor", 1.0) / (1 / c if attr == "polarization" else c) - 1) < 1e-12
                    rep.obligation(base + ".stored-value-is-the-fresh-converted-input", {"status": "discharged" if okst else "refuted", "backend": "structural-identity", "time_s": 0}, fnl)
                    if not okst:
                        fails.append(dict(name=base + ".stored", cls=cls.__name__, attr=attr, kind=kname, why=f"stored {stored!r}"))
                else:
                    r = solve.discharge(ctx.pc, z3.Not(must))
                    rep.obligation(base + ".rejected=>outside-documented-format", r, fnl, "post")
                    if r["status"] == "refuted":
                        fails.append(dict(name=base + ".rejected=>outside-documented-format", cls=cls.__name__, attr=attr, kind=kname,
                                          why="a value of the documented format is rejected"))
                    rep.obligation(base + ".rejected=>object-unchanged", {"status": "discharged" if unchanged else "refuted", "backend": "structural-identity", "time_s": 0}, fnl, "exceptional")
                    if not unchanged:
                        fails.append(dict(name=base + ".rejected=>object-unchanged", cls=cls.__name__, attr=attr, kind=kname, why="attributes changed although the assignment was rejected"))
    return fails


def scalar_obligations(rep):
    from magpylib._src.exceptions import MagpylibBadUserInput

    fails = []
    icns = ic_namespace()
    for cls, attr, store, nonneg in scalar_table():
        mod, owner = _module_of(cls, attr)
        prop = owner.__dict__[attr]
        rep.function(describe(prop))
        fnl = describe(prop)["function"]
        ns = rebind(mod, dict(np=NPv, len=s_len, isinstance=v_isinstance, float=s_float, check_format_input_scalar=icns["check_format_input_scalar"]))
        C = rebind_class(owner, ns, names={attr})
        kinds = {"number": lambda: ANumber("v"), "None": lambda: None, "str": lambda: "1.5", "list": lambda: [1.0], "other-object": lambda: object()}
        for kname, mk in kinds.items():
            def body():
                o = object.__new__(C)
                pre = {store: "OLD"}
                o.__dict__.update(pre)
                val = mk()
                try:
                    setattr(o, attr, val)
                except MagpylibBadUserInput:
                    return "reject", dict(o.__dict__) == pre, val, o
                return "accept", None, val, o

            for i, (ctx, (kind, res)) in enumerate(explore(body), 1):
                rep.paths += 1
                base = f"{cls.__name__}.{attr}=[{kname}]@path{i}"
                if kind != "ok":
                    st = "unknown" if kind == "unsupported" else "refuted"
                    rep.obligation(base + ".no-foreign-exception", {"status": st, "backend": "symex", "time_s": 0, "reason": str(res)[:200]}, fnl, "exceptional")
                    if st == "refuted":
                        fails.append(dict(name=base + ".no-foreign-exception", cls=cls.__name__, attr=attr, kind=kname, why=repr(res)))
                    continue
                what, unchanged, val, o = res
                if kname == "number":
                    good = (val.t >= 0) if nonneg else z3.BoolVal(True)
                elif kname == "None":
                    good = z3.BoolVal(True)
                else:
                    good = z3.BoolVal(False)
                goal = good if what == "accept" else z3.Not(good)
                r = solve.discharge(ctx.pc, goal)
                rep.obligation(base + (".accepted=>documented-format" if what == "accept" else ".rejected=>outside-documented-format"), r, fnl)
                if r["status"] == "refuted":
                    fails.append(dict(name=base, cls=cls.__name__, attr=attr, kind=kname, why=f"{what} disagrees with the documented format"))
                if what == "accept":
                    stored = o.__dict__.get(store)
                    okst = stored is val or (val is None and stored is None)
                    rep.obligation(base + ".stored-value-equals-input", {"status": "discharged" if okst else "refuted", "backend": "structural-identity", "time_s": 0}, fnl)
                    if not okst:
                        fails.append(dict(name=base + ".stored", cls=cls.__name__, attr=attr, kind=kname, why=f"stored {stored!r}"))
                else:
                    rep.obligation(base + ".rejected=>object-unchanged", {"status": "discharged" if unchanged else "refuted", "backend": "structural-identity", "time_s": 0}, fnl, "exceptional")
                    if not unchanged:
                        fails.append(dict(name=base + ".unchanged", cls=cls.__name__, attr=attr, kind=kname, why="changed on reject"))
    return fails


def magnet_codependent(rep):
    """magnetization / polarization: None is a documented value ('not yet set'); both attributes stay consistent"""
    import magpylib._src.obj_classes.class_BaseExcitations as BE

    fails = []
    for which, other in (("magnetization", "_polarization"), ("polarization", "_magnetization")):
        fnl = describe(getattr(BE.BaseMagnet, which))["function"]
        ns = rebind(BE, dict(check_format_input_vector=lambda inp, **k: inp))
        C = rebind_class(BE.BaseMagnet, ns, names={which, "_magnetization_low_warning"})
        o = object.__new__(C)
        o.__dict__.update({"_polarization": "J0", "_magnetization": "M0"})
        try:
            setattr(o, which, None)
            ok = o._polarization is None and o._magnetization is None
            why = f"after {which}=None: polarization={o._polarization!r}, magnetization={o._magnetization!r}"
        except Exception as e:  # pylint: disable=broad-except
            ok = False
            why = f"{which} = None raises {type(e).__name__}: {e}; state polarization={o._polarization!r} magnetization={o._magnetization!r}"
        nm = f"BaseMagnet.{which}=None.accepted-and-both-attributes-None"
        rep.obligation(nm, {"status": "discharged" if ok else "refuted", "backend": "concrete-execution-of-the-real-setter", "time_s": 0}, fnl)
        if not ok:
            fails.append(dict(name=nm, cls="Cuboid", attr=which, kind="None", why=why))
    return fails


def misc_obligations(rep):
    """handedness, start/degrees validators, field input: finite domains, the real code is executed on representative kinds"""
    import magpylib._src.input_checks as IC
    import magpylib._src.obj_classes.class_Sensor as SE
    from magpylib._src.exceptions import MagpylibBadUserInput

    fails = []
    cases = []
    C = rebind_class(SE.Sensor, rebind(SE, {}), names={"handedness"})
    for val, good in (("right", True), ("left", True), ("up", False), (None, False), (1, False), (["left"], False), (("left",), False), ({"left"}, False)):
        cases.append((f"Sensor.handedness={val!r}", describe(SE.Sensor.handedness)["function"], (lambda v=val: setattr(object.__new__(C), "handedness", v)), good))
    for val, good in ((0, True), (-3, True), (np.int64(2), True), ("auto", True), ("first", False), (1.5, False), (None, False), ([1], False), (True, True)):
        cases.append((f"check_start_type({val!r})", describe(IC.check_start_type)["function"], (lambda v=val: IC.check_start_type(v)), good))
    for val, good in ((True, True), (False, True), (1, False), ("yes", False), (None, False)):
        cases.append((f"check_degree_type({val!r})", describe(IC.check_degree_type)["function"], (lambda v=val: IC.check_degree_type(v)), good))
    for val, good in (("B", True), ("H", True), ("J", True), ("M", True), ("b", False), ("BH", False), (None, False), (["B"], False), (1, False)):
        cases.append((f"check_field_input({val!r})", describe(IC.check_field_input)["function"], (lambda v=val: IC.check_field_input(v)), good))
    rep.function(describe(SE.Sensor.handedness))
    for f in (IC.check_start_type, IC.check_degree_type, IC.check_field_input):
        rep.function(describe(f))
    for name, fnl, call, good in cases:
        try:
            call()
            out = "accept"
        except MagpylibBadUserInput:
            out = "reject"
        except Exception as e:  # pylint: disable=broad-except
            out = f"foreign {type(e).__name__}: {e}"
        ok = out == ("accept" if good else "reject")
        rep.obligation(name + (".accepted" if good else ".rejected-with-input-error"), {"status": "discharged" if ok else "refuted", "backend": "exhaustive-finite(kinds)", "time_s": 0}, fnl)
        if not ok:
            fails.append(dict(name=name, cls="Sensor" if "handedness" in name else "input_checks", attr="handedness" if "handedness" in name else name,
                              kind="value", why=f"outcome: {out}"))
    return fails


# --------------------------------------------------------------------------------------------- bounded stand-in (grammar sweep)
def grammar():
    vals = {
        "None": None, "int": 2, "float": 1.5, "neg": -1.0, "zero": 0.0, "bool": True, "str": "abc", "numstr": "1.5",
        "(3,)": (1.0, 2.0, 3.0), "[3]int": [1, 2, 3], "(3,)neg": (-1.0, 2.0, 3.0), "(3,)zero": (0.0, 2.0, 3.0), "(2,)": (1.0, 2.0), "(4,)": (1.0, 2.0, 3.0, 4.0),
        "(5,)seg": (1.0, 2.0, 1.0, 0.0, 90.0), "(5,)seg_r": (2.0, 1.0, 1.0, 0.0, 90.0), "(5,)seg_phi": (1.0, 2.0, 1.0, 90.0, 0.0), "(5,)seg_360": (1.0, 2.0, 1.0, 0.0, 400.0),
        "(5,)seg_h": (1.0, 2.0, -1.0, 0.0, 90.0), "(1,3)": [(1.0, 2.0, 3.0)], "(2,3)": [(0.0, 0.0, 0.0), (1.0, 0.0, 0.0)],
        "(3,3)": [(0.0, 0.0, 0.0), (1.0, 0.0, 0.0), (0.0, 1.0, 0.0)], "(4,3)": [(0.0, 0.0, 0.0), (1.0, 0.0, 0.0), (0.0, 1.0, 0.0), (0.0, 0.0, 1.0)],
        "(5,3)": [(0.0, 0.0, 0.0)] * 5, "(4,2)": np.ones((4, 2)), "(3,2)": np.ones((3, 2)), "(4,4)": np.ones((4, 4)), "(2,2,3)": np.ones((2, 2, 3)), "(0,3)": np.zeros((0, 3)),
        "0-d": np.array(1.0), "empty": [], "(3,)complex": [1.0, 2.0, 1j], "(3,)dict": [1.0, 2.0, {}], "(3,)obj": [1.0, 2.0, object()], "ragged": [1, [2, 3], 4], "strs": ["1", "2", "x"], "(3,1)": [[1.0], [2.0], [3.0]], "dict": {"a": 1}, "complex": 1 + 2j,
        "[left]": ["left"], "right": "right",
    }
    return vals


# expectations taken from the property statement: negative sizes, wrong vertex count, inner radius above outer radius,
# reversed or more than 360 degree angle range are invalid; documented formats (incl. None) are valid and read back equal
MUST_REJECT = {
    ("Cuboid", "dimension"): ["(3,)neg", "(2,)", "(4,)", "str", "float", "(1,3)"],
    ("Cylinder", "dimension"): ["(2,3)", "(3,)", "str", "neg"],
    ("CylinderSegment", "dimension"): ["(5,)seg_r", "(5,)seg_phi", "(5,)seg_360", "(5,)seg_h", "(3,)", "(4,)"],
    ("Sphere", "diameter"): ["neg", "str", "(3,)", "[3]int"],
    ("Circle", "diameter"): ["neg", "str", "(3,)"],
    ("Circle", "current"): ["str", "(3,)", "dict"],
    ("Tetrahedron", "vertices"): ["(3,3)", "(5,3)", "(4,2)", "(4,4)", "(3,)", "str"],
    ("Triangle", "vertices"): ["(2,3)", "(4,3)", "(1,3)", "(3,2)", "(3,)", "str"],
    ("Polyline", "vertices"): ["(1,3)", "(3,2)", "(3,)", "str"],
    ("Dipole", "moment"): ["(2,)", "(1,3)", "str", "float"],
    ("Sensor", "pixel"): ["(2,)", "(3,2)", "float", "str", "0-d"],
    ("Sensor", "handedness"): ["str", "None", "int", "[left]"],
    ("Cuboid", "polarization"): ["(2,)", "(1,3)", "str", "float", "ragged", "strs"],
    ("Cuboid", "position"): ["(2,)", "(2,2,3)", "str", "float", "(0,3)"],
}
MUST_ACCEPT = {
    ("Cuboid", "dimension"): ["(3,)", "[3]int", "None"], ("Cylinder", "dimension"): ["(2,)", "None"], ("CylinderSegment", "dimension"): ["(5,)seg", "None"],
    ("Sphere", "diameter"): ["float", "int", "None"], ("Circle", "current"): ["float", "int", "neg", "None"],
    ("Tetrahedron", "vertices"): ["(4,3)", "None"], ("Triangle", "vertices"): ["(3,3)", "None"], ("Polyline", "vertices"): ["(2,3)", "(5,3)", "None"],
    ("Dipole", "moment"): ["(3,)", "None"], ("Sensor", "pixel"): ["(3,)", "(2,3)", "(2,2,3)", "None"], ("Sensor", "handedness"): ["right"],
    ("Cuboid", "polarization"): ["(3,)", "(3,)neg", "None"], ("Cuboid", "magnetization"): ["(3,)", "None"], ("Cuboid", "position"): ["(3,)", "(2,3)"],
}


def native_sweep(seed):
    """grammar sweep on the real classes: every attribute x every value; returns (runs, messages)"""
    import warnings

    import magpylib as magpy
    from magpylib._src.exceptions import MagpylibBadUserInput, MagpylibMissingInput

    warnings.simplefilter("ignore")
    mk = {
        "Cuboid": lambda: magpy.magnet.Cuboid(dimension=(1, 2, 3), polarization=(.1, .2, .3)),
        "Cylinder": lambda: magpy.magnet.Cylinder(dimension=(1, 2), polarization=(.1, .2, .3)),
        "CylinderSegment": lambda: magpy.magnet.CylinderSegment(dimension=(1, 2, 3, 10, 200), polarization=(.1, .2, .3)),
        "Sphere": lambda: magpy.magnet.Sphere(diameter=1.5, polarization=(.1, .2, .3)),
        "Tetrahedron": lambda: magpy.magnet.Tetrahedron(vertices=[(0, 0, 0), (1, 0, 0), (0, 1, 0), (.2, .3, 1)], polarization=(.1, .2, .3)),
        "Triangle": lambda: magpy.misc.Triangle(vertices=[(0, 0, 0), (1, 0, 0), (0, 1, .3)], polarization=(.1, .2, .3)),
        "Circle": lambda: magpy.current.Circle(diameter=1.2, current=1.5),
        "Polyline": lambda: magpy.current.Polyline(vertices=[(0, 0, 0), (1, 0, 0), (1, 1, .5)], current=1.5),
        "Dipole": lambda: magpy.misc.Dipole(moment=(1, 2, 3)),
        "Sensor": lambda: magpy.Sensor(pixel=[(1, 2, 3), (2, 3, 4)]),
    }
    attrs = {"Cuboid": ["dimension", "polarization", "magnetization", "position"], "Cylinder": ["dimension"], "CylinderSegment": ["dimension"],
             "Sphere": ["diameter", "polarization"], "Tetrahedron": ["vertices", "magnetization"], "Triangle": ["vertices"], "Circle": ["diameter", "current"],
             "Polyline": ["vertices", "current"], "Dipole": ["moment"], "Sensor": ["pixel", "handedness", "position"]}
    bad, runs = [], 0
    for cname, alist in attrs.items():
        for attr in alist:
            for vname, val in grammar().items():
                runs += 1
                o = mk[cname]()
                before = {k: (v.copy() if isinstance(v, np.ndarray) else v) for k, v in o.__dict__.items() if not k.startswith("_style")}
                passed = val.copy() if isinstance(val, np.ndarray) else (np.array(val, dtype=float) if vname in ("(3,)", "(2,)", "(5,)seg", "(4,3)", "(3,3)", "(2,3)") else val)
                try:
                    setattr(o, attr, passed)
                    accepted = True
                except MagpylibBadUserInput:
                    accepted = False
                except Exception as e:  # pylint: disable=broad-except
                    bad.append(f"{cname}.{attr} = <{vname}>: raises {type(e).__name__} instead of the library's input error")
                    accepted = None
                if accepted is True and vname in MUST_REJECT.get((cname, attr), ()):
                    bad.append(f"{cname}.{attr} = <{vname}>: accepted although the documented format / geometry excludes it")
                if accepted is False and vname in MUST_ACCEPT.get((cname, attr), ()):
                    bad.append(f"{cname}.{attr} = <{vname}>: rejected although it has the documented format")
                if accepted is True and vname in MUST_ACCEPT.get((cname, attr), ()) and attr != "handedness":
                    back = getattr(o, attr)
                    if (val is None) != (back is None) or (val is not None and not np.allclose(np.asarray(back, dtype=float), np.asarray(val, dtype=float))):
                        bad.append(f"{cname}.{attr} = <{vname}>: value read back differs from the value assigned")
                if accepted is False or accepted is None:
                    after = {k: v for k, v in o.__dict__.items() if not k.startswith("_style")}
                    same = before.keys() == after.keys() and all(
                        (np.array_equal(before[k], after[k]) if isinstance(before[k], np.ndarray) else (before[k] is after[k] or before[k] == after[k]
                                                                                                         or hasattr(before[k], "as_quat")))
                        for k in before)
                    if not same:
                        bad.append(f"{cname}.{attr} = <{vname}>: rejected but the object changed")
                if accepted and cname != "Sensor":
                    try:
                        with np.errstate(all="ignore"):
                            magpy.getB(o, (1.1, 2.2, 3.3))
                    except (MagpylibMissingInput,):
                        pass
                    except Exception as e:  # pylint: disable=broad-except
                        bad.append(f"{cname}.{attr} = <{vname}>: accepted, but the field computation later fails with {type(e).__name__}")
                if accepted and isinstance(passed, np.ndarray) and passed.ndim >= 1 and attr != "handedness":
                    stored = getattr(o, "_" + attr, None)
                    if stored is not None and isinstance(stored, np.ndarray) and np.shares_memory(stored, passed):
                        bad.append(f"{cname}.{attr} = <{vname}>: stored value shares memory with the caller's array (not an independent copy)")
    # TriangularMesh takes vertices and faces only through its constructor; a few geometry cases of bodies made of triangles
    V = [(0, 0, 0), (1, 0, 0), (0, 1, 0), (0, 0, 1)]
    F = [(0, 2, 1), (0, 1, 3), (1, 2, 3), (0, 3, 2)]
    tm_cases = {
        "valid": (V, F, True), "vertices (4,2)": (np.ones((4, 2)), F, False), "vertices (3,)": ((1, 2, 3), F, False), "faces (4,2)": (V, np.zeros((4, 2), dtype=int), False),
        "faces 'str'": (V, "abc", False), "vertices None": (None, F, False),
        "faces index beyond the vertices": (V, [(0, 2, 1), (0, 1, 3), (1, 2, 3), (0, 3, 7)], False),
        "faces with a non-integer index 2.5": (V, [(0, 2, 1), (0, 1, 3), (1, 2, 3), (0, 3, 2.5)], False),
    }
    for vname, (vv, ff, good) in tm_cases.items():
        runs += 1
        try:
            o = magpy.magnet.TriangularMesh(vertices=vv, faces=ff, polarization=(.1, .2, .3))
            accepted = True
        except (MagpylibBadUserInput, MagpylibMissingInput):  # both are the library's own input errors
            accepted = False
        except Exception as e:  # pylint: disable=broad-except
            bad.append(f"TriangularMesh.faces/vertices = <{vname}>: raises {type(e).__name__} instead of the library's input error")
            continue
        if accepted and not good:
            back = np.asarray(o.faces, dtype=float)
            if not np.array_equal(back, np.asarray(ff, dtype=float)):
                bad.append(f"TriangularMesh.faces/vertices = <{vname}>: accepted and silently truncated (read back {back[-1].tolist()})")
            else:
                bad.append(f"TriangularMesh.faces/vertices = <{vname}>: accepted although the documented format excludes it")
        if not accepted and good:
            bad.append(f"TriangularMesh.faces/vertices = <{vname}>: rejected although it has the documented format")
        if accepted and good:
            try:
                magpy.getB(o, (1.1, 2.2, 3.3))
            except Exception as e:  # pylint: disable=broad-except
                bad.append(f"TriangularMesh <{vname}>: accepted, but the field computation later fails with {type(e).__name__}")
    for cname, verts in (("Tetrahedron", [(0, 0, 0), (1, 0, 0), (0, 1, 0), (1, 1, 0)]), ("Tetrahedron", [(0, 0, 0)] * 4)):
        runs += 1
        try:
            o = magpy.magnet.Tetrahedron(vertices=verts, polarization=(.1, .2, .3))
        except MagpylibBadUserInput:
            continue
        try:
            with np.errstate(all="ignore"):
                magpy.getB(o, (1.1, 2.2, 3.3))
        except Exception as e:  # pylint: disable=broad-except
            bad.append(f"{cname}.vertices = <zero volume {verts[3]}>: accepted, but the field computation later fails with {type(e).__name__}")
    return runs, bad


REPLAY = """import sys
from checks.c17 import native_sweep
n, bad = native_sweep(0)
sel = [b for b in bad if {pat!r} in b] or bad
for b in sel[:8]: print(b)
sys.exit(1 if sel else 0)
"""


def main(tier, seed):
    import magpylib._src.input_checks as IC

    rep = Report(PID, tier, seed, "proof")
    for f in (IC.check_array_shape, IC.check_format_input_vector, IC.check_format_input_scalar, IC.check_format_input_vertices,
              IC.check_format_input_cylinder_segment, IC.is_array_like, IC.make_float_array):
        rep.function(describe(f))
    rep.assumed_contract("np.array(x, dtype=float): same shape and values, fresh array; raises for non-numeric / ragged content")
    rep.assume("abstraction of inputs: kind in {None, number, str, other object, array-like of symbolic rank <= 4 and symbolic shape}; "
               "NumPy coercion corners (bool, numeric strings, 0-d arrays) only in the bounded grammar sweep")
    rep.assume("position / orientation setters: validators' accept/reject is covered here through check_format_input_vector; their path semantics is C09")
    rep.explanation = "real validators and setters executed on abstract inputs to path exhaustion; accept <=> documented format, reject => input error and unchanged state"
    fails = setter_obligations(rep) + scalar_obligations(rep) + magnet_codependent(rep) + misc_obligations(rep)
    runs, bad = native_sweep(seed)
    known = {k["id"]: k for k in load_known() if k["property"] == PID and k.get("status") == "known"}
    kn_hit = set()
    bad2 = []
    for b in bad:
        kid = next((kk for kk, kv in known.items() if all(tok in b for tok in kv.get("match", ["\0"]))), None)
        if kid:
            kn_hit.add(kid)
        else:
            bad2.append(b)
    for kid in sorted(kn_hit):
        rep.known_finding(known[kid])
    rep.standin("grammar sweep on the real classes: every attribute x every value of the grammar; accepted objects must survive getB", f"{len(grammar())} values x 21 attributes",
                runs, runs, "value grammar: scalars, nested sequences of several ranks/lengths, None, strings, mutated valid values", [dict(attr="Triangle.vertices", value="(4,3)")],
                failures=len(bad2), exhaustive=True)
    for f in fails:
        pat = f"{f.get('cls')}.{f.get('attr')}"
        hit = [b for b in bad2 if pat in b]
        if hit:
            rep.violation(f["name"], {"why": f["why"], "native_result": hit[0], "script": REPLAY.format(pat=pat)})
        else:
            rep.violation(f["name"], {"why": f["why"], "solver_output": json.dumps({k: v for k, v in f.items() if k != "name"}, default=str)}, found_input=False)
    if not fails:
        for b in bad2[:3]:
            rep.violation("standin.grammar-sweep", {"native_result": b, "script": REPLAY.format(pat=b.split(" =")[0])})
    return rep.finish()
