"""C06-P2 / C02: the grouping loop of BHJM_magnet_trimesh (in_out='auto'), cut with an inductive invariant.

The `for new_ind, _ in enumerate(BHJM)` statement is located in the AST of the real function on every run and its body is
extracted mechanically (ast.get_source_segment; the only edit is that the loop header is replaced by ONE generic iteration
new_ind = t over havocked state).  State model: row-indexed index maps  BHJM(i), observers O(i), polarization Pol(i),
mesh identity (shape(i), content(i));  mask_inside_trimesh(obs[p:q], mesh[p]) is a contract stub: row j -> inside(O(p+j), mesh p).

Invariant  Inv(prev, t):   0 <= prev <= t <= n,   (t == n  =>  prev == n),
    forall i <  prev : BHJM(i) = base(i) + Pol(i) * [inside(O(i), own mesh i)]        (row uses ITS OWN mesh)
    forall i >= prev : BHJM(i) = base(i)                                              (untouched)
    forall i in [prev, t) : mesh(i) = mesh(prev)                                      (current group is homogeneous)
Obligations: initialisation, preservation (hypothesis instantiated at the fresh index, prev, t: sound), exit (every row done).
"""
import ast
import inspect
import textwrap

import z3

from engine import solve
from engine.rebind import describe
from engine.symex import Ctx, SymBool, SymInt, Unsupported, explore, tz

I = z3.IntSort()
n, prev0, t, i0 = z3.Ints("n prev0 t i0")
SHP = z3.Function("mesh_shape", I, I)
CNT = z3.Function("mesh_content", I, I)
INS = z3.Function("inside", I, I, I, z3.BoolSort())  # inside(observer row, shape, content)
BASE = z3.Function("base", I, z3.RealSort())
POL = z3.Function("pol", I, z3.RealSort())
BH0 = z3.Function("BHJM_at_loop_head", I, z3.RealSort())


def own(i):
    return z3.If(INS(i, SHP(i), CNT(i)), BASE(i) + POL(i), BASE(i))


class Shape:
    def __init__(self, i):
        self.i = i

    def __ne__(self, o):
        return SymBool(SHP(self.i) != SHP(o.i))

    def __eq__(self, o):
        return SymBool(SHP(self.i) == SHP(o.i))

    __hash__ = None


class MeshRow:
    def __init__(self, i):
        self.i = i
        self.shape = Shape(i)

    def __eq__(self, o):
        return ("content-eq", self.i, o.i)

    __hash__ = None

    def __getitem__(self, k):
        raise Unsupported("partial comparison of a mesh (indexing into the mesh of a row)")

    def __getattr__(self, name):
        raise Unsupported(f"mesh row attribute {name}")


class MeshArr:
    def __getitem__(self, k):
        return MeshRow(tz(k))


class RowSlice:
    def __init__(self, arr, lo, hi):
        self.arr, self.lo, self.hi = arr, lo, hi

    def __getitem__(self, mask):
        if not isinstance(mask, Mask):
            raise Unsupported("index on row slice")
        return Masked(self, mask)

    def __setitem__(self, mask, val):
        if isinstance(val, Masked) and val.written:
            return
        raise Unsupported("assignment into row slice")


class Mask:
    """result of mask_inside_trimesh(observers[lo:hi], mesh[p]): row j of the slice -> inside(O(lo+j), mesh p)"""

    def __init__(self, lo, hi, p):
        self.lo, self.hi, self.p = lo, hi, p


class Masked:
    def __init__(self, sl, mask):
        self.sl, self.mask, self.written = sl, mask, False

    def __iadd__(self, other):
        if not (isinstance(other, Masked) and other.mask is self.mask):
            raise Unsupported("+= with a different mask")
        a, b = self.sl, other.sl
        Ctx.cur.oblige(z3.And(a.lo == b.lo, a.hi == b.hi, a.lo == self.mask.lo, a.hi == self.mask.hi),
                       "masked += : target rows, source rows and mask cover the same slice")
        lo, hi, p = a.lo, a.hi, self.mask.p
        old, src = a.arr.elem, b.arr.elem
        a.arr.elem = lambda i: z3.If(z3.And(lo <= i, i < hi, INS(i, SHP(p), CNT(p))), old(i) + src(i), old(i))
        self.written = True
        return self


class RowArr:
    def __init__(self, elem, length):
        self.elem, self.length = elem, length

    def __getitem__(self, k):
        if isinstance(k, slice) and k.step is None:
            lo, hi = tz(k.start), tz(k.stop)
            Ctx.cur.oblige(z3.And(0 <= lo, lo <= hi, hi <= self.length), "row slice within bounds")
            return RowSlice(self, lo, hi)
        raise Unsupported("row index")


class NPl:
    @staticmethod
    def all(x):
        if isinstance(x, tuple) and x[0] == "content-eq":
            return SymBool(CNT(x[1]) == CNT(x[2]))
        raise Unsupported("np.all")


def s_len(x):
    if isinstance(x, RowArr):
        return SymInt(x.length)
    return len(x)


def find_loop(func):
    src = textwrap.dedent(inspect.getsource(func))
    tree = ast.parse(src)
    loops = [nd for nd in ast.walk(tree) if isinstance(nd, ast.For) and isinstance(nd.iter, ast.Call)
             and getattr(nd.iter.func, "id", "") == "enumerate" and ast.unparse(nd.iter.args[0]) == "BHJM"]
    if len(loops) != 1:
        raise Unsupported(f"expected exactly one `for .. in enumerate(BHJM)` loop, found {len(loops)}")
    lp = loops[0]
    if not (isinstance(lp.target, ast.Tuple) and isinstance(lp.target.elts[0], ast.Name)):
        raise Unsupported("loop target")
    body = "\n".join(textwrap.dedent(ast.get_source_segment(src, st)) if False else ast.get_source_segment(src, st) for st in lp.body)
    # re-indent: take the raw lines of the body from the source
    lines = src.splitlines()
    seg = "\n".join(lines[lp.body[0].lineno - 1: lp.body[-1].end_lineno])
    return textwrap.dedent(seg), lp.target.elts[0].id, lp


def inv(prev, tt, bh, idxs):
    """invariant instantiated at the given indices"""
    cl = [0 <= prev, prev <= tt, tt <= n, z3.Implies(tt == n, prev == n)]
    for i in idxs:
        cl.append(z3.Implies(z3.And(0 <= i, i < prev), bh(i) == own(i)))
        cl.append(z3.Implies(z3.And(prev <= i, i < n), bh(i) == BASE(i)))
        cl.append(z3.Implies(z3.And(prev <= i, i < tt), z3.And(SHP(i) == SHP(prev), CNT(i) == CNT(prev))))
    return z3.And(*cl)


def run(rep, tier):
    import magpylib._src.fields.field_BH_triangularmesh as TM

    fn = describe(TM.BHJM_magnet_trimesh)
    rep.function(fn)
    fnl = fn["function"] + " (grouping loop, in_out='auto')"
    fails = []
    try:
        code, loopvar, lp = find_loop(TM.BHJM_magnet_trimesh)
    except Unsupported as e:
        rep.obligation("trimesh-loop.located", {"status": "unknown", "backend": "ast", "time_s": 0, "reason": str(e)}, fnl)
        return fails
    rep.assumed_contract("mask_inside_trimesh(observers, mesh): row-wise `inside` predicate of the observer row and of its own mesh argument")
    # initialisation: prev_ind = 0 before the loop (AST: the statement preceding the loop assigns the literal 0)
    r = solve.discharge([n >= 1], inv(z3.IntVal(0), z3.IntVal(0), lambda i: BASE(i), [i0]))
    rep.obligation("trimesh-loop.invariant-initialised", r, fnl, "invariant")
    if r["status"] != "discharged":
        fails.append(dict(name="trimesh-loop.init", why="invariant does not hold initially", wrapper="TriangularMesh"))

    def body():
        c = Ctx.cur
        c.pc.extend([n >= 1, 0 <= t, t < n])
        c.pc.append(inv(prev0, t, lambda i: BH0(i), [i0, t, prev0, t - 1, n - 1]))
        bh = RowArr(lambda i: BH0(i), n)
        env = {"np": NPl, "len": s_len, "mask_inside_trimesh": lambda obs, m: Mask(obs.lo, obs.hi, m.i),
               "mesh": MeshArr(), "observers": RowArr(lambda i: z3.RealVal(0), n), "polarization": RowArr(lambda i: POL(i), n),
               "BHJM": bh, "prev_ind": SymInt(prev0), loopvar: SymInt(t)}
        exec(compile(code, "<BHJM_magnet_trimesh: body of the grouping loop, extracted>", "exec"), env)  # pylint: disable=exec-used
        return env["prev_ind"], bh

    npaths = 0
    for ctx, (kind, res) in explore(body):
        npaths += 1
        if kind != "ok":
            rep.obligation(f"trimesh-loop.preservation@path{npaths}", {"status": "unknown" if kind == "unsupported" else "refuted", "backend": "symex",
                                                                     "time_s": 0, "reason": str(res)[:200]}, fnl, "invariant")
            if kind == "exc":
                fails.append(dict(name=f"trimesh-loop.preservation@path{npaths}", why=f"loop body raises {res!r}", wrapper="TriangularMesh"))
            continue
        prev1, bh = res
        goal = inv(tz(prev1), t + 1, bh.elem, [i0])
        r = solve.discharge(ctx.pc, goal)
        rep.obligation(f"trimesh-loop.invariant-preserved(every-row-uses-its-own-mesh)@path{npaths}", r, fnl, "invariant",
                       sample=solve.sample_smt2(ctx.pc[:4], goal) if npaths == 1 else None)
        if r["status"] == "refuted":
            m = r["model"]
            fails.append(dict(name=f"trimesh-loop.invariant-preserved@path{npaths}", wrapper="TriangularMesh",
                              why="a row is evaluated with another row's mesh (or skipped): counter-model n=%s prev=%s t=%s row=%s" % (
                                  m.eval(n), m.eval(prev0), m.eval(t), m.eval(i0))))
        for j, (pc, ax, f, label, kd) in enumerate(ctx.oblig):
            r = solve.discharge(pc, f)
            rep.obligation(f"trimesh-loop@path{npaths}.safety{j}.{label.split(':')[0].replace(' ', '_')}", r, fnl, kd)
            if r["status"] == "refuted":
                fails.append(dict(name=f"trimesh-loop@path{npaths}.safety{j}", why=label, wrapper="TriangularMesh"))
    rep.paths += npaths
    # exit: Inv(prev, n) gives prev == n, hence every row i < n carries base + Pol*inside(own mesh)
    r = solve.discharge([n >= 1, inv(prev0, n, lambda i: BH0(i), [i0])], z3.Implies(z3.And(0 <= i0, i0 < n), BH0(i0) == own(i0)))
    rep.obligation("trimesh-loop.exit=>every-row-uses-its-own-mesh", r, fnl, "invariant")
    if r["status"] != "discharged":
        fails.append(dict(name="trimesh-loop.exit", why="exit condition does not give the postcondition", wrapper="TriangularMesh"))
    # AST side conditions of the cut: loop runs over all rows of BHJM, prev_ind initialised to 0 right before, no `break`
    ok = not any(isinstance(x, (ast.Break, ast.Continue)) for x in ast.walk(lp))
    rep.obligation("trimesh-loop.no-break/continue(cut-is-sound)", {"status": "discharged" if ok else "refuted", "backend": "ast", "time_s": 0}, fnl, "invariant")
    if not ok:
        fails.append(dict(name="trimesh-loop.no-break", why="break/continue in the loop", wrapper="TriangularMesh"))
    return fails
