"""C04 — a Sensor reports the global field at its pixels, in its own frame.  (bounded stand-in only, labelled)

The whole mechanism (pixel positions, three back-rotation paths, handedness flip, pixel aggregation with ragged pixel
shapes) lives inside the 280-line getBH_level2 over Python lists of objects whose lengths are the quantified structure:
outside the reach of the VC generator (DESIGN.md §4 C04).  What is checked:
 * term-exact execution (standins/level2.py): element (l,m,k,pix) = flip_k(S_k[m]^-1 . G_l,m(S_k[m].pix + s_k[m])) for all
   numeric values / rotations, structures bounded; pixel_agg mean / sum symbolically, also with different pixel shapes;
 * min / max / median / std / ptp numerically against the named NumPy reduction of the un-aggregated result.
"""
import itertools

import numpy as np

from engine.report import Report

PID = "C04"


def numeric_agg(seed, tier):
    """pixel_agg equals the named NumPy reduction over each sensor's pixels (real library, numeric)"""
    import magpylib as magpy
    from scipy.spatial.transform import Rotation as R

    rng = np.random.default_rng(seed)
    bad, n = [], 0
    aggs = ["mean", "sum", "min", "max", "median", "std", "ptp" if hasattr(np, "ptp") else "max", "amax", "var"]
    shapes = [(3,), (2, 3), (1, 3), (2, 2, 3), (4, 1, 3)]
    for trial in range(4 if tier == "quick" else 40):
        src = [magpy.magnet.Cuboid(dimension=(1, 2, 3), polarization=rng.normal(size=3)), magpy.misc.Dipole(moment=rng.normal(size=3))]
        sens = []
        for i in range(3):
            sh = shapes[int(rng.integers(0, len(shapes)))]
            m = int(rng.integers(1, 4))
            s = magpy.Sensor(pixel=rng.normal(size=sh) * 0.3, handedness=("left" if rng.integers(0, 2) else "right"))
            s._position = rng.normal(size=(m, 3)) + 4
            s._orientation = R.from_rotvec(rng.normal(size=(m, 3)))
            sens.append(s)
        for agg in aggs:
            n += 1
            try:
                got = magpy.getB(src, sens, pixel_agg=agg, squeeze=False)
            except Exception as e:  # pylint: disable=broad-except
                bad.append(f"pixel_agg={agg}: raised {type(e).__name__}: {e}")
                continue
            for k, s in enumerate(sens):
                full = magpy.getB(src, s, squeeze=False)  # (L, M, 1, pix..., 3)
                Mfull = got.shape[1]
                red = getattr(np, agg)(full.reshape(full.shape[0], full.shape[1], -1, 3), axis=2)
                if red.shape[1] != Mfull:  # shorter sensor path: stays at last pose
                    red = np.concatenate([red, np.repeat(red[:, -1:], Mfull - red.shape[1], axis=1)], axis=1)
                if not np.allclose(got[:, :, k, 0], red, rtol=1e-9, atol=1e-15):
                    bad.append(f"pixel_agg={agg}, sensor {k} (pixel shape {s.pixel.shape}): differs from np.{agg} over the sensor's pixels")
    return n, bad


def observer_order(seed):
    """sensors handed over inside (nested) Collections are evaluated in depth-first child order, each in its own frame"""
    import magpylib as magpy
    from scipy.spatial.transform import Rotation as R

    rng = np.random.default_rng(seed)
    bad, n = [], 0
    src = [magpy.magnet.Cuboid(dimension=(1, 2, 3), polarization=(.1, .2, .3)), magpy.misc.Dipole(moment=(1, 2, 3), position=(3, 0, 0))]

    def mk(i):
        s = magpy.Sensor(pixel=rng.normal(size=(2, 3)) * .3, handedness=("left" if i % 2 else "right"), position=rng.normal(size=3) + 4)
        s.rotate(R.from_rotvec(rng.normal(size=3)))
        return s

    layouts = {
        "flat collection": lambda s: (magpy.Collection(s[0], s[1], s[2]), [0, 1, 2]),
        "nested first": lambda s: (magpy.Collection(magpy.Collection(s[0]), s[1], s[2]), [0, 1, 2]),
        "nested middle": lambda s: (magpy.Collection(s[0], magpy.Collection(s[1], magpy.Collection(s[2])), s[3]), [0, 1, 2, 3]),
        "list with nested collection": lambda s: ([s[3], magpy.Collection(magpy.Collection(s[0]), s[1]), s[2]], [3, 0, 1, 2]),
    }
    for name, mkl in layouts.items():
        sens = [mk(i) for i in range(4)]
        obs, order = mkl(sens)
        n += 1
        got = magpy.getB(src, obs, squeeze=False)
        exp = np.stack([magpy.getB(src, sens[i], squeeze=False)[:, :, 0] for i in order], axis=2)
        if got.shape != exp.shape or not np.allclose(got, exp, rtol=1e-10, atol=1e-18):
            bad.append(f"observers as '{name}': result slots are not the sensors in depth-first child order")
    return n, bad


REPLAY_NUM = """import sys
from checks.c04 import numeric_agg
n, bad = numeric_agg({seed}, 'quick')
for b in bad[:5]: print(b)
sys.exit(1 if bad else 0)
"""


def main(tier, seed):
    from standins import level2

    rep = Report(PID, tier, seed, "proof")
    rep.explanation = ("the real getBH_level2 chain executed over symbolic-shape arrays: every element equals flip(S^-1 · G(S·pix + s)) for ALL path "
                       "lengths, pixel counts, poses and field functions, per enumerated object structure (checks/l2sym.py); in addition the bounded "
                       "term-exact stand-in (real NumPy on object arrays, also pixel grids of rank 3) and numeric checks of every named pixel_agg reduction")
    rep.assume("bounded stand-ins: NumPy's own index plumbing is trusted (it is the real NumPy operating on object arrays)")
    ns = level2.harness_ns()
    nst, nel, fails, sample = level2.sweep(ns, tier, seed + 4, "all", fields=("B",), sumups=(False,), aggs=(None, "mean", "sum"))
    level2.report(rep, "sensor frame / pixel positions / handedness / pixel_agg(mean,sum): term-exact", nst, nel, fails, sample,
                  "<= 2 sensors x pixel shapes {None,(3,),(2,3),(1,3),(2,2,3)} x path kinds {unit, static, varying} x <= 4 sources")
    n, bad = numeric_agg(seed, tier)
    rep.standin("pixel_agg = named NumPy reduction over each sensor's own pixels (numeric, ragged pixel shapes, paths)", "3 sensors, 9 reductions, random shapes",
                n, n, "random sensors with different pixel shapes and path lengths", [dict(agg="median", shapes="random")], failures=len(bad))
    n2, bad2 = observer_order(seed)
    rep.standin("sensors handed over inside (nested) Collections: result slots follow depth-first child order", "4 layouts", n2, max(n2, 2), "flat / nested-first / nested-middle / list with nested collection",
                [dict(layout="nested first")], failures=len(bad2), exhaustive=True)
    for b in bad2[:2]:
        rep.violation("standin.observer-order", {"native_result": b, "script": "import sys\nfrom checks.c04 import observer_order\nn,b=observer_order(0)\nprint(b)\nsys.exit(1 if b else 0)\n"})
    for b in bad[:2]:
        rep.violation("standin.pixel_agg-numeric", {"native_result": b, "script": REPLAY_NUM.format(seed=seed)})
    # level-2 evaluation for all path lengths and pixel counts (checks/l2sym.py): sensor frame, pixel positions, handedness, aggregator argument and output shape
    from checks import l2sym

    l2sym.report_fails(rep, l2sym.run(rep, tier, fams=['A', 'B', 'E'], stride={'B': 3}, kinds=("element", "shape", "agg", "safety")))
    return rep.finish()
