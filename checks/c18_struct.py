"""C18 (part): obligations on the real code of BaseGeo.copy and on the class registry that, TOGETHER WITH the contract of
copy.deepcopy (assumed: the result is an isomorphic object graph that shares no mutable object with the original, for instances
without copy hooks), give "a copy is equal, parentless and shares no mutable state".  Generated from the AST / the registry of
the working tree on every run:

  S1  every `deepcopy(self)` in copy() executes while `self._parent is None` (either under `self.parent is None`, or after the
      assignment `self._parent = None` with no other write to it in between)  => the copy has no parent and the copy does not
      climb into the original's tree;
  S2  after the deep copy, copy() writes only through `obj_copy` (assignments, setattr, mutating calls); `self` is only read;
  S3  the keyword loop applies every non-style keyword by `setattr(obj_copy, k, v)` — through the validating setters (C17);
  S4  no class reachable from a magpylib object (object classes, style classes, their bases) defines a copy / pickle hook
      (__deepcopy__, __copy__, __reduce__, __reduce_ex__, __getstate__, __setstate__, __getnewargs__): deepcopy's default
      behaviour applies to every instance;
  S5  no class-level mutable attribute (list / dict / set / ndarray defined in a class body) of those classes is mutated in place
      through an instance or the class anywhere in the package (it would be shared between original and copy: deepcopy does not
      copy class attributes);
  S6  no function of the object / style modules has a mutable default argument that is stored on the instance.
"""
import ast
import inspect
import textwrap

from engine.rebind import describe

HOOKS = ("__deepcopy__", "__copy__", "__reduce__", "__reduce_ex__", "__getstate__", "__setstate__", "__getnewargs__", "__getnewargs_ex__")
MUTATORS = {"append", "extend", "insert", "pop", "remove", "clear", "update", "setdefault", "popitem", "add", "discard", "sort", "reverse", "fill", "resize", "itemset", "put"}


def _st(ok, backend="ast"):
    return {"status": "discharged" if ok else "refuted", "backend": backend, "time_s": 0}


def object_classes():
    import magpylib as magpy
    from magpylib._src.defaults.defaults_utility import MagicProperties
    from magpylib._src.utility import get_registered_sources

    roots = list(get_registered_sources().values()) + [magpy.Sensor, magpy.Collection]
    seen, todo = [], list(roots)

    def subs(c):
        for s in c.__subclasses__():
            yield s
            yield from subs(s)

    todo += [c for c in subs(MagicProperties)]
    for c in todo:
        for b in c.__mro__:
            if b is not object and b not in seen and (b.__module__ or "").startswith("magpylib"):
                seen.append(b)
    return seen


def copy_body(rep):
    import magpylib._src.obj_classes.class_BaseGeo as BG

    fails = []
    d = describe(BG.BaseGeo.copy)
    rep.function(d)
    fnl = d["function"]
    fn = ast.parse(textwrap.dedent(inspect.getsource(BG.BaseGeo.copy))).body[0]
    body = [s for s in fn.body if not (isinstance(s, ast.Expr) and isinstance(getattr(s, "value", None), ast.Constant))]

    # ---- S1
    calls = []  # (deepcopy call node, context) with context in {"parent-none-branch", "after-detach", "other"}

    def is_dc(n):
        return isinstance(n, ast.Call) and getattr(n.func, "id", getattr(n.func, "attr", "")) == "deepcopy"

    def writes_parent(st, value_none=None):
        for n in ast.walk(st):
            if isinstance(n, ast.Assign):
                for t in n.targets:
                    if isinstance(t, ast.Attribute) and t.attr == "_parent" and ast.unparse(t.value) == "self":
                        if value_none is None:
                            return True
                        return isinstance(n.value, ast.Constant) and n.value.value is None
        return False

    def scan(stmts, parent_is_none):
        """parent_is_none: True if `self._parent is None` is known at the start of the block"""
        known = parent_is_none
        for st in stmts:
            if isinstance(st, ast.If):
                test = ast.unparse(st.test).replace(" ", "")
                if test in ("self.parentisnotNone", "self._parentisnotNone"):
                    scan(st.body, False)
                    scan(st.orelse, True)
                elif test in ("self.parentisNone", "self._parentisNone"):
                    scan(st.body, True)
                    scan(st.orelse, False)
                else:
                    scan(st.body, known)
                    scan(st.orelse, known)
                known = False if any(writes_parent(x) for x in ast.walk(st) if isinstance(x, ast.stmt)) else known
                continue
            if isinstance(st, ast.Try):
                scan(st.body, known)
                for h in st.handlers:
                    scan(h.body, False)
                scan(st.finalbody, False)
                known = False
                continue
            if isinstance(st, (ast.For, ast.While, ast.With)):
                scan(st.body, False)
                known = False
                continue
            for n in ast.walk(st):
                if is_dc(n):
                    calls.append((ast.unparse(n), known and ast.unparse(n.args[0]) == "self" if n.args else False))
            if writes_parent(st, value_none=True):
                known = True
            elif writes_parent(st):
                known = False

    scan(body, False)
    self_calls = [c for c in calls if c[0].replace(" ", "").startswith("deepcopy(self")]
    if not self_calls:
        # copy() is written in another way than `x = deepcopy(self)`: these structural obligations do not apply (undecided, the bounded contract check decides)
        for nm in ("S1.every-deepcopy(self)-runs-while-self._parent-is-None", "S2.writes-only-through-the-copy", "S3.keyword-overrides-are-applied-by-setattr-on-the-copy", "returns-the-deep-copy"):
            rep.obligation("BaseGeo.copy." + nm, {"status": "unknown", "backend": "ast", "time_s": 0, "reason": "copy() no longer has the recognised shape `x = deepcopy(self)`"}, fnl)
        return fails
    ok = all(k for _, k in self_calls)
    rep.obligation("BaseGeo.copy.S1.every-deepcopy(self)-runs-while-self._parent-is-None", _st(ok), fnl, "post",
                   sample={"deepcopy_calls": [c for c, _ in calls]})
    if not ok:
        fails.append(dict(name="BaseGeo.copy.S1", why=f"a deepcopy(self) call is not dominated by `self._parent is None`: {[c for c, k in self_calls if not k]}"))

    # ---- S2 / S3: statements after the first deepcopy write through obj_copy only
    flat = []

    def flatten(stmts):
        for st in stmts:
            flat.append(st)
            for f in ("body", "orelse", "finalbody"):
                flatten(getattr(st, f, []) or [])
            for h in getattr(st, "handlers", []) or []:
                flatten(h.body)

    flatten(body)
    copies = set()
    for st in flat:
        if isinstance(st, ast.Assign) and is_dc(st.value):
            copies |= {t.id for t in st.targets if isinstance(t, ast.Name)}
    offenders = []

    def root(n):
        while isinstance(n, (ast.Attribute, ast.Subscript, ast.Call)):
            n = n.value if not isinstance(n, ast.Call) else n.func
        return n.id if isinstance(n, ast.Name) else None

    for st in flat:
        for n in ast.walk(st):
            tg = []
            if isinstance(n, ast.Assign):
                tg = n.targets
            elif isinstance(n, (ast.AugAssign, ast.AnnAssign)):
                tg = [n.target]
            for t in tg:
                if isinstance(t, (ast.Attribute, ast.Subscript)) and root(t) == "self":
                    src = ast.unparse(n)
                    if src.replace(" ", "") not in ("self._parent=None", "self._parent=parent"):
                        offenders.append(src[:70])
            if isinstance(n, ast.Call):
                nm = getattr(n.func, "id", getattr(n.func, "attr", ""))
                if nm == "setattr" and n.args and root(n.args[0]) == "self":
                    offenders.append(ast.unparse(n)[:70])
                if isinstance(n.func, ast.Attribute) and nm in MUTATORS and root(n.func.value) == "self":
                    offenders.append(ast.unparse(n)[:70])
    rep.obligation("BaseGeo.copy.S2.writes-only-through-the-copy(self-is-only-read-apart-from-the-parent-detach/restore)", _st(not offenders), fnl, "frame")
    if offenders:
        fails.append(dict(name="BaseGeo.copy.S2", why=f"copy() writes through self: {offenders[:3]}"))
    setattrs = [ast.unparse(n) for st in flat for n in ast.walk(st) if isinstance(n, ast.Call) and getattr(n.func, "id", "") == "setattr"]
    ok3 = bool(setattrs) and all(root(ast.parse(s_).body[0].value.args[0]) in copies for s_ in setattrs)
    rep.obligation("BaseGeo.copy.S3.keyword-overrides-are-applied-by-setattr-on-the-copy", _st(ok3), fnl, "post", sample={"setattr": setattrs})
    if not ok3:
        fails.append(dict(name="BaseGeo.copy.S3", why=f"keyword overrides are not applied to the copy through setattr: {setattrs}"))
    ret = [ast.unparse(st.value) for st in flat if isinstance(st, ast.Return) and st.value is not None]
    ok4 = bool(ret) and all(r in copies for r in ret)
    rep.obligation("BaseGeo.copy.returns-the-deep-copy", _st(ok4), fnl, "post")
    if not ok4:
        fails.append(dict(name="BaseGeo.copy.return", why=f"copy() returns {ret}"))
    return fails


def registry(rep):
    import magpylib

    fails = []
    classes = object_classes()
    if len(classes) < 20:
        raise RuntimeError("vacuity: class registry too small")
    # ---- S4
    for c in classes:
        own = [h for h in HOOKS if h in c.__dict__]
        rep.obligation(f"S4.no-copy/pickle-hook[{c.__module__.split('.')[-1]}.{c.__name__}]", _st(not own, "exhaustive-finite(class registry)"), f"{c.__module__}:{c.__name__}", "frame")
        if own:
            fails.append(dict(name=f"S4[{c.__name__}]", why=f"{c.__name__} defines {own}: deepcopy's default contract does not apply"))
    # ---- S5: mutable class attributes and in-place mutation sites
    import numpy as np

    mutable = {}
    for c in classes:
        for k, v in c.__dict__.items():
            if isinstance(v, (list, dict, set, np.ndarray)) and not k.startswith("__"):
                mutable.setdefault(k, []).append(c.__name__)
    import os
    import pkgutil

    sites = {}
    pkg_dir = os.path.dirname(magpylib.__file__)
    nfiles = 0
    for root_, _, files in os.walk(pkg_dir):
        for f in files:
            if not f.endswith(".py"):
                continue
            nfiles += 1
            path = os.path.join(root_, f)
            try:
                tree = ast.parse(open(path, encoding="utf8").read())
            except SyntaxError:
                continue
            for n in ast.walk(tree):
                tgt = None
                if isinstance(n, ast.Call) and isinstance(n.func, ast.Attribute) and n.func.attr in MUTATORS and isinstance(n.func.value, ast.Attribute):
                    tgt = n.func.value
                elif isinstance(n, (ast.Assign, ast.AugAssign)):
                    for t in (n.targets if isinstance(n, ast.Assign) else [n.target]):
                        if isinstance(t, ast.Subscript) and isinstance(t.value, ast.Attribute):
                            tgt = t.value
                        elif isinstance(n, ast.AugAssign) and isinstance(t, ast.Attribute):
                            tgt = t
                if tgt is not None and tgt.attr in mutable and isinstance(tgt.value, ast.Name) and tgt.value.id in ("self", "cls", "obj", "src", "sens", "child"):
                    sites.setdefault(tgt.attr, []).append(f"{os.path.relpath(path, pkg_dir)}:{n.lineno}")
    # an instance attribute of the same name assigned in __init__ shadows the class attribute: then in-place mutation touches instance state only
    shadowed = set()
    for c in classes:
        for fn_name in ("__init__",):
            f = c.__dict__.get(fn_name)
            if f is None:
                continue
            try:
                t = ast.parse(textwrap.dedent(inspect.getsource(f)))
            except (OSError, TypeError):
                continue
            for n in ast.walk(t):
                if isinstance(n, ast.Assign):
                    for tg in n.targets:
                        if isinstance(tg, ast.Attribute) and ast.unparse(tg.value) == "self" and tg.attr in mutable:
                            shadowed.add(tg.attr)
    for k, owners in sorted(mutable.items()):
        bad = [s for s in sites.get(k, [])] if k not in shadowed else []
        rep.obligation(f"S5.class-level-mutable-attribute-never-mutated-in-place[{k} of {','.join(sorted(set(owners))[:3])}]", _st(not bad, f"ast-scan({nfiles} files)"), "magpylib", "frame")
        if bad:
            fails.append(dict(name=f"S5[{k}]", why=f"class attribute {k} (shared by all instances, not copied by deepcopy) is mutated in place at {bad[:3]}"))
    # ---- S6: mutable defaults stored on the instance
    import magpylib._src.defaults.defaults_utility as DU
    import magpylib._src.style as ST

    mods = {c.__module__ for c in classes} | {DU.__name__, ST.__name__}
    import importlib

    off = []
    nfun = 0
    for mname in sorted(mods):
        m = importlib.import_module(mname)
        try:
            tree = ast.parse(inspect.getsource(m))
        except (OSError, TypeError):
            continue
        for n in ast.walk(tree):
            if isinstance(n, (ast.FunctionDef, ast.AsyncFunctionDef)):
                nfun += 1
                defaults = list(n.args.defaults) + [d_ for d_ in n.args.kw_defaults if d_ is not None]
                names = [a.arg for a in n.args.args][len(n.args.args) - len(n.args.defaults):] + [a.arg for a, d_ in zip(n.args.kwonlyargs, n.args.kw_defaults) if d_ is not None]
                for nm, dv in zip(names, defaults):
                    if isinstance(dv, (ast.List, ast.Dict, ast.Set)) or (isinstance(dv, ast.Call) and getattr(dv.func, "id", "") in ("list", "dict", "set")):
                        stored = any(isinstance(x, ast.Assign) and isinstance(x.value, ast.Name) and x.value.id == nm and
                                     any(isinstance(t, ast.Attribute) and ast.unparse(t.value) == "self" for t in x.targets) for x in ast.walk(n))
                        mutated = any(isinstance(x, ast.Call) and isinstance(x.func, ast.Attribute) and x.func.attr in MUTATORS and
                                      isinstance(x.func.value, ast.Name) and x.func.value.id == nm for x in ast.walk(n))
                        if stored or mutated:
                            off.append(f"{mname.split('.')[-1]}.{n.name}({nm}=...)")
    rep.obligation(f"S6.no-mutable-default-argument-is-stored-on-an-instance-or-mutated({nfun} functions)", _st(not off, "ast-scan"), "magpylib", "frame")
    if off:
        fails.append(dict(name="S6", why=f"mutable default argument shared between calls: {off[:3]}"))
    return fails


def run(rep):
    rep.assumed_contract("copy.deepcopy(x): an object graph isomorphic to the one reachable from x, sharing no mutable object with it (instances without copy hooks, "
                         "lists, dicts, sets, ndarrays, scipy Rotation); immutable values and functions / classes / modules are shared")
    return copy_body(rep) + registry(rep)
