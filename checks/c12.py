"""C12 — results are invariant under the choice of length unit.

Proof part: a *homogeneity type derivation* (dimension calculus, engine/dimcalc.py) over the exact
terms that the real wrappers compute.  Each BHJM wrapper is executed row-generically (as in C02) to
path exhaustion; the resulting term DAG of every path — all branch masks in the path condition and
the three output components — is type-checked with degree 1 for every length input: sums and
comparisons need equal degrees, products add them, sqrt halves, arctan2 needs equal degrees,
transcendental functions need degree 0, and each core stub must receive arguments of the degrees of
its (assumed) homogeneity contract.  By structural induction a well-dimensioned term t satisfies
t[s*lengths] = s^d t for all s > 0, hence: every mask and J, M are unit-free; B, H have degree
0 (magnets) / -1 (currents) / -3 (dipole).  The same derivation with the excitation graded 1 shows
B, H (and J, M of magnets) homogeneous of degree 1 in the excitation.  An absolute constant added to or
compared with a length is a type error; those of CylinderSegment (1e-14, 1e-12) are known findings.
(A direct two-run formulation with symbolic s was tried first: z3/cvc5 did not finish the nonlinear
real arithmetic for Sphere/Cylinder/Circle within minutes; see DESIGN.md.)
Bounded stand-in: numeric decade sweep on the real classes.
"""
import itertools
import json

import numpy as np
import z3

from contracts import bhjm
from contracts.bhjm import MU0, WRAPPERS, Spec, col
from engine import solve
from engine.par import run_parallel
from engine.rebind import describe
from engine.report import Report, load_known
from engine.rowgen import G, NROWS, asreal, check_same_rows, uf, zabs, zlift, _obj_terms
from engine.symex import Ctx, Unsupported
from engine.dimcalc import ANY, DimCheck, DimError
from fractions import Fraction

PID = "C12"
S = z3.Real("s_unit")

# assumed homogeneity contracts of the core stubs (argument order of engine.rowgen.core_stub: positional, then keywords sorted
# by name): stub name -> (degree of every flattened argument in the LENGTH unit, output degree, same for the EXCITATION grading)
def _d(*groups):
    out = []
    for n, d in groups:
        out += d if isinstance(d, list) else [d] * n
    return [Fraction(x) for x in out]


STUB_RULES = {
    # name: (length-degrees, out, excitation-degrees, out)
    "cuboid_B": (_d((3, 1), (3, 1), (3, 0)), 0, _d((3, 0), (3, 0), (3, 1)), 1),  # dimensions, observers, polarizations
    "cyl_dia_H": (_d((4, 0)), 0, _d((4, 0)), 0),  # phi, r, z, z0 (dimensionless)
    "cyl_ax_B": (_d((3, 0)), 0, _d((3, 0)), 0),  # r, z, z0
    "seg_H": (_d((6, [1, 1, 0, 0, 1, 1]), (3, 0), (3, [1, 0, 1])), 0, _d((6, 0), (3, [1, 0, 0]), (3, 0)), 1),  # dimensions, magnetizations(m,phi,th), observers
    "triangle_B": (_d((3, 1), (3, 0), (9, 1)), 0, _d((3, 0), (3, 1), (9, 0)), 1),  # observers, polarizations, vertices
    "dipole_H": (_d((3, 0), (3, 1)), -3, _d((3, 1), (3, 0)), 1),  # moments, observers
    "circle_H": (_d((1, 0), (1, 1), (1, 1), (1, 1)), -1, _d((1, 1), (3, 0)), 1),  # i0, r, r0, z
    "polyline_H": (_d((1, 0), (3, 1), (3, 1), (3, 1)), -1, _d((1, 1), (9, 0)), 1),  # currents, observers, segments_end, segments_start
    "point_inside": (_d((15, 1)), 0, _d((15, 0)), 0),
    "det_neg": (_d((12, 1)), 0, _d((12, 0)), 0),
}

for _f in "BHJM":  # callee wrappers of the CylinderSegment dispatcher enter by their own (proved here) homogeneity
    STUB_RULES["wseg_" + _f] = (_d((3, 1), (5, [1, 1, 1, 0, 0]), (3, 0)), 0, _d((3, 0), (5, 0), (3, 1)), 1)
    STUB_RULES["wcyl_" + _f] = (_d((3, 1), (2, 1), (3, 0)), 0, _d((3, 0), (2, 0), (3, 1)), 1)

KNOWN_LITERALS = {  # known findings identified by (wrapper, absolute constants mixed with lengths)
    "CylinderSegment(partial angle)": ("segment-absolute-tolerances", {1e-14, 1e-12}),
}


def var_degrees(sp, grading):
    out = {"MU0": Fraction(0)}
    for k, sh in sp.args.items():
        n = int(np.prod(sh)) if sh else 1
        names = [k] if sh == () else [k + "".join("_%d" % i for i in idx) for idx in np.ndindex(*sh)]
        if grading == "length":
            spec = None
            for ln in sp.lengths:
                nm, _, idx = ln.partition(":")
                if nm == k:
                    spec = [int(i) for i in idx.split(",")] if idx else "all"
            for j, nm in enumerate(names):
                out[nm] = Fraction(1 if (spec == "all" or (spec and j in spec)) else 0)
        else:
            for nm in names:
                out[nm] = Fraction(1 if k in ("polarization", "current", "moment") else 0)
    return out


def dimension_obligations(rep, name):
    """homogeneity type derivation of one wrapper, two gradings"""
    sp = WRAPPERS[name]
    fn = describe(sp.real())
    rep.function(fn)
    fails = []
    args = sp.fresh_args()
    for grading in ("length", "excitation"):
        vd = var_degrees(sp, grading)
        rules = {k: ((v[0], Fraction(v[1])) if grading == "length" else (v[2], Fraction(v[3]))) for k, v in STUB_RULES.items()}
        for f in "BHJM":
            paths = [p for p in sp.run(f, args=args) if "out" in p]
            bhjm.report_problems(rep, sp, f"{name}.{f}.{grading}", fn["function"])
            rep.paths += len(paths)
            if grading == "length":
                want = Fraction(sp.homog if f in "BH" else 0)
            else:
                want = Fraction(1 if f in "BH" else (1 if sp.kind == "magnet" else 0))
            for i, p in enumerate(paths, 1):
                dc = DimCheck(vd, rules)
                try:
                    for t in p["pc"]:
                        dc.deg(t)
                    degs = [dc.deg(t) for t in p["out"]]
                except DimError as e:
                    r = {"status": "unknown", "backend": "dimension-calculus", "time_s": 0, "reason": str(e)}
                    rep.obligation(f"{name}.{f}.{grading}-homogeneous[path{i}]", r, fn["function"], "post")
                    continue
                bad_out = [d for d in degs if d not in (ANY, want)]
                viol = list(dc.violations)
                if bad_out:
                    viol.append((f"output degree {[str(d) for d in degs]} instead of {want}", "", []))
                known = KNOWN_LITERALS.get(name) if grading == "length" else None
                unknown_v = [v for v in viol if not (known and v[2] and set(v[2]) <= known[1])]
                status = "discharged" if not viol else ("discharged" if not unknown_v else "refuted")
                backend = f"dimension-calculus({dc.nodes} nodes)"
                if viol and not unknown_v:
                    backend += f"(up to the absolute constants {sorted(known[1])} of known finding {known[0]})"
                r = {"status": status, "backend": backend, "time_s": 0}
                nm = f"{name}.{f}.homogeneous-of-degree-{want}-in-{grading}[path{i}]"
                rep.obligation(nm, r, fn["function"], "post", sample={"nodes": dc.nodes, "degree": str(want)} if (name, f, i, grading) == ("Cuboid", "B", 1, "length") else None)
                if viol and not unknown_v:
                    fails.append(dict(name=nm, wrapper=name, known_region=known[0], why=str(viol[0][0])))
                elif unknown_v:
                    fails.append(dict(name=nm, wrapper=name, field=f, grading=grading,
                                      why="; ".join(f"{v[0]} @ {v[1][:160]}" for v in unknown_v[:3])))
    return fails


def level1_obligations(rep):
    """getBH_level1: the observer reaches the field function as a well-dimensioned length (degree 1: no absolute
    quantisation / offsets on the way into the source frame) and the result keeps the field function's degree"""
    import magpylib._src.fields.field_wrap_BH as FW
    from engine.rebind import rebind
    from engine.rowgen import G, NPG, asreal, g_all, g_any, g_len, sym_rows, uf, _obj_terms

    fn = describe(FW.getBH_level1)
    rep.function(fn)
    fails = []

    class Ori:
        def __init__(self, q):
            self.q = q

        def apply(self, v, inverse=False):
            qs = [asreal(t) for t in self.q.blocks[0].flat]
            vs = [asreal(t) for t in v.blocks[0].flat]
            nm = "rotapplyinv" if inverse else "rotapply"
            return G([_obj_terms([uf(f"{nm}_{j}", *qs, *vs) for j in range(3)])], 0, v.tag)

    def field_func(field, observers, **kw):
        vs = [asreal(t) for t in observers.blocks[0].flat]
        return G([_obj_terms([uf(f"anyfield_{j}", *vs) for j in range(3)])], 0, observers.tag)

    ns = rebind(FW, dict(np=NPG, any=g_any, all=g_all, len=g_len))
    from engine.symex import Ctx, explore

    for k_out, label in ((0, "magnet"), (-1, "current"), (-3, "dipole")):
        def body():
            Ctx.cur.pc.append(NROWS >= 1)
            return ns["getBH_level1"](field_func=field_func, field="B", position=sym_rows("position", (3,)), orientation=Ori(sym_rows("quat", (4,))),
                                      observers=sym_rows("observers", (3,)), in_out="auto")

        for i, (ctx, (kind, res)) in enumerate(explore(body), 1):
            nm = f"getBH_level1.observer-enters-field-function-as-length,result-degree-{k_out}({label})[path{i}]"
            if kind != "ok":
                rep.obligation(nm, {"status": "unknown", "backend": "symex", "time_s": 0, "reason": str(res)[:200]}, fn["function"], "post")
                continue
            vd = {"quat_%d" % j: Fraction(0) for j in range(4)}
            vd.update({f"position_{j}": Fraction(1) for j in range(3)})
            vd.update({f"observers_{j}": Fraction(1) for j in range(3)})
            dc = DimCheck(vd, {"anyfield": ([Fraction(1)] * 3, Fraction(k_out))})
            try:
                degs = [dc.deg(asreal(t)) for t in res.blocks[0].flat] + [dc.deg(t) for t in ctx.pc]
                viol = list(dc.violations)
                if any(d not in (ANY, Fraction(k_out)) for d in degs[:3]):
                    viol.append((f"result degree {[str(d) for d in degs[:3]]}", "", []))
                st = "discharged" if not viol else "refuted"
            except DimError as e:
                st, viol = "unknown", [(str(e), "", [])]
            rep.obligation(nm, {"status": st, "backend": f"dimension-calculus({dc.nodes} nodes)", "time_s": 0, "reason": viol[0][0] if viol else ""}, fn["function"], "post")
            if st == "refuted":
                fails.append(dict(name=nm, wrapper="getBH_level1", why="; ".join(f"{v[0]} @ {v[1][:120]}" for v in viol[:3])))
    return fails


# ------------------------------------------------------------------------------------------------
def native_scale(cls_name, s, exc, seed):
    """real library: a configuration of class cls_name evaluated in two length units; returns message or None"""
    import magpylib as magpy

    rng = np.random.default_rng(seed)
    pol1 = rng.normal(size=3)
    pol = pol1 * exc
    obs = rng.normal(size=(6, 3)) * 1.7

    def mk(sc):
        if cls_name == "Cuboid":
            return magpy.magnet.Cuboid(dimension=np.array([1, 1.5, 0.7]) * sc, polarization=pol), 0
        if cls_name == "Cylinder":
            return magpy.magnet.Cylinder(dimension=np.array([1, 1.5]) * sc, polarization=pol), 0
        if cls_name == "CylinderSegment":
            return magpy.magnet.CylinderSegment(dimension=(0.4 * sc, 1 * sc, 1.2 * sc, 10, 250), polarization=pol), 0
        if cls_name == "Sphere":
            return magpy.magnet.Sphere(diameter=1.3 * sc, polarization=pol), 0
        if cls_name == "Tetrahedron":
            return magpy.magnet.Tetrahedron(vertices=np.array([(0, 0, 0), (1, 0, 0), (0, 1, 0), (0.2, 0.3, 1)]) * sc, polarization=pol), 0
        if cls_name == "Tetrahedron(left-handed vertex order)":
            return magpy.magnet.Tetrahedron(vertices=np.array([(0, 0, 0), (1, 0, 0), (0.2, 0.3, 1), (0, 1, 0)]) * sc, polarization=pol), 0
        if cls_name == "Triangle":
            return magpy.misc.Triangle(vertices=np.array([(0, 0, 0), (1, 0, 0), (0, 1, 0.3)]) * sc, polarization=pol), 0
        if cls_name == "TriangularMesh":
            pts = np.array([(x, y, z) for x in (-.5, .5) for y in (-.6, .6) for z in (-.4, .4)]) * sc
            return magpy.magnet.TriangularMesh.from_ConvexHull(points=pts, polarization=pol), 0
        if cls_name == "Circle":
            return magpy.current.Circle(diameter=1.2 * sc, current=exc), -1
        if cls_name == "Polyline":
            return magpy.current.Polyline(vertices=np.array([(0, 0, 0), (1, 0, 0), (1, 1, 0.5)]) * sc, current=exc), -1
        if cls_name == "Dipole":
            return magpy.misc.Dipole(moment=pol), -3
        raise KeyError(cls_name)

    try:
        with np.errstate(all="ignore"):
            a, k = mk(1.0)
            b, _ = mk(s)
            for fld in "BH":
                f1 = getattr(magpy, "get" + fld)(a, obs)
                f2 = getattr(magpy, "get" + fld)(b, obs * s)
                ref = np.abs(f1).max() + 1e-300
                if not np.allclose(f2 / s**k, f1, rtol=1e-7, atol=1e-9 * ref):
                    return f"{cls_name} get{fld}: scale {s:g}, excitation {exc:g}: {f2[0] / s**k} vs {f1[0]}"
            if s == 1.0 or exc != 1:
                # proportionality with the excitation: same geometry, excitation 1 vs exc
                pol_keep, pol = pol, pol1
                exc_keep, exc = exc, 1.0
                u, _ = mk(1.0)
                pol, exc = pol_keep, exc_keep
                for fld in "BH":
                    fu = getattr(magpy, "get" + fld)(u, obs)
                    fe = getattr(magpy, "get" + fld)(a, obs)
                    ref = np.abs(fu).max() + 1e-300
                    if not np.allclose(fe / exc, fu, rtol=1e-7, atol=1e-9 * ref):
                        return f"{cls_name} get{fld}: field not proportional to the excitation at magnitude {exc:g}: {fe[0] / exc} vs {fu[0]}"
            j1, j2 = magpy.getJ(a, obs), magpy.getJ(b, obs * s)
            if not np.allclose(j1, j2, rtol=1e-12, atol=0):
                return f"{cls_name} getJ (inside/outside decision) changes with the unit: scale {s:g}"
    except Exception as e:  # pylint: disable=broad-except
        return f"{cls_name}: raised {type(e).__name__}: {e} at scale {s:g}"
    return None


REPLAY = """import sys
from checks.c12 import native_scale
msg = native_scale({cls!r}, {s!r}, {exc!r}, {seed!r})
print(msg or 'scale invariant')
sys.exit(1 if msg else 0)
"""


def main(tier, seed):
    rep = Report(PID, tier, seed, "proof")
    from engine import crosscheck

    crosscheck.attach(rep, seed)
    rep.assumed_contract("core field functions are positively homogeneous in their length arguments (degree 0 magnets, -1 currents, -3 dipole): PROVED here for "
                         "magnet_cuboid_Bfield, dipole_Hfield, triangle_Bfield, current_polyline_Hfield, current_circle_Hfield (cel_iter of unit-free arguments as a stub), point_inside, check_chirality (real code, dimension calculus incl. additive degrees of logarithms); ASSUMED for the "
                         "stub of the remaining core seg_H; the cylinder cores take unit-free arguments only (typed on the real code with cel / ellipe / ellipk as stubs)")
    rep.axiom("homogeneity rules of the dimension calculus: sqrt(s^2 q) = s sqrt(q), arctan2(s y, s x) = arctan2(y, x) for s > 0, order preserved by s > 0")
    rep.assume("TriangularMesh wrapper, mesh validation and face orientation: only in the numeric stand-in (known absolute tolerances there)")
    rep.explanation = "dimension-calculus type derivation over the term DAG of every path of every wrapper (length and excitation gradings)"
    names = list(WRAPPERS)
    tasks = [(nm, (lambda r, nm=nm: dimension_obligations(r, nm))) for nm in names]
    tasks.append(("getBH_level1", level1_obligations))
    from checks import c06_cores
    from contracts.bhjm import CORES

    core_known = {"triangle_Bfield": ("triangle-core-absolute-tolerance", {1e-12})}
    for cn in CORES:
        tasks.append((f"core.{cn}", lambda r, cn=cn: c06_cores.homogeneity(r, cn, core_known)))
    fails = run_parallel(rep, tasks)
    known = {k["id"]: k for k in load_known() if k["property"] == PID and k.get("status") == "known"}
    for rid in sorted({f["known_region"] for f in fails if f.get("known_region")}):
        if rid in known:
            rep.known_finding(known[rid])
        else:
            f0 = next(f for f in fails if f.get("known_region") == rid)
            rep.violation(f0["name"], {"why": "refuted; region not listed in known_findings.json", "region": rid}, found_input=False)
    # bounded stand-in and replay search: decade sweep
    classes = ["Cuboid", "Cylinder", "CylinderSegment", "Sphere", "Tetrahedron", "Tetrahedron(left-handed vertex order)", "Triangle", "TriangularMesh", "Circle", "Polyline", "Dipole"]
    decades = [1e-9, 1e-6, 1e-3, 1e-1, 10, 1e3, 1e6, 1e9] if tier == "quick" else [10.0**e for e in range(-9, 10)]
    excs = [1e-12, 1, 1e12] if tier == "quick" else [10.0**e for e in range(-12, 13, 3)]
    knownsweep = {k["id"]: k for k in load_known() if k["property"] == PID and k.get("status") == "known" and k.get("sweep")}
    bad, total = [], 0
    for cls, s, exc in itertools.product(classes, decades, excs):
        total += 1
        msg = native_scale(cls, s, exc, seed)
        if msg:
            kid = next((kk for kk, kv in knownsweep.items() if kv["sweep"]["class"] == cls), None)
            if kid:
                if kid not in rep.known_printed:
                    rep.known_finding(knownsweep[kid])
                continue
            bad.append((cls, s, exc, msg))
    rep.standin("numeric decade sweep: B,H,J of every class in two length units", f"{len(decades)} scales x {len(excs)} excitation magnitudes x {len(classes)} classes",
                total, total, "generic observers (not on surfaces)", [dict(cls="Cuboid", s=1e-9, exc=1e12)], failures=len(bad), exhaustive=True)
    for f in fails:
        if f.get("known_region"):
            continue
        cls = f["wrapper"].split("(")[0]
        cls = {"check_chirality": "Tetrahedron", "magnet_cuboid_Bfield": "Cuboid", "dipole_Hfield": "Dipole", "triangle_Bfield": "Triangle"}.get(cls, cls)
        hit = next((b for b in bad if b[0].split("(")[0] == cls or cls == "getBH_level1"), None)
        if hit:
            rep.violation(f["name"], {"why": f["why"], "native_result": hit[3], "script": REPLAY.format(cls=hit[0], s=hit[1], exc=hit[2], seed=seed)})
        else:
            rep.violation(f["name"], {"why": f["why"], "solver_output": json.dumps({"row": f.get("row"), "s": f.get("s")})}, found_input=False)
    if not fails:
        for cls, s, exc, msg in bad[:3]:
            rep.violation(f"standin.decade-sweep[{cls}]", {"native_result": msg, "script": REPLAY.format(cls=cls, s=s, exc=exc, seed=seed)})
    return rep.finish()
