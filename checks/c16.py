"""C16 — TriangularMesh status checks are right and orientation is normalised.   (BOUNDED stand-in only, labelled)

`while` loops over Python sets, np.unique, KD-trees and floating-point ray casting: no invariant-based proof is attempted.
Run-time contracts of the real functions against independent graph oracles:
   get_open_edges                == edges whose multiplicity over all faces is != 2;
   get_disconnected_faces_subsets == connected components of the vertex-sharing graph of faces (union-find oracle);
   check_selfintersecting        == True for two interpenetrating closed parts, False for clean meshes;
   after the default reorientation of a closed mesh: signed volume > 0 and every shared edge is traversed in opposite directions by
   its two faces (all faces point outwards);  field independent of face order, winding of individual faces, vertex numbering.
Meshes: convex hulls, boxes, prisms, an L-shaped (non-convex) solid; all face permutations sampled, flip subsets sampled,
vertex renumberings sampled; derived meshes: faces deleted (open), disjoint duplicates (disconnected), two interpenetrating parts.
"""
import itertools
import json

import numpy as np

from engine.report import Report

PID = "C16"


def box(a=1.0, b=1.5, c=0.7, off=(0, 0, 0)):
    v = np.array([(x, y, z) for x in (0, a) for y in (0, b) for z in (0, c)], dtype=float) + np.array(off)
    f = [(0, 1, 3), (0, 3, 2), (4, 6, 7), (4, 7, 5), (0, 4, 5), (0, 5, 1), (2, 3, 7), (2, 7, 6), (0, 2, 6), (0, 6, 4), (1, 5, 7), (1, 7, 3)]
    return v, np.array(f)


def prism():
    v = np.array([(0, 0, 0), (1, 0, 0), (0.3, 0.9, 0), (0, 0, 1.2), (1, 0, 1.2), (0.3, 0.9, 1.2)], dtype=float)
    f = [(0, 2, 1), (3, 4, 5), (0, 1, 4), (0, 4, 3), (1, 2, 5), (1, 5, 4), (2, 0, 3), (2, 3, 5)]
    return v, np.array(f)


def tetra():
    v = np.array([(0, 0, 0), (1, 0, 0), (0, 1, 0), (0.2, 0.3, 1)], dtype=float)
    return v, np.array([(0, 2, 1), (0, 1, 3), (1, 2, 3), (0, 3, 2)])


def lshape():
    """non-convex L-shaped prism (union of two boxes), closed, outward oriented"""
    P = [(0, 0), (2, 0), (2, 1), (1, 1), (1, 2), (0, 2)]
    h = 0.8
    v = np.array([(x, y, 0.0) for x, y in P] + [(x, y, h) for x, y in P])
    tris2d = [(0, 1, 2), (0, 2, 3), (0, 3, 4), (0, 4, 5)]
    f = [(a, c, b) for a, b, c in tris2d] + [(a + 6, b + 6, c + 6) for a, b, c in tris2d]
    for i in range(6):
        j = (i + 1) % 6
        f += [(i, j, j + 6), (i, j + 6, i + 6)]
    return v, np.array(f)


def oracle_open_edges(faces):
    cnt = {}
    for a, b, c in faces:
        for e in ((a, b), (b, c), (c, a)):
            k = tuple(sorted(e))
            cnt[k] = cnt.get(k, 0) + 1
    return {k for k, n in cnt.items() if n != 2}


def oracle_components(faces):
    parent = {}

    def find(x):
        while parent.setdefault(x, x) != x:
            parent[x] = parent[parent[x]]
            x = parent[x]
        return x

    for a, b, c in faces:
        parent[find(a)] = find(b)
        parent[find(b)] = find(c)
    comps = {}
    for i, (a, b, c) in enumerate(faces):
        comps.setdefault(find(a), []).append(i)
    return sorted(sorted(v) for v in comps.values())


def signed_volume(v, f):
    return float(np.sum(np.einsum("ij,ij->i", v[f[:, 0]], np.cross(v[f[:, 1]], v[f[:, 2]]))) / 6.0)


def consistently_oriented(f):
    seen = {}
    for a, b, c in f:
        for e in ((a, b), (b, c), (c, a)):
            if e in seen:
                return False  # the same directed edge twice: two neighbouring faces wind the same way
            seen[e] = True
    return all((b, a) in seen for (a, b) in seen)


def oracle_surfaces_cross(vA, fA, vB, fB):
    """independent oracle: does an edge of one triangulated surface pass through the interior of a triangle of the other?"""

    def seg_tri(p, q, a, b, c):
        d, e1, e2 = q - p, b - a, c - a
        h = np.cross(d, e2)
        det = e1 @ h
        if abs(det) < 1e-14:
            return False
        s_ = p - a
        u = (s_ @ h) / det
        if u < 0 or u > 1:
            return False
        qq = np.cross(s_, e1)
        w = (d @ qq) / det
        if w < 0 or u + w > 1:
            return False
        return 0 < (e2 @ qq) / det < 1

    for (v1, f1, v2, f2) in ((vA, fA, vB, fB), (vB, fB, vA, fA)):
        for tri in f1:
            for i, j in ((0, 1), (1, 2), (2, 0)):
                if any(seg_tri(v1[tri[i]], v1[tri[j]], *v2[t2]) for t2 in f2):
                    return True
    return False


def run_all(seed, tier):
    import warnings

    import magpylib as magpy

    warnings.simplefilter("ignore")
    rng = np.random.default_rng(seed)
    bad, n, distinct = [], 0, 0
    solids = {"box": box(), "prism": prism(), "tetra": tetra(), "L-shape": lshape()}
    hull_pts = rng.normal(size=(9, 3))
    hm = magpy.magnet.TriangularMesh.from_ConvexHull(points=hull_pts, polarization=(0, 0, 1))
    solids["hull"] = (np.array(hm.vertices), np.array(hm.faces))
    obs = np.array([(0.31, 0.22, 0.13), (3.1, -2.2, 1.7), (0.9, 1.4, 0.3), (-1.0, 0.5, 0.2)])
    nvar = 6 if tier == "quick" else 40
    for sname, (v, f) in solids.items():
        if signed_volume(v, f) < 0:
            f = f[:, ::-1]
        ref_mesh = magpy.magnet.TriangularMesh(vertices=v, faces=f, polarization=(0.1, 0.2, 0.3), reorient_faces=False)
        ref = {X: getattr(magpy, "get" + X)(ref_mesh, obs) for X in "BH"}
        for var in range(nvar):
            distinct += 1
            perm = rng.permutation(len(f))
            flips = rng.random(len(f)) < (0.0 if var == 0 else 0.4)
            vperm = rng.permutation(len(v))
            inv = np.argsort(vperm)
            f2 = f[perm].copy()
            f2[flips[perm]] = f2[flips[perm]][:, ::-1]
            # cyclic rotation of some faces (same winding)
            rot = rng.random(len(f2)) < 0.3
            f2[rot] = np.roll(f2[rot], 1, axis=1)
            v2 = v[vperm]
            f2 = inv[f2]
            case = dict(solid=sname, variant=var, flipped=int(flips.sum()))
            n += 1
            try:
                m = magpy.magnet.TriangularMesh(vertices=v2, faces=f2, polarization=(0.1, 0.2, 0.3))
            except Exception as e:  # pylint: disable=broad-except
                bad.append((case, f"constructor raised {type(e).__name__}: {str(e)[:80]}"))
                continue
            if m.check_open() or m.check_disconnected() or m.check_selfintersecting():
                bad.append((case, f"a closed, connected, clean solid is reported open={m.status_open} disconnected={m.status_disconnected} selfintersecting={m.status_selfintersecting}"))
            ff = np.array(m.faces)
            vv = np.array(m.vertices)
            if signed_volume(vv, ff) <= 0 or not consistently_oriented([tuple(x) for x in ff]):
                bad.append((case, f"after reorientation not all faces point outwards (signed volume {signed_volume(vv, ff):.3g}, consistent={consistently_oriented([tuple(x) for x in ff])})"))
            for X in "BH":
                got = getattr(magpy, "get" + X)(m, obs)
                if not np.allclose(got, ref[X], rtol=1e-8, atol=1e-12):
                    bad.append((case, f"get{X} depends on face order / winding / vertex numbering (max dev {np.abs(got - ref[X]).max():.2e})"))
                    break
        # derived meshes: open (faces deleted)
        for k in (1, 2):
            distinct += 1
            drop = rng.choice(len(f), size=k, replace=False)
            fo = np.delete(f, drop, axis=0)
            n += 1
            m = magpy.magnet.TriangularMesh(vertices=v, faces=fo, polarization=(0, 0, 1), check_open="skip", check_disconnected="skip", check_selfintersecting="skip", reorient_faces=False)
            got = {tuple(sorted(e)) for e in np.asarray(m.get_open_edges()).tolist()}
            if got != oracle_open_edges(fo):
                bad.append((dict(solid=sname, deleted=drop.tolist()), "get_open_edges differs from the edges of multiplicity != 2"))
            if not m.check_open(mode="ignore"):
                bad.append((dict(solid=sname, deleted=drop.tolist()), "a mesh with deleted faces is reported closed"))
        # disconnected: disjoint duplicate
        distinct += 1
        shift = np.array([10.0, 0, 0])
        vd = np.concatenate([v, v + shift])
        fd = np.concatenate([f, f + len(v)])
        n += 1
        m = magpy.magnet.TriangularMesh(vertices=vd, faces=fd, polarization=(0, 0, 1), check_open="skip", check_disconnected="skip", check_selfintersecting="skip", reorient_faces=False)
        parts = sorted(sorted(int(np.where((fd == face).all(axis=1))[0][0]) for face in np.asarray(p)) for p in m.get_faces_subsets())
        if parts != oracle_components(fd):
            bad.append((dict(solid=sname, derived="disjoint duplicate"), "get_faces_subsets differs from the connected components of the face graph"))
        if not m.check_disconnected(mode="ignore") or m.check_selfintersecting(mode="ignore") or m.check_open(mode="ignore"):
            bad.append((dict(solid=sname, derived="disjoint duplicate"), f"status: disconnected={m.status_disconnected} selfintersecting={m.status_selfintersecting} open={m.status_open}"))
        # interpenetrating: two overlapping copies
        distinct += 1
        ext = v.max(axis=0) - v.min(axis=0)
        # a thin solid shifted along its bounding-box diagonal need not meet its copy: take the first shift for which the
        # independent edge-through-triangle oracle confirms that the two surfaces cross
        shift_f = next((sf_ for sf_ in (0.37, 0.23, 0.11, 0.05) if oracle_surfaces_cross(v, f, v + sf_ * ext, f)), None)
        if shift_f is None:
            continue
        vi = np.concatenate([v, v + shift_f * ext])
        fi = np.concatenate([f, f + len(v)])
        n += 1
        m = magpy.magnet.TriangularMesh(vertices=vi, faces=fi, polarization=(0, 0, 1), check_open="skip", check_disconnected="skip", check_selfintersecting="skip", reorient_faces=False)
        if not m.check_selfintersecting(mode="ignore"):
            bad.append((dict(solid=sname, derived="two interpenetrating copies"), "interpenetrating parts are not reported as self-intersecting"))
    # one-sided piercing: a thin closed spike through the interior of one face of a box, every face ordering
    bv, bf = box(2, 2, 1)
    # base inside the box, apex above the top face, away from the diagonal edge that splits the top face into two triangles:
    # only the spike's edges pierce a box triangle, no box edge pierces the spike (one-sided piercing)
    sv = np.array([(1.3, 0.4, 0.5), (1.5, 0.4, 0.5), (1.4, 0.6, 0.5), (1.4, 0.47, 1.8)], dtype=float)
    sf = np.array([(0, 2, 1), (0, 1, 3), (1, 2, 3), (0, 3, 2)])
    vv = np.concatenate([bv, sv])
    for order in ["box first", "spike first"] + [f"perm{i}" for i in range(4 if tier == "quick" else 20)]:
        ff = np.concatenate([bf, sf + len(bv)]) if order == "box first" else np.concatenate([sf + len(bv), bf])
        if order.startswith("perm"):
            ff = ff[rng.permutation(len(ff))]
        n += 1
        distinct += 1
        m = magpy.magnet.TriangularMesh(vertices=vv, faces=ff, polarization=(0, 0, 1), check_open="skip", check_disconnected="skip", check_selfintersecting="skip", reorient_faces=False)
        if not m.check_selfintersecting(mode="ignore"):
            bad.append((dict(solid="box pierced by a spike", order=order), "a spike piercing one face of a box is not reported as self-intersecting"))
    # sparse vertex numbering: the faces use a subset of a larger vertex array (a sub-mesh that keeps its parent's numbering); the
    # unused vertices are far away.  Status and field must equal those of the compactly numbered solid; get_open_edges on the
    # sparse labels (closed and with faces deleted) must equal the edges of multiplicity != 2.
    for sname, (v, f) in solids.items():
        if signed_volume(v, f) < 0:
            f = f[:, ::-1]
        for var in range(2 if tier == "quick" else 10):
            if var % 2 == 0:
                # labels in arithmetic progressions whose steps are the sizes a flattened edge key could be built from
                # (number of faces, of edges, of vertices): 0, 1, 1+L, 1+2L, ... in a random assignment to the vertices
                L = (3 * len(f), len(f), len(v))[(var // 2) % 3]
                ids = rng.permutation(np.array([0, 1] + [1 + k * L for k in range(1, len(v) - 1)]))
                nbig = int(ids.max()) + 1 + int(rng.integers(0, 4))
            else:
                nbig = len(v) * int(rng.integers(3, 60))
                ids = rng.permutation(rng.choice(nbig, size=len(v), replace=False))
            vbig = rng.uniform(50, 60, size=(nbig, 3))
            vbig[ids] = v
            fs = ids[f]
            case = dict(solid=sname, derived="sparse vertex numbering", variant=var, n_vertices=int(nbig))
            n += 1
            distinct += 1
            import magpylib._src.fields.field_BH_triangularmesh as TMmod

            for drop in (0, 1, 2):
                fo = fs[drop:]
                got = {tuple(sorted(e)) for e in np.asarray(TMmod.get_open_edges(fo)).tolist()}
                if got != oracle_open_edges(fo):
                    bad.append((case, f"get_open_edges on sparse vertex labels ({drop} faces deleted) differs from the edges of multiplicity != 2"))
                    break
            try:
                m = magpy.magnet.TriangularMesh(vertices=vbig, faces=fs, polarization=(0.1, 0.2, 0.3), check_open="ignore", check_disconnected="ignore", check_selfintersecting="ignore")
            except Exception as e:  # pylint: disable=broad-except
                bad.append((case, f"constructor raised {type(e).__name__}: {str(e)[:80]}"))
                continue
            if m.check_open(mode="ignore") or m.check_disconnected(mode="ignore") or m.check_selfintersecting(mode="ignore"):
                bad.append((case, f"a closed, connected, clean solid with sparse vertex numbering is reported open={m.status_open} disconnected={m.status_disconnected} selfintersecting={m.status_selfintersecting}"))
            ref_mesh = magpy.magnet.TriangularMesh(vertices=v, faces=f, polarization=(0.1, 0.2, 0.3), reorient_faces=False)
            if not np.allclose(magpy.getB(m, obs), magpy.getB(ref_mesh, obs), rtol=1e-8, atol=1e-12):
                bad.append((case, "getB depends on the vertex numbering (sparse labels)"))
    # very different face sizes: a small finely meshed closed body straddling a face of a large box far from that face's centroid
    # (interpenetrating parts), and the same body well inside the box (clean, disconnected)
    a = 5.0
    Bv, Bf = box(2 * a, 2 * a, 2 * a, off=(-a, -a, -a))
    pts = rng.normal(size=(60 if tier == "quick" else 150, 3))
    pts = 0.5 * pts / np.linalg.norm(pts, axis=1, keepdims=True)
    small = magpy.magnet.TriangularMesh.from_ConvexHull(points=pts, polarization=(0, 0, 1))
    sv0, sf0 = np.array(small.vertices), np.array(small.faces)
    cens = [(4.0, -4.0, 5.0), (4.0, 4.0, -5.0), (-5.0, 4.0, 3.5), (4.2, 5.0, -4.1)] + ([] if tier == "quick" else [tuple(np.where(np.arange(3) == ax, sg * 5.0, rng.uniform(3.5, 4.3, 3) * rng.choice([-1, 1], 3))) for ax in range(3) for sg in (-1, 1)])
    for cen in cens + [(0.0, 0.0, 0.0)]:
        vv_ = np.concatenate([Bv, sv0 + np.array(cen)])
        ff_ = np.concatenate([Bf, sf0 + len(Bv)])
        if rng.random() < 0.5:
            ff_ = ff_[rng.permutation(len(ff_))]
        n += 1
        distinct += 1
        m = magpy.magnet.TriangularMesh(vertices=vv_, faces=ff_, polarization=(0, 0, 1), check_open="skip", check_disconnected="skip", check_selfintersecting="skip", reorient_faces=False)
        got = bool(m.check_selfintersecting(mode="ignore"))
        exp = cen != (0.0, 0.0, 0.0)
        if got != exp:
            bad.append((dict(solid="large box + small fine body", centre=[float(x) for x in cen]), f"check_selfintersecting={got}, the small body {'pierces a face of the box' if exp else 'lies well inside the box'}"))
    # reorientation of a closed but disconnected mesh whose parts are interleaved in the face list, with flipped faces
    for sname in ("box", "prism"):
        v, f = solids[sname]
        if signed_volume(v, f) < 0:
            f = f[:, ::-1]
        shift = np.array([7.0, 1.0, 0.5])
        vd = np.concatenate([v, v + shift])
        fd = np.concatenate([f, f + len(v)])
        ref = magpy.getB([magpy.magnet.TriangularMesh(vertices=v, faces=f, polarization=(.1, .2, .3), reorient_faces=False),
                          magpy.magnet.TriangularMesh(vertices=v + shift, faces=f, polarization=(.1, .2, .3), reorient_faces=False)], obs, sumup=True)
        for var in range(4 if tier == "quick" else 20):
            perm = rng.permutation(len(fd))
            f2 = fd[perm].copy()
            flips = rng.random(len(f2)) < 0.35
            f2[flips] = f2[flips][:, ::-1]
            n += 1
            distinct += 1
            m = magpy.magnet.TriangularMesh(vertices=vd, faces=f2, polarization=(.1, .2, .3), check_disconnected="ignore")
            ffm = np.array(m.faces)
            comps = oracle_components(ffm)
            ok_or = consistently_oriented([tuple(x) for x in ffm]) and len(comps) == 2 and all(signed_volume(vd, ffm[c_]) > 0 for c_ in comps)
            if not ok_or:
                bad.append((dict(solid=sname + " + disjoint duplicate, interleaved", variant=var, flipped=int(flips.sum())), "after reorientation not all faces of both parts point outwards"))
            elif not np.allclose(magpy.getB(m, obs), ref, rtol=1e-8, atol=1e-12):
                bad.append((dict(solid=sname + " + disjoint duplicate, interleaved", variant=var), "field differs from the sum of the two solids"))
    return n, distinct, bad


REPLAY = """import sys
from checks.c16 import run_all
n, d, bad = run_all({seed}, 'quick')
for c, m in bad[:6]: print(c, m)
sys.exit(1 if bad else 0)
"""


def main(tier, seed):
    from engine.report import load_known

    rep = Report(PID, tier, seed, "exploration")
    rep.explanation = ("BOUNDED: run-time contracts of the mesh status functions against graph oracles on permuted / flipped / renumbered solids and derived defective meshes; "
                       "the loop-free get_open_edges is additionally checked against its definition (checks/c16_struct.py)")
    rep.assume("no proof of the set-merging loops, the KD-tree pair search and the floating-point ray casting: outside the VC generator")
    from checks import c16_struct

    sfails = c16_struct.run(rep)
    n, d, bad = run_all(seed, tier)
    known = [k for k in load_known() if k["property"] == PID and k.get("status") == "known"]
    bad2 = []
    for c, m_ in bad:
        kid = next((k for k in known if all(t in (json.dumps(c) + m_) for t in k["contains"])), None)
        if kid:
            if kid["id"] not in rep.known_printed:
                rep.known_finding(kid)
        else:
            bad2.append((c, m_))
    rep.standin("status checks vs graph oracles; outward orientation after reorientation; field invariant under face permutation / flips / vertex renumbering",
                "5 solids (box, prism, tetrahedron, L-shape, random hull) x 6 variants (thorough: 40) + open / disconnected / interpenetrating derivatives + sparse vertex numbering (arithmetic-progression and random labels, 2 / 10 per solid) + large box pierced by a small fine body (4 / 10 placements + 1 clean)", n, d,
                "random permutations, flip subsets (40% of faces), cyclic rotations, vertex renumberings; distinct = meshes", [dict(solid="L-shape", variant=3, flipped=6)],
                failures=len(bad2))
    for f in sfails:
        if bad2:
            rep.violation(f["name"], {"why": f["why"], "case": bad2[0][0], "native_result": bad2[0][1], "script": REPLAY.format(seed=seed)})
        else:
            rep.violation(f["name"], {"why": f["why"], "solver_output": f["why"]}, found_input=False)
    if not sfails:
        for c, m_ in bad2[:3]:
            rep.violation(f"standin.mesh-contracts[{c.get('solid')}]", {"case": c, "native_result": m_, "script": REPLAY.format(seed=seed)})
    return rep.finish()
