"""C09 — move/rotate and the pose setters follow the documented path semantics.

Deductive part: the real code objects of class_BaseTransform / class_BaseGeo are
executed over index-map arrays of *symbolic length*; the specification
(contracts/path_spec.py, written from the property statement) is checked at a
fresh symbolic index for all N >= 1, n >= 1, start in Z u {auto}.
"""
import itertools
import json
import time

import numpy as np
import z3

from contracts import path_spec as PS
from contracts.pathns import REAL_FUNCS, PathNS
from contracts.stubs import Bad
from engine import solve
from engine.idx import RID, VZERO, Arr, Rot, SRot, Vec, clamp, fresh_path
from engine.rebind import describe
from engine.report import Report
from engine.symex import Ctx, SymInt, explore

PID = "C09"

N, n, na, start, k, m = z3.Ints("N n na start k m")
RHO = z3.Function("RHO", z3.IntSort(), Rot)
rho = z3.Const("rho", Rot)
A = z3.Function("A", z3.IntSort(), Vec)
a0 = z3.Const("a0", Vec)
D = z3.Function("D", z3.IntSort(), Vec)
d0 = z3.Const("d0", Vec)
PP = z3.Function("PP", z3.IntSort(), Vec)
X = z3.Function("X", z3.IntSort(), Vec)
x0 = z3.Const("x0", Vec)
Y = z3.Function("Y", z3.IntSort(), Rot)


# ---------------------------------------------------------------------------
def discharge_paths(rep, scen, fn_label, body, post, pre, native=None):
    """explore body; for each path check post goals + safety obligations"""
    npaths = 0
    failures = []
    for ctx, (kind, res) in explore(lambda: (Ctx.cur.pc.extend(pre), body())[1]):
        npaths += 1
        tag = f"{scen}@path{npaths}"
        if kind == "unsupported":
            rep.obligation(f"{tag}.path-outside-the-verified-subset", {"status": "unknown", "backend": "symex", "time_s": 0, "reason": str(res)[:200]}, fn_label, "post")
            continue
        if kind == "exc":
            r = {"status": "refuted", "backend": "symex", "time_s": 0.0, "model": _model_of(ctx.pc)}
            rep.obligation(f"{tag}.no-exception-on-valid-input[{type(res).__name__}]", r, fn_label, "safety")
            failures.append((f"{tag}.no-exception-on-valid-input", _slim(r), f"{type(res).__name__}: {res}"))
            continue
        for label, goal in post(ctx, res):
            r = solve.discharge(ctx.pc, goal)
            rep.obligation(f"{tag}.post.{label}", r, fn_label, "post",
                           sample=solve.sample_smt2(ctx.pc, goal) if npaths == 1 and label in ("spec", "len") else None)
            if r["status"] == "refuted":
                failures.append((f"{tag}.post.{label}", _slim(r), "postcondition refuted"))
        for i, (pc, _ax, f, label, kd) in enumerate(ctx.oblig):
            r = solve.discharge(pc, f)
            rep.obligation(f"{tag}.safety{i}.{label.split(':')[0].split('(')[0].strip().replace(' ', '_')}", r, fn_label, kd)
            if r["status"] == "refuted":
                failures.append((f"{tag}.safety{i}.{label}", _slim(r), "safety obligation refuted"))
    rep.paths += npaths
    if npaths == 0:
        raise RuntimeError(f"vacuity: no feasible path in scenario {scen}")
    return failures


def _slim(r):
    """picklable summary of a solver result"""
    return {"status": r["status"], "backend": r.get("backend"), "hint": model_ints(r.get("model")), "model_str": str(r.get("model"))[:3000]}


def _model_of(pc):
    s = z3.Solver()
    s.add(*pc)
    return s.model() if s.check() == z3.sat else None


def model_ints(model):
    out = {}
    if model is None:
        return out
    for v in (N, n, na, start, k, m):
        val = model.eval(v, model_completion=True)
        try:
            out[str(v)] = val.as_long()
        except Exception:  # pylint: disable=broad-except
            pass
    return out


# ---------------------------------------------------------------------------
# scenarios
def scen_padding_param(rep):
    import magpylib._src.obj_classes.class_BaseTransform as BT

    fails = []
    for scalar, auto in itertools.product((True, False), (True, False)):
        ns = PathNS()
        f = ns.bt["path_padding_param"]
        lenop, lenip = z3.Ints("lenop lenip")

        def body():
            return f(scalar, SymInt(lenop), SymInt(lenip), "auto" if auto else SymInt(start))

        def post(ctx, res):
            padding, st = res
            nn = lenip
            s1, mn, newlen = PS.z_index_map(lenop, nn, scalar, None if auto else start)
            stt = st.t if isinstance(st, SymInt) else z3.IntVal(st)
            if padding:
                pb, pa = (x.t if isinstance(x, SymInt) else z3.IntVal(x) for x in padding)
            else:
                pb = pa = z3.IntVal(0)
            return [("spec", z3.And(pb == -mn, pb >= 0, pa >= 0, lenop + pb + pa == newlen, stt == s1 - mn,
                                    stt >= 0, stt + nn <= newlen))]

        pre = [lenop >= 1, lenip >= 1] + ([lenip == 1] if scalar else [])
        fails += discharge_paths(rep, f"path_padding_param[scalar={scalar},auto={auto}]",
                                 describe(BT.path_padding_param)["function"], body, post, pre)
    return fails


def _mk_rot(kind):
    if kind == "n":
        return None  # the documented "unit rotation"
    if kind == "s":
        return SRot(Arr(None, lambda i: rho, "quat"))
    return SRot(Arr(n, lambda i: RHO(i), "quat"))


def _mk_anchor(kind):
    if kind == "none":
        return None
    if kind == "zero":
        return 0
    if kind == "s":
        return Arr(None, lambda i: a0, "vec")
    return Arr(na, lambda i: A(i), "vec")


def scen_move(rep, via):
    """via: 'apply' (apply_move) or 'method' (BaseTransform.move on a leaf object)"""
    fails = []
    for scalar, auto in itertools.product((True, False), (True, False)):
        ns = PathNS()

        def body():
            p, o, P, O = fresh_path("o", N)
            obj = ns.node(p, o)
            disp = Arr(None, lambda i: d0, "vec") if scalar else Arr(n, lambda i: D(i), "vec")
            st = "auto" if auto else SymInt(start)
            if via == "apply":
                ns.bt["apply_move"](obj, disp, start=st)
            else:
                r = obj.move(disp, start=st)
                assert r is obj, "move must return self"
            return obj, P, O

        def post(ctx, res):
            obj, P, O = res
            q = obj._orientation.q
            return [("spec", PS.z_move_post(N, P, O, k, obj._position.elem, q.elem, obj._position.length, q.length,
                                            scalar, n, None if auto else start,
                                            (lambda i: d0) if scalar else (lambda i: D(i))))]

        fn = "magpylib._src.obj_classes.class_BaseTransform:" + ("apply_move" if via == "apply" else "BaseTransform.move")
        fails += [(a, b, c, dict(op="move", scalar=scalar, auto=auto)) for a, b, c in
                  discharge_paths(rep, f"{'apply_move' if via == 'apply' else 'move'}[scalar={scalar},auto={auto}]", fn,
                                  body, post, [N >= 1, n >= 1])]
    return fails


def scen_rotate(rep, via, tier, only=None):
    fails = []
    anchors = ("none", "zero", "s", "v")
    for rk, ak, auto, par in itertools.product("svn", anchors, (True, False), (False, True)):
        if par and (ak != "none" or via != "apply"):
            continue
        if rk == "n" and (par or ak == "v"):
            continue  # rotation=None (the documented unit rotation): plain and anchored forms
        if only and (rk, ak) != only:
            continue
        ns = PathNS()

        def body():
            p, o, P, O = fresh_path("o", N)
            obj = ns.node(p, o)
            rot, anc = _mk_rot(rk), _mk_anchor(ak)
            st = "auto" if auto else SymInt(start)
            if via == "apply":
                kw = dict(parent_path=Arr(N, lambda i: PP(i), "vec")) if par else {}
                ns.bt["apply_rotation"](obj, rot, anchor=anc, start=st, **kw)
            else:
                r = obj.rotate(rot, anchor=anc, start=st)
                assert r is obj, "rotate must return self"
            return obj, P, O

        def post(ctx, res):
            obj, P, O = res
            rl = None if rk in ("s", "n") else n
            al = na if ak == "v" else None
            if rl is None and al is None:
                scalar, nn = True, z3.IntVal(1)
            else:
                scalar = False
                nn = rl if al is None else (al if rl is None else z3.If(rl > al, rl, al))
            rot_at = (lambda i: RID) if rk == "n" else ((lambda i: rho) if rk == "s" else (lambda i: RHO(clamp(i, n))))
            if ak == "none":
                anc_at = (lambda i, j: PP(clamp(j, N))) if par else None
            elif ak == "zero":
                anc_at = lambda i, j: VZERO
            elif ak == "s":
                anc_at = lambda i, j: a0
            else:
                anc_at = lambda i, j: A(clamp(i, na))
            q = obj._orientation.q
            return [("spec", PS.z_rotate_post(N, P, O, k, obj._position.elem, q.elem, obj._position.length, q.length,
                                              scalar, nn, None if auto else start, rot_at, anc_at))]

        nm = "apply_rotation" if via == "apply" else "rotate"
        fn = "magpylib._src.obj_classes.class_BaseTransform:" + ("apply_rotation" if via == "apply" else "BaseTransform.rotate")
        sc = dict(op="rotate", rot=rk, anchor=ak, auto=auto, parent=par)
        fails += [(a, b, c, sc) for a, b, c in
                  discharge_paths(rep, f"{nm}[rot={rk},anchor={ak},auto={auto},parent_path={par}]", fn, body, post,
                                  [N >= 1, n >= 1, na >= 1])]
    return fails


def scen_pad_slice(rep):
    ns = PathNS()
    f = ns.bg["pad_slice_path"]
    import magpylib._src.obj_classes.class_BaseGeo as BG

    def body():
        p1 = Arr(N, lambda i: X(i), "vec")
        p2 = Arr(m, lambda i: D(i), "vec")
        return f(p1, p2)

    def post(ctx, res):
        r = res if isinstance(res, Arr) else None
        if r is None:
            return [("spec", z3.BoolVal(False))]
        r = r.snapshot() if hasattr(r, "snapshot") else r
        exp = z3.If(m <= N, D(clamp(k, m)), D(k + m - N))
        return [("spec", z3.And(r.length == N, z3.Implies(z3.And(0 <= k, k < N), r.elem(k) == exp)))]

    return [(a, b, c, dict(op="pad_slice")) for a, b, c in
            discharge_paths(rep, "pad_slice_path", describe(BG.pad_slice_path)["function"], body, post, [N >= 1, m >= 1])]


def scen_setters(rep):
    fails = []
    # position setter (no children): P' = input as (m,3);  O' = edge-pad / end-slice of O
    for scalar in (True, False):
        ns = PathNS()

        def body():
            p, o, P, O = fresh_path("o", N)
            obj = ns.node(p, o)
            obj.position = Arr(None, lambda i: x0, "vec") if scalar else Arr(m, lambda i: X(i), "vec")
            return obj, P, O

        def post(ctx, res):
            obj, P, O = res
            mm = z3.IntVal(1) if scalar else m
            q = obj._orientation.q
            pe = obj._position
            expO = z3.If(mm >= N, O(clamp(k, N)), O(k + N - mm))
            expP = x0 if scalar else X(k)
            return [("spec", z3.And(pe.length == mm, q.length == mm,
                                    z3.Implies(z3.And(0 <= k, k < mm), z3.And(pe.elem(k) == expP, q.elem(k) == expO))))]

        fails += [(a, b, c, dict(op="setpos", scalar=scalar)) for a, b, c in
                  discharge_paths(rep, f"position.fset[scalar={scalar}]",
                                  "magpylib._src.obj_classes.class_BaseGeo:BaseGeo.position", body, post, [N >= 1, m >= 1])]
    # orientation setter
    for kind in ("none", "single", "vector"):
        ns = PathNS()

        def body():
            p, o, P, O = fresh_path("o", N)
            obj = ns.node(p, o)
            if kind == "none":
                obj.orientation = None
            elif kind == "single":
                obj.orientation = SRot(Arr(None, lambda i: rho, "quat"))
            else:
                obj.orientation = SRot(Arr(m, lambda i: Y(i), "quat"))
            return obj, P, O

        def post(ctx, res):
            obj, P, O = res
            mm = m if kind == "vector" else z3.IntVal(1)
            q = obj._orientation.q
            pe = obj._position
            pe = pe.snapshot()
            expP = z3.If(mm >= N, P(clamp(k, N)), P(k + N - mm))
            expO = RID if kind == "none" else (rho if kind == "single" else Y(k))
            return [("spec", z3.And(pe.length == mm, q.length == mm,
                                    z3.Implies(z3.And(0 <= k, k < mm), z3.And(pe.elem(k) == expP, q.elem(k) == expO))))]

        fails += [(a, b, c, dict(op="setori", kind=kind)) for a, b, c in
                  discharge_paths(rep, f"orientation.fset[{kind}]",
                                  "magpylib._src.obj_classes.class_BaseGeo:BaseGeo.orientation", body, post, [N >= 1, m >= 1])]
    # constructor path initialisation
    for pk, ok in itertools.product(("single", "vector"), ("none", "single", "vector")):
        ns = PathNS()

        def body():
            obj = object.__new__(ns.Node)
            pos = Arr(None, lambda i: x0, "vec") if pk == "single" else Arr(m, lambda i: X(i), "vec")
            ori = None if ok == "none" else (SRot(Arr(None, lambda i: rho, "quat")) if ok == "single" else SRot(Arr(n, lambda i: Y(i), "quat")))
            obj._init_position_orientation(pos, ori)
            return obj

        def post(ctx, obj):
            mp = z3.IntVal(1) if pk == "single" else m
            mo = n if ok == "vector" else z3.IntVal(1)
            L = z3.If(mp > mo, mp, mo)
            q = obj._orientation.q
            pe = obj._position
            expP = x0 if pk == "single" else X(clamp(k, m))
            expO = RID if ok == "none" else (rho if ok == "single" else Y(clamp(k, n)))
            return [("spec", z3.And(pe.length == L, q.length == L, L >= 1,
                                    z3.Implies(z3.And(0 <= k, k < L), z3.And(pe.elem(k) == expP, q.elem(k) == expO))))]

        fails += [(a, b, c, dict(op="init", pos=pk, ori=ok)) for a, b, c in
                  discharge_paths(rep, f"_init_position_orientation[pos={pk},ori={ok}]",
                                  "magpylib._src.obj_classes.class_BaseGeo:BaseGeo._init_position_orientation", body, post,
                                  [m >= 1, n >= 1])]
    # reset_path
    ns = PathNS()

    def body():
        p, o, P, O = fresh_path("o", N)
        obj = ns.node(p, o)
        r = obj.reset_path()
        assert r is obj
        return obj

    def post(ctx, obj):
        q = obj._orientation.q
        pe = obj._position.snapshot()
        return [("spec", z3.And(pe.length == 1, q.length == 1, pe.elem(z3.IntVal(0)) == VZERO, q.elem(z3.IntVal(0)) == RID))]

    # reset_path passes the literal (0,0,0) to the (stubbed) validator: wrap literal tuples
    vec0 = ns.bg["check_format_input_vector"]

    def vec_lit(inp, *a, **kw):
        if isinstance(inp, tuple) and tuple(inp) == (0, 0, 0):
            inp = Arr(None, lambda i: VZERO, "vec")
        return vec0(inp, *a, **kw)

    ns.bg["check_format_input_vector"] = vec_lit
    fails += [(a, b, c, dict(op="reset")) for a, b, c in
              discharge_paths(rep, "reset_path", "magpylib._src.obj_classes.class_BaseGeo:BaseGeo.reset_path", body, post, [N >= 1])]
    return fails


def scen_rejected(rep):
    """a rejected call changes nothing: every validator call site is made to raise in turn;
    after the exception the object's path arrays must be the *same objects with the same index maps*
    (structural identity — no solver needed; any in-place write replaces the index map)."""
    from magpylib._src.exceptions import MagpylibBadUserInput

    fails = []
    ops = {
        "move": lambda o, b: o.move(Arr(n, lambda i: D(i), "vec"), start=SymInt(start)),
        "rotate": lambda o, b: o.rotate(_mk_rot("v"), anchor=_mk_anchor("v"), start=SymInt(start)),
        "rotate.bad_start": lambda o, b: o.rotate(_mk_rot("v"), anchor=_mk_anchor("s"), start="first"),
        "move.bad_start": lambda o, b: o.move(Arr(n, lambda i: D(i), "vec"), start=1.5),
        "move.bad_input": lambda o, b: o.move(b),
        "rotate.bad_rotation": lambda o, b: o.rotate(b),
        "rotate.bad_anchor": lambda o, b: o.rotate(_mk_rot("s"), anchor=b),
        "position.bad": lambda o, b: setattr(o, "position", b),
        "orientation.bad": lambda o, b: setattr(o, "orientation", b),
        "position": lambda o, b: setattr(o, "position", Arr(m, lambda i: X(i), "vec")),
        "orientation": lambda o, b: setattr(o, "orientation", SRot(Arr(m, lambda i: Y(i), "quat"))),
    }
    for name, op in ops.items():
        # count validator calls on a normal run, then fail each in turn
        ncalls = None
        fail_points = [None]
        idx = 0
        while idx < len(fail_points):
            fp = fail_points[idx]
            idx += 1
            ns = PathNS()
            ns.calls.fail_at = fp
            seen = {}

            maxcalls = [0]

            def body():
                ns.calls.log = []
                p, o, P, O = fresh_path("o", N)
                obj = ns.node(p, o)
                pre = (obj._position, obj._position._elem, obj._orientation, obj._orientation.q._elem, obj._orientation.q)
                try:
                    op(obj, Bad())
                except MagpylibBadUserInput:
                    post_ = (obj._position, obj._position._elem, obj._orientation, obj._orientation.q._elem, obj._orientation.q)
                    return "raised", all(a is b for a, b in zip(pre, post_))
                finally:
                    maxcalls[0] = max(maxcalls[0], len(ns.calls.log))
                return "ok", True

            results = []
            for ctx, (kind, res) in explore(lambda: (Ctx.cur.pc.extend([N >= 1, n >= 1, na >= 1, m >= 1]), body())[1]):
                rep.paths += 1
                if kind == "unsupported":
                    rep.obligation(f"rejected[{name},fail_at={fp}].path-outside-the-verified-subset", {"status": "unknown", "backend": "symex", "time_s": 0, "reason": str(res)[:200]},
                                   "class_BaseTransform/class_BaseGeo (exceptional postcondition)", "exceptional")
                elif kind == "exc":
                    results.append(("foreign-exception", False, res))
                else:
                    results.append((res[0], res[1], None))
            if fp is None:
                ncalls = maxcalls[0]
                if ".bad" not in name:
                    fail_points += list(range(ncalls))
            for i, (what, unchanged, exc) in enumerate(results):
                if fp is None and ".bad" not in name:
                    continue
                if fp is not None and what == "ok":
                    continue  # this path makes fewer validator calls than fail_at: no fault was injected
                lab = f"rejected[{name},fail_at={fp}]@path{i + 1}"
                ok = what == "raised" and unchanged
                r = {"status": "discharged" if ok else "refuted", "backend": "structural-identity", "time_s": 0.0, "model": None}
                rep.obligation(lab + ".raises-input-error-and-object-untouched", r,
                               "magpylib._src.obj_classes.class_BaseTransform/class_BaseGeo (exceptional postcondition)", "exceptional")
                if not ok:
                    fails.append((lab, _slim(r), f"{what}: {exc!r}; unchanged={unchanged}", dict(op="rejected", name=name)))
    return fails


# ---------------------------------------------------------------------------
# native replay / bounded stand-in on the real, unmodified library
def _native_objs(rng, Nn):
    import magpylib as magpy
    from scipy.spatial.transform import Rotation as R

    s = magpy.Sensor()
    s._position = rng.normal(size=(Nn, 3))
    s._orientation = R.from_rotvec(rng.normal(size=(Nn, 3)))
    return s


def native_case(sc, Nn, nn_, nan_, st, seed=0):
    """run one concrete case on the real library; returns None if it agrees with the spec, else a message"""
    from scipy.spatial.transform import Rotation as R

    rng = np.random.default_rng(seed)
    s = _native_objs(rng, Nn)
    pos0, q0 = s._position.copy(), s._orientation.as_quat().copy()
    stv = "auto" if sc.get("auto") else st
    try:
        if sc["op"] == "move":
            disp = rng.normal(size=3) if sc["scalar"] else rng.normal(size=(nn_, 3))
            s.move(disp, start=stv)
            eP, eQ = PS.n_expected(pos0, q0, "move", sc["scalar"], 1 if sc["scalar"] else nn_, stv, disp=disp)
        elif sc["op"] == "rotate":
            rot = R.from_rotvec(rng.normal(size=3)) if sc["rot"] in ("s", "none") else R.from_rotvec(rng.normal(size=(nn_, 3)))
            if sc["rot"] == "none":
                rot = R.identity()  # what rotation=None stands for: the expected result is computed with the unit rotation
            if sc.get("tiny"):
                # nanometre-sized numbers: positions within 1e-8 of the anchor must still be rotated about it
                s._position = s._position * 1e-9
                pos0 = s._position.copy()
            anc = {"none": None, "zero": 0, "s": rng.normal(size=3) * (1e-9 if sc.get("tiny") else 1), "v": rng.normal(size=(nan_, 3)),
                   "self": None}[sc["anchor"]]
            if sc["anchor"] == "self":
                anc = s.position  # the object's own position (a view of its path array): rotating about itself must leave the position alone
            parent = rng.normal(size=(Nn, 3)) if sc.get("parent") else None
            scalar = sc["rot"] in ("s", "none") and sc["anchor"] != "v"
            ln = 1 if scalar else max(nn_ if sc["rot"] == "v" else 0, nan_ if sc["anchor"] == "v" else 0)
            if parent is not None:
                import magpylib._src.obj_classes.class_BaseTransform as BT

                BT.apply_rotation(s, rot, anchor=None, start=stv, parent_path=parent.copy())
            else:
                s.rotate(None if sc["rot"] == "none" else rot, anchor=anc, start=stv)
            a = np.zeros(3) if sc["anchor"] == "zero" else anc
            if sc["anchor"] == "self":
                a = pos0.copy() if len(pos0) > 1 else pos0[0].copy()
                if np.ndim(a) == 2:
                    scalar = False
                    ln = max(ln if sc["rot"] == "v" else 0, len(a))
            eP, eQ = PS.n_expected(pos0, q0, "rotate", scalar, ln, stv, rot=rot, anchor=a, parent=parent)
        elif sc["op"] == "setpos":
            X_ = rng.normal(size=3) if sc["scalar"] else rng.normal(size=(nn_, 3))
            s.position = X_
            eP = np.reshape(X_, (-1, 3))
            mm = len(eP)
            eQ = np.pad(q0, ((0, mm - Nn), (0, 0)), "edge") if mm >= Nn else q0[Nn - mm:]
        elif sc["op"] == "setori":
            if sc["kind"] == "none":
                s.orientation = None
                eQ = np.array([[0, 0, 0, 1.0]])
            elif sc["kind"] == "single":
                r = R.from_rotvec(rng.normal(size=3))
                s.orientation = r
                eQ = r.as_quat().reshape(1, 4)
            else:
                r = R.from_rotvec(rng.normal(size=(nn_, 3)))
                s.orientation = r
                eQ = r.as_quat()
            mm = len(eQ)
            eP = np.pad(pos0, ((0, mm - Nn), (0, 0)), "edge") if mm >= Nn else pos0[Nn - mm:]
        else:
            return None
    except Exception as e:  # pylint: disable=broad-except
        return f"raised {type(e).__name__}: {e}"
    P1, Q1 = s._position, s._orientation.as_quat()
    if P1.shape != eP.shape or len(Q1) != len(eQ) or len(P1) != len(Q1):
        return f"path lengths: got pos {P1.shape} ori {Q1.shape}, spec {eP.shape}"
    if not np.allclose(P1, eP, rtol=1e-9, atol=1e-9 * (1e-9 if sc.get("tiny") else 1)):
        return f"position path differs from spec at rows {np.where(~np.isclose(P1, eP).all(axis=1))[0].tolist()}"
    if not PS.same_rot(Q1, eQ):
        return "orientation path differs from spec"
    return None


def native_sweep(sc, bound=3, starts=range(-5, 6), first_only=True, hint=None):
    """small-scope exhaustive search of concrete cases of scenario sc; returns list of (params, msg)"""
    out = []
    cases = []
    if hint:
        cases.append((hint.get("N", 1), hint.get("n", 1), hint.get("na", 1), hint.get("start", 0)))
    sts = ["auto"] if sc.get("auto") else list(starts)
    for Nn, nn_, nan_, st in itertools.product(range(1, bound + 1), range(1, bound + 1), range(1, bound + 1), sts):
        cases.append((Nn, nn_, nan_, st))
    nrun = 0
    for Nn, nn_, nan_, st in cases:
        if not (1 <= Nn <= 40 and 1 <= nn_ <= 40 and 1 <= nan_ <= 40) or (st != "auto" and abs(st) > 100):
            continue
        nrun += 1
        msg = native_case(sc, Nn, nn_, nan_, st)
        if msg:
            out.append((dict(N=Nn, n=nn_, na=nan_, start=st), msg))
            if first_only:
                break
    return out, nrun


REPLAY_TMPL = """import sys, json
from checks.c09 import native_case
sc = json.loads({sc!r}); p = json.loads({p!r})
msg = native_case(sc, p['N'], p['n'], p['na'], p['start'])
print('scenario', sc, 'input', p, '->', msg or 'agrees with the specification')
sys.exit(1 if msg else 0)
"""


def native_wrappers(seed=0):
    """rotate_from_* against rotate() with the equivalent scipy rotation on the real library — also zero angles / unit rotations and start values
    outside the path (the padding must happen all the same); returns (evaluations, messages)"""
    import magpylib as magpy
    from scipy.spatial.transform import Rotation as R

    rng = np.random.default_rng(seed)
    bad, n = [], 0
    for m, start, zero in itertools.product((1, 3), ("auto", 0, -1, 4, -5), (False, True)):
        for form in ("angax", "rotvec", "euler", "quat", "matrix", "mrp"):
            rv = np.zeros(3) if zero else rng.normal(size=3)
            rot = R.from_rotvec(rv)

            def mk():
                s_ = magpy.Sensor()
                s_._position = np.arange(3 * m, dtype=float).reshape(m, 3)
                s_._orientation = R.from_rotvec(np.linspace(0.1, 0.5, 3 * m).reshape(m, 3))
                return s_

            a, b = mk(), mk()
            anc = (0.3, -0.2, 0.5)
            a.rotate(rot, anchor=anc, start=start)
            ang = np.linalg.norm(rv)
            try:
                if form == "angax":
                    b.rotate_from_angax(np.rad2deg(ang), rv if ang else (0, 0, 1), anchor=anc, start=start)
                elif form == "rotvec":
                    b.rotate_from_rotvec(rv, anchor=anc, start=start, degrees=False)
                elif form == "euler":
                    b.rotate_from_euler(rot.as_euler("xyz"), "xyz", anchor=anc, start=start, degrees=False)
                elif form == "quat":
                    b.rotate_from_quat(rot.as_quat(), anchor=anc, start=start)
                elif form == "matrix":
                    b.rotate_from_matrix(rot.as_matrix(), anchor=anc, start=start)
                else:
                    b.rotate_from_mrp(rot.as_mrp(), anchor=anc, start=start)
            except Exception as e:  # pylint: disable=broad-except
                bad.append(f"rotate_from_{form}(start={start}, path length {m}, zero rotation={zero}) raised {type(e).__name__}: {e}")
                continue
            n += 1
            if a._position.shape != b._position.shape or not np.allclose(a._position, b._position, atol=1e-12) or \
                    not PS.same_rot(a._orientation.as_quat(), b._orientation.as_quat()):
                bad.append(f"rotate_from_{form}(start={start}, path length {m}, zero rotation={zero}) differs from rotate() with the equivalent rotation "
                           f"(path lengths {len(b._position)} vs {len(a._position)})")
    return n, bad


def native_empty_paths():
    """an EMPTY position array / Rotation is not a path (paths have length >= 1): constructor and setters must reject it with the library's input
    error and leave the object unchanged; returns (evaluations, messages)"""
    import magpylib as magpy
    from magpylib._src.exceptions import MagpylibBadUserInput
    from scipy.spatial.transform import Rotation as R

    bad, n = [], 0
    empties = {"position": np.zeros((0, 3)), "orientation": R.from_quat(np.zeros((0, 4)))}
    for attr, val in empties.items():
        for how in ("constructor", "setter"):
            n += 1
            s_ = magpy.Sensor(position=[(1, 2, 3), (2, 3, 4)])
            p0, q0 = s_._position.copy(), s_._orientation.as_quat().copy()
            try:
                if how == "constructor":
                    s_ = magpy.Sensor(**{attr: val})
                else:
                    setattr(s_, attr, val)
                out = f"accepted: path lengths {len(s_._position)} / {len(s_._orientation)}"
            except MagpylibBadUserInput:
                out = None
            except Exception as e:  # pylint: disable=broad-except
                out = f"raised {type(e).__name__} instead of the input error: {str(e)[:70]}"
            if out is None and how == "setter" and (not np.array_equal(s_._position, p0) or not np.array_equal(s_._orientation.as_quat(), q0)):
                out = "rejected, but the object was changed"
            if out:
                bad.append(f"empty {attr} through the {how}: {out}")
    return n, bad


REPLAY_EMPTY = """import sys
from checks.c09 import native_empty_paths
n, bad = native_empty_paths()
for b in bad: print(b)
sys.exit(1 if bad else 0)
"""

REPLAY_WRAP = """import sys
from checks.c09 import native_wrappers
n, bad = native_wrappers(0)
for b in bad[:6]: print(b)
sys.exit(1 if bad else 0)
"""


def report_failures(rep, fails):
    done = set()
    for item in fails:
        name, r, why = item[0], item[1], item[2]
        sc = item[3] if len(item) > 3 else None
        key = json.dumps(sc, sort_keys=True) if sc else name
        if key in done:
            continue
        done.add(key)
        hint = r.get("hint") or {}
        found = []
        if sc and sc.get("op") in ("move", "rotate", "setpos", "setori"):
            found, _ = native_sweep(sc, bound=3, hint=hint)
        wbad = native_wrappers()[1] if sc and sc.get("op") == "wrapper" else []
        if found:
            p, msg = found[0]
            rep.violation(name, {"why": why, "scenario": sc, "input": p, "native_result": msg, "solver_model": r.get("model_str"),
                                 "script": REPLAY_TMPL.format(sc=json.dumps(sc), p=json.dumps(p))})
        elif wbad:
            rep.violation(name, {"why": why, "scenario": sc, "native_result": wbad[:3], "script": REPLAY_WRAP})
        else:
            rep.violation(name, {"why": why, "scenario": sc, "solver_output": r.get("model_str"),
                                 "note": "obligation discharged on the unchanged tree, refuted now"}, found_input=False)


# ---------------------------------------------------------------------------
def standin(rep, tier):
    """bounded stand-in: the same contract evaluated natively on the real library, small scope"""
    nw, wbad = native_wrappers()
    rep.standin("rotate_from_* == rotate() with the equivalent rotation (incl. zero rotations and start values outside the path)", "6 forms x path length {1,3} x 5 start values x {generic, zero}",
                nw, nw, "random rotation / unit rotation", [dict(form="angax", start=4, zero=True)], failures=len(wbad), exhaustive=True)
    for b in wbad[:2]:
        rep.violation("standin.rotate_from-equals-rotate", {"native_result": b, "script": REPLAY_WRAP})
    ne, ebad = native_empty_paths()
    rep.standin("empty position / orientation input is rejected (paths have length >= 1), object unchanged", "2 attributes x {constructor, setter}", ne, ne,
                "np.zeros((0,3)), Rotation of length 0", [dict(attr="position", how="setter")], failures=len(ebad), exhaustive=True)
    for b in ebad[:2]:
        rep.violation("standin.empty-path-input", {"native_result": b, "script": REPLAY_EMPTY})
    scs = []
    for scalar, auto in itertools.product((True, False), (True, False)):
        scs.append(dict(op="move", scalar=scalar, auto=auto))
    for rk, ak, auto in itertools.product("sv", ("none", "zero", "s", "v"), (True, False)):
        scs.append(dict(op="rotate", rot=rk, anchor=ak, auto=auto, parent=False))
    for rk, auto in itertools.product("sv", (True, False)):
        scs.append(dict(op="rotate", rot=rk, anchor="none", auto=auto, parent=True))
    for ak, auto in itertools.product(("none", "zero", "s"), (True, False)):
        scs.append(dict(op="rotate", rot="none", anchor=ak, auto=auto, parent=False))  # rotation=None: the documented unit rotation, a scalar input
    scs.append(dict(op="rotate", rot="s", anchor="self", auto=True, parent=False))   # anchor aliases the object's own path array
    scs.append(dict(op="rotate", rot="v", anchor="self", auto=False, parent=False))
    for ak in ("zero", "s"):
        scs.append(dict(op="rotate", rot="s", anchor=ak, auto=True, parent=False, tiny=True))
        scs.append(dict(op="rotate", rot="v", anchor=ak, auto=False, parent=False, tiny=True))
    scs += [dict(op="setpos", scalar=True), dict(op="setpos", scalar=False)]
    scs += [dict(op="setori", kind=kd) for kd in ("none", "single", "vector")]
    bound = 3 if tier == "quick" else 4
    starts = range(-5, 6) if tier == "quick" else range(-7, 8)
    total = 0
    bad = []
    for sc in scs:
        found, nrun = native_sweep(sc, bound=bound, starts=starts)
        total += nrun
        bad += [(sc, p, msg) for p, msg in found]
    rep.standin("native small-scope sweep of move/rotate/setters against the NumPy rendering of the spec",
                f"N,n,na <= {bound}, start in [{min(starts)},{max(starts)}] u auto", total, total,
                "every (scenario, N, n, na, start) once; random float paths (values irrelevant to index plumbing)",
                [dict(scenario=scs[5], N=2, n=3, na=1, start=-4)], failures=len(bad), exhaustive=True)
    for sc, p, msg in bad:
        rep.violation(f"standin.native[{json.dumps(sc, sort_keys=True)}]",
                      {"scenario": sc, "input": p, "native_result": msg,
                       "script": REPLAY_TMPL.format(sc=json.dumps(sc), p=json.dumps(p))})


def main(tier, seed):
    rep = Report(PID, tier, seed, "proof")
    for f in REAL_FUNCS:
        rep.function(describe(f))
    rep.assumed_contract("input_checks.check_format_input_vector: accepted input -> fresh float array of the same rows "
                         "(reshape=(-1,3) -> 2-d), rejected -> MagpylibBadUserInput (its accept/reject table is C17)")
    rep.assumed_contract("scipy Rotation: from_quat∘as_quat = identity; __mul__ = composition; apply = group action; "
                         "length-1 / single broadcasting as documented by scipy (cross-checked numerically in the stand-in)")
    rep.assume("np.pad(...,'edge'), basic slicing, slice +=/-=/= of NumPy as modelled by engine.idx (cross-checked natively)")
    rep.assume("rotate_from_* parametrisations: see C09 wrappers scenario (R.from_* constructors are scipy's, assumed)")
    rep.explanation = ("real code objects executed over index-map arrays of symbolic length; spec at a fresh symbolic index; "
                       "all lengths, all starts; plus exceptional postconditions by fault injection at every validator call")
    from checks import c09_wrappers
    from engine.par import run_parallel

    tasks = [("padding_param", scen_padding_param), ("move.apply", lambda r: scen_move(r, "apply")),
             ("move.method", lambda r: scen_move(r, "method"))]
    for rk in "svn":
        for ak in ("none", "zero", "s", "v"):
            if rk == "n" and ak == "v":
                continue
            tasks.append((f"rotate.apply.{rk}.{ak}", lambda r, rk=rk, ak=ak: scen_rotate(r, "apply", tier, only=(rk, ak))))
            tasks.append((f"rotate.method.{rk}.{ak}", lambda r, rk=rk, ak=ak: scen_rotate(r, "method", tier, only=(rk, ak))))
    tasks += [("pad_slice", scen_pad_slice), ("setters", scen_setters), ("rejected", scen_rejected),
              ("wrappers", lambda r: c09_wrappers.run(r, tier))]
    fails = run_parallel(rep, tasks)
    report_failures(rep, fails)
    if not rep.violations:
        standin(rep, tier)
    return rep.finish()
