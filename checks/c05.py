"""C05 — superposition: collections and sumup add fields; fields are linear in the excitation.

P (proof): additivity and oddness of each wrapper in its excitation for B and H on the generic row —
   W(e1 + e2) = W(e1) + W(e2),  W(-e) = -W(e)  (three row-generic runs of the real wrapper; linear real arithmetic; the
   special-case masks `excitation == 0` are shown consistent with linearity) — for Cuboid, Sphere, Triangle, Tetrahedron, TriangularMesh (regular branch, in_out inside/outside),
   Dipole, Circle, Polyline, with the core stubs carrying the ASSUMED contract of linearity in their excitation argument.
   Together with positive homogeneity of degree 1 (C12's excitation grading) this is linearity over the reals.
   Cylinder / CylinderSegment re-parametrise the polarization through arctan2/sqrt before the core: not linear at stub
   level -> numeric stand-in only (labelled).
SI (bounded): collection slice-sum/delete loop, nested flattening and sumup: term-exact level-2 harness — each entry is the
   formal sum of its leaf terms, order and count of entries as in `sources`.
"""
import itertools
import json

import numpy as np
import z3

from contracts.bhjm import MU0, WRAPPERS
from engine import solve
from engine.par import run_parallel
from engine.rebind import describe
from engine.report import Report
from engine.rowgen import G, asreal, check_same_rows, uf, _obj_terms
from engine.symex import Unsupported

PID = "C05"
EXC = {  # wrapper -> (excitation argument of the wrapper, {stub callee: (excitation kw of the core, nout, out_T)})
    "Cuboid": ("polarization", {"magnet_cuboid_Bfield": ("polarizations", 3, False)}),
    "Sphere": ("polarization", {}),
    "Triangle": ("polarization", {"triangle_Bfield": ("polarizations", 3, False)}),
    "Tetrahedron": ("polarization", {"triangle_Bfield": ("polarizations", 3, False)}),
    "TriangularMesh(in_out=inside)": ("polarization", {"triangle_Bfield": ("polarizations", 3, False)}),
    "TriangularMesh(in_out=outside)": ("polarization", {"triangle_Bfield": ("polarizations", 3, False)}),
    "Dipole": ("moment", {"dipole_Hfield": ("moments", 3, False)}),
    "Circle": ("current", {"current_circle_Hfield": ("i0", 3, True)}),
    "Polyline": ("current", {"current_polyline_Hfield": ("currents", 3, False)}),
}


class LogStub:
    def __init__(self, name, exc_kw, nout, out_T):
        self.name, self.exc_kw, self.nout, self.out_T = name, exc_kw, nout, out_T
        self.log = []

    def __call__(self, *args, **kw):
        if args:
            raise Unsupported("positional call of a core stub")
        gs = [kw[k] for k in sorted(kw)]
        tag = gs[0].tag
        for g in gs[1:]:
            check_same_rows(tag, g.tag)
        nb = len(gs[0].blocks)
        outs = []
        for bi in range(nb):
            other, exc = [], []
            for k in sorted(kw):
                ts = [asreal(t) for t in kw[k].blocks[bi].flat]
                (exc if k == self.exc_kw else other).extend(ts)
            o = [uf(f"{self.name}_{j}", *(other + exc)) for j in range(self.nout)]
            self.log.append((other, exc, o))
            outs.append(_obj_terms(o))
        g = G(outs, 0, tag, gs[0].layout)
        return g.T if self.out_T else g


def lin_axioms(stubs):
    """assumed contract of the cores: linear in the excitation argument (instances over all logged calls)"""
    ax = []
    for st in stubs.values():
        calls = st.log
        f = [z3.Function(f"{st.name}_{j}", *([z3.RealSort()] * (len(calls[0][0]) + len(calls[0][1]) + 1))) for j in range(st.nout)] if calls else []
        for (x1, e1, o1), (x2, e2, o2), (x3, e3, o3) in itertools.product(calls, repeat=3):
            same = z3.And(*[a == b for a, b in zip(x1, x2)], *[a == b for a, b in zip(x1, x3)])
            ax.append(z3.Implies(z3.And(same, *[c == a + b for a, b, c in zip(e1, e2, e3)]),
                                 z3.And(*[c == a + b for a, b, c in zip(o1, o2, o3)])))
        for (x1, e1, o1), (x2, e2, o2) in itertools.product(calls, repeat=2):
            same = z3.And(*[a == b for a, b in zip(x1, x2)])
            ax.append(z3.Implies(z3.And(same, *[b == -a for a, b in zip(e1, e2)]), z3.And(*[b == -a for a, b in zip(o1, o2)])))
        for (x1, e1, o1) in calls:
            ax.append(z3.Implies(z3.And(*[a == 0 for a in e1]), z3.And(*[a == 0 for a in o1])))
    return ax


def linearity(rep, name):
    from checks.c02 import _row_model

    sp = WRAPPERS[name]
    exc_arg, stubspec = EXC[name]
    fn = describe(sp.real())
    rep.function(fn)
    fails = []
    base = sp.fresh_args()
    e1 = sp.fresh_args("_e1")[exc_arg]
    e2 = sp.fresh_args("_e2")[exc_arg]

    def with_exc(g):
        a = dict(base)
        a[exc_arg] = g
        return a

    variants = {"e1": e1, "e2": e2, "e1+e2": e1 + e2, "-e1": -e1}
    for f in "BH":
        # first: structural linearity typing of the single-run term (decides wrappers whose masks do not depend on the excitation)
        from engine.dimcalc import LinCheck

        evars = [t.decl().name() for t in base[exc_arg].blocks[0].flat]
        typed = True
        paths0 = [p for p in sp.run(f, args=base) if "out" in p]
        from contracts.bhjm import report_problems

        report_problems(rep, sp, f"{name}.{f}", fn["function"])
        for i, p in enumerate(paths0, 1):
            lc = LinCheck(evars, {})
            ok = all(lc.cls(t) == "bconst" for t in p["pc"]) and all(lc.cls(t) in ("lin", "zero") for t in p["out"])
            if not ok:
                typed = False
                break
        if typed and not stubspec:
            for i, p in enumerate(paths0, 1):
                r = {"status": "discharged", "backend": "linearity-typing", "time_s": 0}
                rep.obligation(f"{name}.{f}.linear-in-{exc_arg}[path{i}]", r, fn["function"], "post")
            rep.paths += len(paths0)
            continue
        stubs = {k: LogStub(k, *v) for k, v in stubspec.items()}
        import magpylib

        conc = {"MU0": float(magpylib.mu_0)}  # linear arithmetic: the module constant itself (symbolic mu_0 is C02's business)
        if name == "Tetrahedron" or name.startswith("TriangularMesh"):
            tri = WRAPPERS["Triangle"]
            ns = sp.namespace({"BHJM_triangle": tri.namespace(dict(stubs, **conc))["BHJM_triangle"], **conc})
        else:
            ns = sp.namespace(dict(stubs, **conc))
        runs = {vn: [p for p in sp.run(f, args=with_exc(g), ns=ns) if "out" in p] for vn, g in variants.items()}
        rep.paths += sum(len(v) for v in runs.values())
        ax = lin_axioms(stubs)
        for (i1, p1), (i2, p2), (i3, p3) in itertools.product(*[list(enumerate(runs[v], 1)) for v in ("e1", "e2", "e1+e2")]):
            assum = p1["pc"] + p1["ax"] + p2["pc"] + p2["ax"] + p3["pc"] + p3["ax"] + ax
            s = z3.Solver()
            s.set("timeout", 20000)
            s.add(*assum)
            if s.check() == z3.unsat:
                continue
            goal = z3.And(*[c == a + b for a, b, c in zip(p1["out"], p2["out"], p3["out"])])
            r = solve.discharge(assum, goal, timeout_ms=60000)
            nm = f"{name}.{f}(e1+e2)=={f}(e1)+{f}(e2)[path{i1},{i2},{i3}]"
            rep.obligation(nm, r, fn["function"], "post", sample=solve.sample_smt2(assum[:4], goal) if (name, f, i1, i2, i3) == ("Cuboid", "B", 1, 1, 1) else None)
            if r["status"] == "refuted":
                fails.append(dict(name=nm, wrapper=name, why="not additive in the excitation", row=_row_model(r["model"], base)))
        for (i1, p1), (i4, p4) in itertools.product(enumerate(runs["e1"], 1), enumerate(runs["-e1"], 1)):
            assum = p1["pc"] + p1["ax"] + p4["pc"] + p4["ax"] + ax
            s = z3.Solver()
            s.set("timeout", 20000)
            s.add(*assum)
            if s.check() == z3.unsat:
                continue
            goal = z3.And(*[b == -a for a, b in zip(p1["out"], p4["out"])])
            r = solve.discharge(assum, goal, timeout_ms=60000)
            nm = f"{name}.{f}(-e)==-{f}(e)[path{i1},{i4}]"
            rep.obligation(nm, r, fn["function"], "post")
            if r["status"] == "refuted":
                fails.append(dict(name=nm, wrapper=name, why="not odd in the excitation", row=_row_model(r["model"], base)))
    return fails


# ------------------------------------------------------------------------------------------------
def native_linearity(seed, classes=None):
    """real library: B,H of every class linear in the excitation (numeric); returns list of messages"""
    import magpylib as magpy

    rng = np.random.default_rng(seed)
    obs = rng.normal(size=(12, 3)) * 1.5
    obs[:4] *= 0.2  # some inside points
    mk = {
        "Cuboid": lambda e: magpy.magnet.Cuboid(dimension=(1, 1.5, 0.7), polarization=e),
        "Cylinder": lambda e: magpy.magnet.Cylinder(dimension=(1, 1.5), polarization=e),
        "CylinderSegment": lambda e: magpy.magnet.CylinderSegment(dimension=(0.4, 1, 1.2, 10, 250), polarization=e),
        "Sphere": lambda e: magpy.magnet.Sphere(diameter=1.3, polarization=e),
        "Tetrahedron": lambda e: magpy.magnet.Tetrahedron(vertices=[(0, 0, 0), (1, 0, 0), (0, 1, 0), (0.2, 0.3, 1)], polarization=e),
        "Triangle": lambda e: magpy.misc.Triangle(vertices=[(0, 0, 0), (1, 0, 0), (0, 1, 0.3)], polarization=e),
        "TriangularMesh": lambda e: magpy.magnet.TriangularMesh.from_ConvexHull(
            points=np.array([(x, y, z) for x in (-.5, .5) for y in (-.6, .6) for z in (-.4, .4)]), polarization=e),
        "Dipole": lambda e: magpy.misc.Dipole(moment=e),
        "Circle": lambda e: magpy.current.Circle(diameter=1.2, current=e[0]),
        "Polyline": lambda e: magpy.current.Polyline(vertices=[(0, 0, 0), (1, 0, 0), (1, 1, 0.5)], current=e[0]),
    }
    out = []
    for cls, f in mk.items():
        if classes and cls not in classes:
            continue
        for trial in range(3):
            e1, e2 = rng.normal(size=3), rng.normal(size=3)
            if trial == 1:
                e2 = -e1 + np.array([0, 0, 0.5])
            if trial == 2:
                e1[:2] = 0
            al, be = rng.normal(size=2)
            if trial == 0:
                al, be = 1e-10, 3e-9  # the property quantifies over excitation magnitudes 1e-12 .. 1e12
            for fld in "BH":
                g = getattr(magpy, "get" + fld)
                with np.errstate(all="ignore"):
                    a, b, c = g(f(e1), obs), g(f(e2), obs), g(f(al * e1 + be * e2), obs)
                ref = np.abs(c).max() + np.abs(a).max() + 1e-300
                if not np.allclose(c, al * a + be * b, rtol=1e-8, atol=1e-10 * ref):
                    out.append(f"{cls}.get{fld}: field of a*e1+b*e2 differs from a*field(e1)+b*field(e2) (max dev {np.abs(c - al * a - be * b).max():.3e})")
    return out


REPLAY = """import sys
from checks.c05 import native_linearity
bad = native_linearity({seed}, {classes!r})
for b in bad[:5]: print(b)
sys.exit(1 if bad else 0)
"""


def main(tier, seed):
    from standins import level2

    rep = Report(PID, tier, seed, "proof")
    from engine import crosscheck

    crosscheck.attach(rep, seed)
    rep.assumed_contract("core field functions are linear in their excitation argument: PROVED here (linearity typing of the real code's term) for magnet_cuboid_Bfield, "
                         "triangle_Bfield, dipole_Hfield, current_polyline_Hfield, current_circle_Hfield (cel_iter as a row-wise stub)")
    rep.assume("Cylinder / CylinderSegment / TriangularMesh linearity: numeric stand-in only (polarization re-parametrised through "
               "arctan2/sqrt before the core; mesh wrapper outside the row-generic subset)")
    rep.assume("sumup = np.sum(axis=0) by NumPy's contract; the collection slice-sum/delete loop is proved by an inductive invariant (checks/c05_loop.py); "
               "nested flattening (format_src_inputs / format_obj_input) only in the bounded term-exact stand-in")
    rep.explanation = "additivity + oddness of 7 wrappers (z3, linear arithmetic) ; reductions over sources/collections bounded term-exact"
    from checks import c06_cores
    from contracts.bhjm import CORES

    fails = run_parallel(rep, [(nm, (lambda r, nm=nm: linearity(r, nm))) for nm in EXC] +
                         [(f"core.{cn}", (lambda r, cn=cn: c06_cores.linearity(r, cn))) for cn in CORES] +
                         [("collection-loop", lambda r: __import__("checks.c05_loop", fromlist=["run"]).run(r, tier))])
    bad = native_linearity(seed)
    rep.standin("numeric linearity in the excitation for every class (incl. Cylinder, CylinderSegment, TriangularMesh)", "10 classes x 3 excitation patterns x B,H",
                60, 60, "random excitations incl. cancelling and axis-aligned ones", [dict(cls="Cylinder", pattern="e2=-e1+(0,0,.5)")], failures=len(bad))
    for f in fails:
        cls = f.get("wrapper", "level2")
        hit = [b for b in bad if b.startswith(cls + ".")]
        if hit:
            rep.violation(f["name"], {"why": f["why"], "native_result": hit[0], "script": REPLAY.format(seed=seed, classes=[cls])})
        else:
            rep.violation(f["name"], {"why": f["why"], "solver_output": json.dumps(f.get("row"))}, found_input=False)
    if not fails:
        for b in bad[:2]:
            rep.violation("standin.native-linearity", {"native_result": b, "script": REPLAY.format(seed=seed, classes=None)})
    from checks.c06 import REPLAY_TM, native_trimesh

    bad_tm = native_trimesh(seed)
    rep.standin("several TriangularMesh magnets in one call: each entry equals the mesh alone (so lists, sumup and Collections are the sums of the single fields)",
                "4 adversarial mesh families x all ordered pairs/triples", 4 * 12 * 2 * 4, 4 * 12 * 2, "as C06", [dict(family="concentric cubes")], failures=len(bad_tm), exhaustive=True)
    if bad_tm:
        rep.violation("standin.trimesh-superposition", {"native_result": bad_tm[0], "script": REPLAY_TM.format(seed=seed)})
    ns = level2.harness_ns()
    nst, nel, lfails, sample = level2.sweep(ns, tier, seed + 5, "all", fields=("B",), sumups=(False, True), aggs=(None,))
    level2.report(rep, "superposition: collection entries = formal sum of their leaves; sumup = sum over entries (term-exact)", nst, nel, lfails, sample,
                  "<= 4 top-level entries from {source, collection of 1-3 leaves, nested collection}, path lengths <= 3, <= 2 sensors")
    # level-2 evaluation for all path lengths and pixel counts (checks/l2sym.py): collection entries are the sums over their leaves; sumup is the sum over entries
    from checks import l2sym

    l2sym.report_fails(rep, l2sym.run(rep, tier, fams=['C', 'D'], stride={'C': 2}, kinds=("element", "shape", "safety")))
    return rep.finish()
