"""C05 (part): the collection slice-sum / delete loop of getBH_level2, cut with an inductive invariant — all source lists, all
collection sizes.

The `for src_ind, src in enumerate(sources)` loop that follows `if num_of_src_list > num_of_sources` is located in the AST of the
real getBH_level2 on every run; its body is extracted mechanically and executed for ONE generic iteration i over havocked state.
State model: B is a row-indexed index map (rows = entries along the source axis); F(t) is the field row of the t-th flattened
source; clen(j) >= 1 the number of leaves of top-level source j (1 for a bare source), off(j) = clen(0)+...+clen(j-1) (uninterpreted,
with off(j+1) = off(j)+clen(j)); SUM(a,b) = F(a)+...+F(b-1) (uninterpreted with SUM(a,a+1) = F(a)).
Invariant Inv(i):   len(B) = i + (off(n) - off(i));
                    forall r <  i : B(r) = SUM(off(r), off(r+1))           (entry r is the sum over the leaves of source r)
                    forall r >= i : B(r) = F(off(i) + (r - i))              (the rest is still flattened, in order)
Initialisation (i = 0), preservation, exit (i = n: exactly n entries, each the sum of its own leaves).
np.sum(B[a:b], axis=0) and np.delete(B, s_[a:b], 0) are contract stubs of NumPy.
"""
import ast
import inspect
import textwrap

import z3

from engine import solve
from engine.rebind import describe
from engine.symex import Ctx, SymBool, SymInt, Unsupported, explore, tz

I = z3.IntSort()
ROW = z3.DeclareSort("FieldRow")
F = z3.Function("F_leaf", I, ROW)
SUM = z3.Function("SUM_F", I, I, ROW)
CLEN = z3.Function("clen", I, I)
OFF = z3.Function("off", I, I)
ISCOL = z3.Function("is_collection", I, z3.BoolSort())
B0 = z3.Function("B_at_loop_head", I, ROW)
n, i, r0 = z3.Ints("n_sources i_iter r_row")


class Rows:
    def __init__(self, length, elem):
        self.length, self.elem = length, elem

    def __getitem__(self, k):
        if isinstance(k, slice):
            lo, hi = tz(k.start), tz(k.stop)
            Ctx.cur.oblige(z3.And(0 <= lo, lo <= hi, hi <= self.length), "row slice within bounds")
            return ("slice", self, lo, hi)
        raise Unsupported("row read")

    def __setitem__(self, k, v):
        kk = tz(k)
        Ctx.cur.oblige(z3.And(0 <= kk, kk < self.length), "row index within bounds")
        old = self.elem
        self.elem = lambda r: z3.If(r == kk, v, old(r))


class NPl:
    class _S:
        def __getitem__(self, k):
            return k

    s_ = _S()

    @staticmethod
    def sum(x, axis=None):
        if not (isinstance(x, tuple) and x[0] == "slice" and axis == 0):
            raise Unsupported("np.sum pattern")
        _, rows, lo, hi = x
        # contract of np.sum + definition of SUM: if every summed row r in [lo, hi) is the leaf row F(r + shift) (checked at a fresh index,
        # i.e. for all r), the result is SUM(lo + shift, hi + shift)
        q = z3.Int("q_fresh_row")
        shift = NPl.shift
        s_ = z3.Solver()
        s_.set("timeout", 20000)
        s_.add(*Ctx.cur.pc)
        s_.add(lo <= q, q < hi, rows.elem(q) != F(q + shift))
        if s_.check() != z3.unsat:
            Ctx.cur.oblige(z3.BoolVal(False), "np.sum: the summed rows are the consecutive leaf rows of ONE entry")
            return z3.Const("garbage_sum", ROW)
        return SUM(lo + shift, hi + shift)

    @staticmethod
    def delete(x, sl, axis):
        if not (isinstance(x, Rows) and isinstance(sl, slice) and axis == 0):
            raise Unsupported("np.delete pattern")
        lo, hi = tz(sl.start), tz(sl.stop)
        Ctx.cur.oblige(z3.And(0 <= lo, lo <= hi, hi <= x.length), "np.delete range within bounds")
        e = x.elem
        return Rows(x.length - (hi - lo), lambda r: z3.If(r < lo, e(r), e(r + (hi - lo))))


def find_loop(func):
    src = textwrap.dedent(inspect.getsource(func))
    tree = ast.parse(src)
    cands = [nd for nd in ast.walk(tree) if isinstance(nd, ast.For) and isinstance(nd.iter, ast.Call) and getattr(nd.iter.func, "id", "") == "enumerate"
             and ast.unparse(nd.iter.args[0]) == "sources" and any(isinstance(x, ast.Call) and ast.unparse(x.func) == "np.delete" for x in ast.walk(nd))]
    if len(cands) != 1:
        raise Unsupported(f"expected one collection-reduction loop, found {len(cands)}")
    lp = cands[0]
    lines = src.splitlines()
    seg = "\n".join(lines[lp.body[0].lineno - 1: lp.body[-1].end_lineno])
    return textwrap.dedent(seg), lp.target.elts[0].id, lp.target.elts[1].id, lp


def run(rep, tier):
    import magpylib._src.fields.field_wrap_BH as FW

    fn = describe(FW.getBH_level2)
    rep.function(fn)
    fnl = fn["function"] + " (collection slice-sum / delete loop)"
    fails = []
    try:
        code, ivar, svar, lp = find_loop(FW.getBH_level2)
    except Unsupported as e:
        rep.obligation("collection-loop.located", {"status": "unknown", "backend": "ast", "time_s": 0, "reason": str(e)}, fnl)
        return fails
    rep.assumed_contract("np.sum(B[a:b], axis=0) = sum of the rows a..b-1; np.delete(B, s_[a:b], 0) removes exactly these rows; "
                         "len(format_obj_input(col, allow='sources')) = number of leaves of the collection (C11's *_all flattening)")
    ax = [z3.ForAll([r0], OFF(r0 + 1) == OFF(r0) + CLEN(r0)), z3.ForAll([r0], CLEN(r0) >= 1), OFF(0) == 0,
          z3.ForAll([r0], z3.Implies(z3.Not(ISCOL(r0)), CLEN(r0) == 1)), z3.ForAll([r0], SUM(r0, r0 + 1) == F(r0))]

    def inv(ii, length, elem, idxs):
        cl = [0 <= ii, ii <= n, length == ii + (OFF(n) - OFF(ii))]
        for r in idxs:
            cl.append(z3.Implies(z3.And(0 <= r, r < ii), elem(r) == SUM(OFF(r), OFF(r + 1))))
            cl.append(z3.Implies(z3.And(ii <= r, r < length), elem(r) == F(OFF(ii) + (r - ii))))
        return z3.And(*cl)

    # concrete instances of the arithmetic facts needed (quantifier-free obligations)
    def facts(*ts):
        out = [OFF(0) == 0]
        for t in ts:
            out += [OFF(t + 1) == OFF(t) + CLEN(t), CLEN(t) >= 1, z3.Implies(z3.Not(ISCOL(t)), CLEN(t) == 1), SUM(OFF(t), OFF(t) + 1) == F(OFF(t))]
        return out

    r = solve.discharge([n >= 1] + facts(), inv(z3.IntVal(0), OFF(n) - OFF(0), lambda r: F(r), [r0]))
    rep.obligation("collection-loop.invariant-initialised(B = flattened leaf rows)", r, fnl, "invariant")
    if r["status"] != "discharged":
        fails.append(dict(name="collection-loop.init", why="invariant does not hold initially"))

    class Src:
        pass

    def body():
        c = Ctx.cur
        L0 = i + (OFF(n) - OFF(i))
        c.pc.extend([n >= 1, 0 <= i, i < n] + facts(i, i + 1, n - 1))
        # the invariant as the description of the state at the loop head (strongest form)
        head = lambda r: z3.If(r < i, SUM(OFF(r), OFF(r + 1)), F(OFF(i) + (r - i)))
        c.pc.append(OFF(n) >= OFF(i + 1))  # the remaining sources have >= 0 leaves
        NPl.shift = OFF(i) - i
        Bm = Rows(L0, head)
        is_col = c.branch(ISCOL(i))
        src = object.__new__(ColTok if is_col else Src)

        def fmt(obj, allow="sources"):
            return LenTok(CLEN(i))

        env = {"np": NPl, "len": lambda x: SymInt(x.t) if isinstance(x, LenTok) else len(x), "isinstance": lambda o, k: isinstance(o, ColTok) if getattr(k, "__name__", "") == "Collection" else isinstance(o, k),
               "Collection": ColTok, "format_obj_input": fmt, "B": Bm, ivar: SymInt(i), svar: src}
        exec(compile(code, "<getBH_level2: body of the collection-reduction loop, extracted>", "exec"), env)  # pylint: disable=exec-used
        return env["B"]

    npth = 0
    for ctx, (kind, res) in explore(body):
        npth += 1
        if kind != "ok":
            st = "unknown" if kind == "unsupported" else "refuted"
            rep.obligation(f"collection-loop.preservation@path{npth}", {"status": st, "backend": "symex", "time_s": 0, "reason": str(res)[:200]}, fnl, "invariant")
            if st == "refuted":
                fails.append(dict(name=f"collection-loop.preservation@path{npth}", why=repr(res)))
            continue
        Bn = res
        goal = inv(i + 1, Bn.length, Bn.elem, [r0])
        r = solve.discharge(ctx.pc, goal)
        rep.obligation(f"collection-loop.invariant-preserved@path{npth}", r, fnl, "invariant", sample=solve.sample_smt2(ctx.pc[:5], goal) if npth == 1 else None)
        if r["status"] == "refuted":
            m = r["model"]
            fails.append(dict(name=f"collection-loop.invariant-preserved@path{npth}",
                              why=f"after processing entry i the rows are not (sums of own leaves | remaining flattened leaves): counter-model n={m.eval(n)} i={m.eval(i)} clen(i)={m.eval(CLEN(i))} row={m.eval(r0)}"))
        for j, (pc, ax_, f_, label, kd) in enumerate(ctx.oblig):
            r = solve.discharge(pc, f_)
            rep.obligation(f"collection-loop@path{npth}.safety{j}.{label.split(':')[0].replace(' ', '_')}", r, fnl, kd)
            if r["status"] == "refuted":
                fails.append(dict(name=f"collection-loop@path{npth}.safety{j}", why=label))
    rep.paths += npth
    r = solve.discharge([n >= 1, inv(n, z3.Int("lenB"), lambda r: B0(r), [r0])] + facts(),
                        z3.And(z3.Int("lenB") == n, z3.Implies(z3.And(0 <= r0, r0 < n), B0(r0) == SUM(OFF(r0), OFF(r0 + 1)))))
    rep.obligation("collection-loop.exit=>one-entry-per-source,each-the-sum-of-its-own-leaves", r, fnl, "invariant")
    if r["status"] != "discharged":
        fails.append(dict(name="collection-loop.exit", why="exit condition does not give the postcondition"))
    return fails


class ColTok:
    pass


class LenTok:
    def __init__(self, t):
        self.t = t
