"""C07 — all interfaces to the same computation return the same numbers.

P1 rank-table consistency (finite, exhaustive over the registry of the working tree): for EVERY class in
   get_registered_sources() with a field function and every parameter p of its `_field_func_kwargs_ndim`:
       table[p] == 1 + rank(p)
   where rank(p) is the number of array dimensions of ONE instance's value of p — read off a valid instance of the class
   (the value its own setter stores), or, for parameters that exist only in the functional form (segment_start/_end),
   the trailing rank in the field function's contract; and every keyword the class's field function accepts besides
   field / observers / in_out is in the table.  (The table tells getBH_dict_level2 whether an array is one parameter set
   to be tiled or a per-instance array — the per-class fact the property's why_tests_cant points at.)
P2 call-equivalence: BaseSource.getX, Sensor.getX, BaseCollection.getX + _validate_getBH_inputs and the top-level getX are
   executed (real code objects re-bound) with getBH_level2 replaced by a recorder and must forward exactly the canonical
   call: same sources / observers objects in the right roles, field == X, sumup / squeeze / pixel_agg / output / in_out
   unchanged.  magpylib.core.* are the same function objects as the cores.
SI (bounded): functional interface vs object-oriented call on n objects for every class x every subset of parameters given
   per instance (n in 1..4), mixed lengths rejected; dataframe rows in the documented source/path/sensor/pixel order.
"""
import inspect
import itertools
import json

import numpy as np

from engine.rebind import describe, rebind, rebind_class
from engine.report import Report

PID = "C07"


def _st(ok, backend="exhaustive-finite"):
    return {"status": "discharged" if ok else "refuted", "backend": backend, "time_s": 0}


def fixtures():
    """one valid instance per registered class (sidecar fixture table; values are irrelevant, only ranks are read)"""
    import magpylib as magpy

    pts = np.array([(x, y, z) for x in (-.5, .5) for y in (-.6, .6) for z in (-.4, .4)])
    return {
        "Cuboid": lambda: magpy.magnet.Cuboid(dimension=(1, 2, 3), polarization=(.1, .2, .3)),
        "Cylinder": lambda: magpy.magnet.Cylinder(dimension=(1, 2), polarization=(.1, .2, .3)),
        "CylinderSegment": lambda: magpy.magnet.CylinderSegment(dimension=(1, 2, 3, 10, 200), polarization=(.1, .2, .3)),
        "Sphere": lambda: magpy.magnet.Sphere(diameter=1.5, polarization=(.1, .2, .3)),
        "Tetrahedron": lambda: magpy.magnet.Tetrahedron(vertices=[(0, 0, 0), (1, 0, 0), (0, 1, 0), (.2, .3, 1)], polarization=(.1, .2, .3)),
        "Triangle": lambda: magpy.misc.Triangle(vertices=[(0, 0, 0), (1, 0, 0), (0, 1, .3)], polarization=(.1, .2, .3)),
        "TriangularMesh": lambda: magpy.magnet.TriangularMesh.from_ConvexHull(points=pts, polarization=(.1, .2, .3)),
        "Circle": lambda: magpy.current.Circle(diameter=1.2, current=1.5),
        "Loop": lambda: magpy.current.Loop(diameter=1.2, current=1.5),
        "Polyline": lambda: magpy.current.Polyline(vertices=[(0, 0, 0), (1, 0, 0), (1, 1, .5)], current=1.5),
        "Line": lambda: magpy.current.Line(vertices=[(0, 0, 0), (1, 0, 0), (1, 1, .5)], current=1.5),
        "Dipole": lambda: magpy.misc.Dipole(moment=(1, 2, 3)),
    }


FUNCTIONAL_ONLY_RANK = {"segment_start": 1, "segment_end": 1}  # trailing rank in BHJM_current_polyline's contract (contracts/bhjm.py)


def rank_table(rep):
    from magpylib._src.utility import get_registered_sources

    fails = []
    fx = fixtures()
    reg = get_registered_sources()
    n_classes = 0
    for cname, cls in reg.items():
        ff = cls.__dict__.get("_field_func", None) or getattr(cls, "_field_func", None)
        if ff is None:
            continue  # CustomSource: no class-level field function, empty table
        n_classes += 1
        fnl = f"{cls.__module__}:{cname}._field_func_kwargs_ndim"
        if cname not in fx:
            rep.obligation(f"ranktable.{cname}.has-fixture", _st(False), fnl, "post")
            fails.append(dict(name=f"ranktable.{cname}.has-fixture", why="registered class without a sidecar fixture (new class?)", cls=cname))
            continue
        import warnings

        with warnings.catch_warnings():
            warnings.simplefilter("ignore")
            obj = fx[cname]()
        table = cls._field_func_kwargs_ndim
        for p, nd in table.items():
            if hasattr(obj, p):
                rank = np.ndim(np.asarray(getattr(obj, p), dtype=float))
                src = "instance value"
            elif p in FUNCTIONAL_ONLY_RANK:
                rank = FUNCTIONAL_ONLY_RANK[p]
                src = "field-function contract"
            else:
                rank, src = None, "unknown parameter"
            ok = rank is not None and nd == rank + 1
            nm = f"ranktable.{cname}.{p}==1+rank({src}:{rank})"
            rep.obligation(nm, _st(ok), fnl, "post")
            if not ok:
                fails.append(dict(name=nm, cls=cname, param=p, why=f"table says ndim {nd} for a per-instance array, one instance's value has rank {rank}: "
                                  f"a single parameter set of shape rank {rank} is {'mistaken for a per-instance array' if rank is not None and nd <= rank else 'not tiled correctly'}"))
        real = ff.__func__ if isinstance(ff, staticmethod) else ff
        try:
            params = [q for q in inspect.signature(real).parameters if q not in ("field", "observers", "in_out", "args", "kwargs")]
        except (TypeError, ValueError):
            params = []
        missing = [q for q in params if q not in table]
        nm = f"ranktable.{cname}.covers-all-field-function-keywords"
        rep.obligation(nm, _st(not missing), fnl, "post")
        if missing:
            fails.append(dict(name=nm, cls=cname, why=f"field function keywords not in the table: {missing}"))
    if n_classes < 10:
        raise RuntimeError("vacuity: registry enumeration found fewer than 10 source classes")
    return fails


# ------------------------------------------------------------------------------------------------
class Tok:
    def __init__(self, n):
        self.n = n

    def __repr__(self):
        return f"<{self.n}>"


def call_equivalence(rep):
    import magpylib as magpy
    import magpylib._src.fields.field_wrap_BH as FW
    import magpylib._src.obj_classes.class_BaseExcitations as BE
    import magpylib._src.obj_classes.class_Collection as CO
    import magpylib._src.obj_classes.class_Sensor as SE

    fails = []
    rec = []

    def recorder(sources, observers, **kw):
        rec.append((sources, observers, kw))
        return Tok("result")

    def check(name, fnl, expect_src, expect_obs, expect_kw, out):
        ok = len(rec) == 1 and out is not None and isinstance(out, Tok)
        why = ""
        if ok:
            s, o, kw = rec[0]
            same = lambda a, b: a is b or (isinstance(a, (list, tuple)) and isinstance(b, (list, tuple)) and len(a) == len(b)
                                           and all(x is y for x, y in zip(a, b)))
            ok = same(s, expect_src) and same(o, expect_obs) and kw == expect_kw
            why = f"forwarded sources={s!r} observers={o!r} kwargs={kw!r}; canonical: {expect_src!r}, {expect_obs!r}, {expect_kw!r}"
        else:
            why = f"{len(rec)} calls of getBH_level2"
        rep.obligation(name, _st(ok, "structural-identity"), fnl, "post")
        if not ok:
            fails.append(dict(name=name, why=why))
        del rec[:]

    kws = dict(squeeze=Tok("squeeze"), pixel_agg=Tok("pixel_agg"), output=Tok("output"))
    # BaseSource.getX
    ns = rebind(BE, dict(getBH_level2=recorder))
    C = rebind_class(BE.BaseSource, ns, names={"getB", "getH", "getJ", "getM"})
    for X in "BHJM":
        rep.function(describe(getattr(BE.BaseSource, "get" + X)))
        o = object.__new__(C)
        for obs in ((Tok("obs1"),), (Tok("obs1"), Tok("obs2"))):
            io = Tok("in_out")
            out = getattr(o, "get" + X)(*obs, in_out=io, **kws)
            check(f"BaseSource.get{X}[{len(obs)} observers].forwards-canonical-call", describe(getattr(BE.BaseSource, "get" + X))["function"],
                  o, obs[0] if len(obs) == 1 else list(obs), dict(field=X, sumup=False, in_out=io, **kws), out)
    # Sensor.getX
    ns = rebind(SE, dict(getBH_level2=recorder))
    C = rebind_class(SE.Sensor, ns, names={"getB", "getH", "getJ", "getM"})
    for X in "BHJM":
        rep.function(describe(getattr(SE.Sensor, "get" + X)))
        o = object.__new__(C)
        for srcs in ((Tok("src1"),), (Tok("src1"), Tok("src2"))):
            io, su = Tok("in_out"), Tok("sumup")
            out = getattr(o, "get" + X)(*srcs, sumup=su, in_out=io, **kws)
            check(f"Sensor.get{X}[{len(srcs)} sources].forwards-canonical-call", describe(getattr(SE.Sensor, "get" + X))["function"],
                  srcs[0] if len(srcs) == 1 else list(srcs), o, dict(field=X, sumup=su, in_out=io, **kws), out)
    # Collection.getX with role inference
    ns = rebind(CO, dict(getBH_level2=recorder))
    for X in "BHJM":
        rep.function(describe(getattr(CO.BaseCollection, "get" + X)))
    rep.function(describe(CO.BaseCollection._validate_getBH_inputs))
    import warnings

    with warnings.catch_warnings():
        warnings.simplefilter("ignore")
        s1, s2 = magpy.misc.Dipole(moment=(1, 2, 3)), magpy.misc.Dipole(moment=(1, 2, 3))
        k1, k2 = magpy.Sensor(), magpy.Sensor()
        cs, ck, cb = magpy.Collection(s1), magpy.Collection(k1), magpy.Collection(s2, k2)
    Cc = rebind_class(CO.BaseCollection, ns, names={"getB", "getH", "getJ", "getM", "_validate_getBH_inputs"})

    def as_rebound(col):
        o = object.__new__(type("RC", (Cc, magpy.Collection), {}))
        o.__dict__.update(col.__dict__)
        return o

    for X in "BHJM":
        fnl = describe(getattr(CO.BaseCollection, "get" + X))["function"]
        ekw = dict(field=X, sumup=False, in_out="auto", **kws)
        o = as_rebound(cs)
        a = Tok("observer")
        check(f"Collection(sources only).get{X}(obs).sources=self,observers=obs", fnl, o, a, ekw, getattr(o, "get" + X)(a, **kws))
        a, b = Tok("o1"), Tok("o2")
        check(f"Collection(sources only).get{X}(o1,o2).observers=(o1,o2)", fnl, o, (a, b), ekw, getattr(o, "get" + X)(a, b, **kws))
        o = as_rebound(ck)
        a = Tok("source")
        check(f"Collection(sensors only).get{X}(src).sources=(src,),observers=self", fnl, (a,), o, ekw, getattr(o, "get" + X)(a, **kws))
        o = as_rebound(cb)
        check(f"Collection(sources+sensors).get{X}().sources=self,observers=self", fnl, o, o, ekw, getattr(o, "get" + X)(**kws))
        try:
            getattr(o, "get" + X)(Tok("extra"), **kws)
            okr = False
        except magpy._src.exceptions.MagpylibBadUserInput:
            okr = not rec
        del rec[:]
        rep.obligation(f"Collection(sources+sensors).get{X}(extra).rejected", _st(okr, "structural-identity"), fnl, "post")
        if not okr:
            fails.append(dict(name=f"Collection(sources+sensors).get{X}(extra).rejected", why="extra input not rejected"))
    # top-level getX
    ns = rebind(FW, dict(getBH_level2=recorder))
    for X in "BHJM":
        f = ns["get" + X]
        rep.function(describe(getattr(FW, "get" + X)))
        s, o, su, io = Tok("sources"), Tok("observers"), Tok("sumup"), Tok("in_out")
        extra = Tok("dimension")
        out = f(s, o, sumup=su, in_out=io, dimension=extra, **kws)
        check(f"magpylib.get{X}.forwards-canonical-call(+functional kwargs)", describe(getattr(FW, "get" + X))["function"],
              s, o, dict(field=X, sumup=su, in_out=io, dimension=extra, **kws), out)
    # core identity
    import importlib

    import magpylib.core as core

    table = {"magnet_cuboid_Bfield": "field_BH_cuboid", "magnet_cylinder_axial_Bfield": "field_BH_cylinder",
             "magnet_cylinder_diametral_Hfield": "field_BH_cylinder", "magnet_cylinder_segment_Hfield": "field_BH_cylinder_segment",
             "magnet_sphere_Bfield": "field_BH_sphere", "current_circle_Hfield": "field_BH_circle",
             "current_polyline_Hfield": "field_BH_polyline", "dipole_Hfield": "field_BH_dipole", "triangle_Bfield": "field_BH_triangle"}
    for nm, mod in table.items():
        real = getattr(importlib.import_module("magpylib._src.fields." + mod), nm)
        ok = getattr(core, nm, None) is real
        rep.obligation(f"magpylib.core.{nm}-is-the-core-function-object", _st(ok, "object-identity"), "magpylib.core", "post")
        if not ok:
            fails.append(dict(name=f"magpylib.core.{nm}", why="magpylib.core exports a different function object than the core used by the classes"))
    return fails


# ------------------------------------------------------------------------------------------------
def native_functional(seed, tier, only=None):
    """functional interface vs object-oriented evaluation, every class x subsets of per-instance parameters; returns (runs, messages)"""
    import warnings

    import magpylib as magpy
    from scipy.spatial.transform import Rotation as R

    warnings.simplefilter("ignore")
    rng = np.random.default_rng(seed)
    pts = lambda: (np.array([(x, y, z) for x in (-.5, .5) for y in (-.6, .6) for z in (-.4, .4)]) * rng.uniform(0.5, 1.5, size=3))

    def mesh_of(p):
        return magpy.magnet.TriangularMesh.from_ConvexHull(points=p, polarization=(0, 0, 1)).mesh

    gens = {
        "Cuboid": dict(dimension=lambda: rng.uniform(.5, 2, 3), polarization=lambda: rng.normal(size=3)),
        "Cylinder": dict(dimension=lambda: rng.uniform(.5, 2, 2), polarization=lambda: rng.normal(size=3)),
        "CylinderSegment": dict(dimension=lambda: np.array([rng.uniform(.1, .5), rng.uniform(.6, 1.5), rng.uniform(.5, 2), rng.uniform(-100, 0), rng.uniform(10, 200)]),
                                polarization=lambda: rng.normal(size=3)),
        "Sphere": dict(diameter=lambda: rng.uniform(.5, 2), polarization=lambda: rng.normal(size=3)),
        "Tetrahedron": dict(vertices=lambda: rng.normal(size=(4, 3)), polarization=lambda: rng.normal(size=3)),
        "Triangle": dict(vertices=lambda: rng.normal(size=(3, 3)), polarization=lambda: rng.normal(size=3)),
        "TriangularMesh": dict(mesh=lambda: mesh_of(pts()), polarization=lambda: rng.normal(size=3)),
        "Circle": dict(diameter=lambda: rng.uniform(.5, 2), current=lambda: rng.normal()),
        "Polyline": dict(vertices=lambda: rng.normal(size=(3, 3)), current=lambda: rng.normal()),
        "Dipole": dict(moment=lambda: rng.normal(size=3)),
    }
    classes = {"Cuboid": magpy.magnet.Cuboid, "Cylinder": magpy.magnet.Cylinder, "CylinderSegment": magpy.magnet.CylinderSegment,
               "Sphere": magpy.magnet.Sphere, "Tetrahedron": magpy.magnet.Tetrahedron, "Triangle": magpy.misc.Triangle,
               "Circle": magpy.current.Circle, "Polyline": magpy.current.Polyline, "Dipole": magpy.misc.Dipole}
    bad, runs = [], 0
    ns_ = (1, 2, 3, 4) if tier == "thorough" else (1, 3, 4)
    for cname, g in gens.items():
        if only and cname not in only:
            continue
        pnames = list(g)
        for n in ns_:
            for r_ in range(len(pnames) + 1):
                for per_inst in itertools.combinations(pnames, r_):
                    for obs_single in ((True, False) if per_inst else (False,)):
                        vals = {p: ([g[p]() for _ in range(n)] if p in per_inst else g[p]()) for p in pnames}
                        obs = rng.normal(size=(n, 3)) * 3 + 4
                        pos = rng.normal(size=(n, 3)) * .1
                        if obs_single:
                            obs = obs[:1].repeat(n, axis=0)
                        kw = {p: (np.array(v) if p in per_inst else v) for p, v in vals.items()}
                        runs += 1
                        try:
                            got = magpy.getB(cname, obs[0] if obs_single else obs, position=pos, **kw)
                            got = np.reshape(got, (-1, 3))
                        except Exception as e:  # pylint: disable=broad-except
                            bad.append(f"getB('{cname}', n={n}, per-instance={list(per_inst)}, single observer={obs_single}): raised {type(e).__name__}: {str(e)[:90]}")
                            continue
                        exp = []
                        for i in range(n):
                            kwi = {p: (vals[p][i] if p in per_inst else vals[p]) for p in pnames}
                            if cname == "TriangularMesh":
                                o = magpy.magnet.TriangularMesh.from_mesh(mesh=kwi["mesh"], polarization=kwi["polarization"], reorient_faces=False,
                                                                          check_open=False, check_disconnected=False, check_selfintersecting=False)
                            else:
                                o = classes[cname](**kwi)
                            o.position = pos[i]
                            exp.append(magpy.getB(o, obs[i]))
                        exp = np.array(exp)
                        if got.shape != exp.shape or not np.allclose(got, exp, rtol=1e-10, atol=1e-18, equal_nan=True):
                            bad.append(f"getB('{cname}', n={n}, per-instance={list(per_inst)}, single observer={obs_single}): differs from the object-oriented result")
        # mixed lengths are rejected with the input error
        if len(pnames) >= 1:
            runs += 1
            try:
                magpy.getB(cname, rng.normal(size=(3, 3)) + 4, **{p: (np.array([g[p]() for _ in range(2)]) if p == pnames[0] else g[p]()) for p in pnames})
                bad.append(f"getB('{cname}') with 3 observers and 2 parameter sets was accepted")
            except magpy._src.exceptions.MagpylibBadUserInput:
                pass
            except Exception as e:  # pylint: disable=broad-except
                bad.append(f"getB('{cname}') with mixed lengths raised {type(e).__name__} instead of the input error")
    return runs, bad


def native_interfaces(seed):
    """object-oriented call forms against each other on one configuration with interleaved source classes; returns messages"""
    import warnings

    import magpylib as magpy

    warnings.simplefilter("ignore")
    rng = np.random.default_rng(seed)

    def mk():
        return [magpy.magnet.Cuboid(dimension=(1, 2, 3), polarization=(.1, .2, .3), position=(0, 0, 0)),
                magpy.magnet.Sphere(diameter=1, polarization=(.3, 0, .1), position=(3, 0, 0)),
                magpy.magnet.Cuboid(dimension=(2, 1, 1), polarization=(0, .5, .3), position=(0, 3, 0)),
                magpy.current.Polyline(vertices=[(0, 0, 0), (1, 0, 1), (2, 1, 1)], current=1.5, position=(0, 0, 3)),
                magpy.magnet.Sphere(diameter=2, polarization=(0, .2, .1), position=(-3, 0, 0)),
                magpy.current.Polyline(vertices=[(0, 0, 0), (0, 1, 1), (1, 1, 2)], current=-0.7, position=(0, -3, 0))]

    bad = []
    srcs = mk()
    sens = magpy.Sensor(pixel=rng.normal(size=(2, 3)) * 0.2, position=(5, 5, 5))
    obs_g = sens.pixel + sens.position
    for X in "BHJM":
        top = getattr(magpy, "get" + X)
        ref = np.array([getattr(s, "get" + X)(sens) for s in srcs])
        forms = {
            f"get{X}(list, sens)": top(srcs, sens),
            f"get{X}(list, positions)": top(srcs, obs_g),
            f"sens.get{X}(*list)": getattr(sens, "get" + X)(*srcs),
        }
        for nm, val in forms.items():
            if val.shape != ref.shape or not np.allclose(val, ref, rtol=1e-10, atol=1e-18):
                bad.append(f"{nm} differs from [src.get{X}(sens) for src in list] (interleaved classes Cuboid, Sphere, Cuboid, Polyline, Sphere, Polyline)")
        srcs2 = mk()
        col = magpy.Collection(*srcs2)
        if not np.allclose(getattr(col, "get" + X)(sens), ref.sum(axis=0), rtol=1e-9, atol=1e-16):
            bad.append(f"Collection(list).get{X}(sens) differs from the sum of src.get{X}(sens)")
        if not np.allclose(top(srcs, sens, sumup=True), ref.sum(axis=0), rtol=1e-9, atol=1e-16):
            bad.append(f"get{X}(list, sens, sumup=True) differs from the sum of src.get{X}(sens)")
    try:
        bad += _native_decomposed(magpy, rng)
    except Exception as e:  # pylint: disable=broad-except
        bad.append(f"decomposed evaluation raised {type(e).__name__}: {e}")
    try:
        bad += _native_cores(magpy, rng)
    except Exception as e:  # pylint: disable=broad-except
        bad.append(f"core-function comparison raised {type(e).__name__}: {e}")
    return bad


def _native_cores(magpy, rng):
    """the exported core functions (magpylib.core) against the object interface for the same configuration in the source frame"""
    import magpylib.core as core

    mu0 = magpy.mu_0
    bad = []
    obs = np.array([(0.3, 0.2, 0.1), (1.5, 0.4, 0.2), (2.5, -1.0, 0.7), (0.1, -0.2, 1.4), (-1.2, 1.1, -0.3)])
    n = len(obs)
    pol = np.array((0.1, 0.2, 0.3))

    def cmp(name, got, exp, rtol=1e-7):
        sc = np.abs(exp).max() + 1e-300
        if got.shape != exp.shape or not np.all(np.abs(got - exp) <= rtol * sc):
            bad.append(f"{name}: the object interface differs from the core function (max relative deviation {np.abs(got - exp).max() / sc:.2e})")

    # CylinderSegment: a true segment, a hollow full ring, a solid full cylinder
    x, y, z = obs.T
    r, phi = np.hypot(x, y), np.arctan2(y, x)
    M = np.linalg.norm(pol) / mu0
    phim, thm = np.arctan2(pol[1], pol[0]), np.arctan2(np.hypot(pol[0], pol[1]), pol[2])
    for dim in ((1.0, 2.0, 1.0, 0.0, 90.0), (1.0, 2.0, 1.0, 0.0, 360.0), (0.0, 2.0, 1.0, 0.0, 360.0), (0.5, 1.5, 2.0, -180.0, 180.0)):
        r1, r2, h, p1, p2 = dim
        Hcy = core.magnet_cylinder_segment_Hfield(observers=np.c_[r, phi, z], dimensions=np.tile([r1, r2, np.deg2rad(p1), np.deg2rad(p2), -h / 2, h / 2], (n, 1)),
                                                  magnetizations=np.tile([M, phim, thm], (n, 1)))
        Hr, Hp, Hz = Hcy.T
        exp = np.c_[Hr * np.cos(phi) - Hp * np.sin(phi), Hr * np.sin(phi) + Hp * np.cos(phi), Hz]
        src = magpy.magnet.CylinderSegment(dimension=dim, polarization=pol)
        cmp(f"CylinderSegment{dim}.getH", src.getH(obs), exp, rtol=1e-6)
        cmp(f"getH('CylinderSegment', dimension={dim})", magpy.getH("CylinderSegment", obs, dimension=dim, polarization=pol), exp, rtol=1e-6)
    # Sphere, Dipole, Triangle, Polyline, Circle
    cmp("Sphere.getB", magpy.magnet.Sphere(diameter=1.1, polarization=pol).getB(obs), core.magnet_sphere_Bfield(observers=obs, diameters=np.full(n, 1.1), polarizations=np.tile(pol, (n, 1))))
    cmp("Dipole.getH", magpy.misc.Dipole(moment=(1, 2, 3)).getH(obs), core.dipole_Hfield(observers=obs, moments=np.tile((1.0, 2.0, 3.0), (n, 1))))
    V = np.array([(0, 0, 0), (1, 0, 0), (0.2, 1, 0.3)])
    cmp("Triangle.getB", magpy.misc.Triangle(vertices=V, polarization=pol).getB(obs), core.triangle_Bfield(observers=obs, vertices=np.tile(V, (n, 1, 1)), polarizations=np.tile(pol, (n, 1))))
    P = np.array([(0, 0, 0), (1, 0, 1), (2, 1, 1)], dtype=float)
    Hp_ = sum(core.current_polyline_Hfield(observers=obs, segments_start=np.tile(a, (n, 1)), segments_end=np.tile(b, (n, 1)), currents=np.full(n, 1.5)) for a, b in zip(P[:-1], P[1:]))
    cmp("Polyline.getH", magpy.current.Polyline(vertices=P, current=1.5).getH(obs), Hp_)
    Hc = core.current_circle_Hfield(r0=np.full(n, 0.8), r=r, z=z, i0=np.full(n, 2.0)).T
    cmp("Circle.getH", magpy.current.Circle(diameter=1.6, current=2.0).getH(obs), np.c_[Hc[:, 0] * np.cos(phi), Hc[:, 0] * np.sin(phi), Hc[:, 2]])
    return bad


def _native_decomposed(magpy, rng):
    """sources with position AND orientation paths, a rotated sensor with several pixels, two meshes that share their first facet: the
    batched evaluation must equal the evaluation decomposed into single poses and single observer points (source by source, path entry by
    path entry, pixel by pixel), and the core function applied in the source frame"""
    from scipy.spatial.transform import Rotation as R

    from magpylib._src.fields.field_BH_cuboid import BHJM_magnet_cuboid

    bad = []
    m = 3
    tetra = lambda sh: dict(vertices=np.array([(0, 0, 0), (1, 0, 0), (0, 1, 0), (0, 0, 1 + sh)], dtype=float))

    def mk(single=None):
        kw = lambda i: {} if single is not None else dict(position=P[i], orientation=O[i])
        return [magpy.magnet.Cuboid(dimension=(1, 2, 3), polarization=(.1, .2, .3), **kw(0)),
                magpy.magnet.Cuboid(dimension=(2, 1, 1), polarization=(0, .5, .3), **kw(1)),
                magpy.magnet.TriangularMesh.from_ConvexHull(points=tetra(0.0)["vertices"], polarization=(.1, .2, .3), **kw(2)),
                magpy.magnet.TriangularMesh.from_ConvexHull(points=tetra(0.7)["vertices"], polarization=(.1, .2, .3), **kw(3)),
                magpy.misc.Dipole(moment=(1, 2, 3), **kw(4)),
                magpy.current.Circle(diameter=2, current=1.2, **kw(5))]

    P = rng.normal(size=(6, m, 3))
    O = [R.from_rotvec(rng.normal(size=(m, 3))) for _ in range(6)]
    srcs = mk()
    # the two meshes must share their first facet (order of from_ConvexHull is not guaranteed): rebuild from explicit faces
    v0, v1 = tetra(0.0)["vertices"], tetra(0.7)["vertices"]
    faces = np.array([(0, 2, 1), (0, 1, 3), (0, 3, 2), (1, 2, 3)])
    for k, v in ((2, v0), (3, v1)):
        srcs[k] = magpy.magnet.TriangularMesh(vertices=v, faces=faces, polarization=(.1, .2, .3), position=P[k], orientation=O[k])
    sens = magpy.Sensor(pixel=rng.normal(size=(2, 2, 3)) * 0.3, position=(4, 5, 6), orientation=R.from_rotvec((0.3, -0.2, 0.5)))
    pix_g = sens.position + sens.orientation.apply(sens.pixel.reshape(-1, 3))
    for X in "BH":
        full = getattr(magpy, "get" + X)(srcs, sens)  # (6, m, 2, 2, 3)
        if full.shape != (6, m, 2, 2, 3):
            bad.append(f"get{X}(sources with paths, sensor with 2x2 pixels) has shape {full.shape}")
            continue
        for si, s in enumerate(srcs):
            for pi in range(m):
                one = s.copy(position=P[si][pi], orientation=O[si][pi])
                for qi, pt in enumerate(pix_g):
                    f1 = getattr(one, "get" + X)(pt)  # one pose, one observer point, global frame
                    exp = sens.orientation.inv().apply(f1)
                    got = full[si, pi].reshape(-1, 3)[qi]
                    if not np.allclose(got, exp, rtol=1e-8, atol=1e-14):
                        bad.append(f"get{X}: source {si} ({type(s).__name__}) path entry {pi} pixel {qi}: batched evaluation differs from the single-pose single-point evaluation")
                        break
                else:
                    continue
                break
        # observers inside one mesh but outside the other one, which shares its first facet: list form vs one source at a time vs functional form
        a, b = (srcs[k].copy(position=(0, 0, 0), orientation=None) for k in (2, 3))
        pts = np.array([(0.1, 0.1, 0.9), (0.1, 0.1, 0.1), (2.0, 2.0, 2.0), (0.05, 0.2, 1.2)])
        both = getattr(magpy, "get" + X)([a, b], pts)
        sep = np.array([getattr(a, "get" + X)(pts), getattr(b, "get" + X)(pts)])
        fun = np.array([getattr(magpy, "get" + X)("TriangularMesh", pts, mesh=o.mesh, polarization=o.polarization) for o in (a, b)])
        if not np.allclose(both, sep, rtol=1e-9, atol=1e-15):
            bad.append(f"get{X}([mesh, mesh'], points inside mesh' only) differs from evaluating the two meshes one at a time")
        if not np.allclose(fun, sep, rtol=1e-9, atol=1e-15):
            bad.append(f"get{X}('TriangularMesh', ..., mesh=...) differs from the object evaluation")
        # core function in the source frame (Cuboid 0)
        for pi in range(m):
            loc = O[0][pi].inv().apply(pix_g - P[0][pi])
            core = BHJM_magnet_cuboid(field=X, observers=loc, dimension=np.tile((1.0, 2.0, 3.0), (4, 1)), polarization=np.tile((.1, .2, .3), (4, 1)))
            exp = sens.orientation.inv().apply(O[0][pi].apply(core))
            if not np.allclose(full[0, pi].reshape(-1, 3), exp, rtol=1e-8, atol=1e-14):
                bad.append(f"get{X}: Cuboid with a path, path entry {pi}: differs from the core function evaluated in the source frame")
                break
    return bad


def native_dataframe(seed):
    import magpylib as magpy

    rng = np.random.default_rng(seed)
    try:
        import pandas  # noqa: F401 pylint: disable=unused-import
    except ImportError:
        return 0, []
    bad = []
    srcs = [magpy.misc.Dipole(moment=(1, 2, 3), position=rng.normal(size=(2, 3))), magpy.magnet.Sphere(diameter=1, polarization=(0, 0, 1), position=(3, 0, 0))]
    sens = [magpy.Sensor(pixel=rng.normal(size=(2, 3)), position=(0, 0, 4)), magpy.Sensor(pixel=rng.normal(size=(2, 3)), position=(0, 4, 0))]
    for X in "BH":
        arr = getattr(magpy, "get" + X)(srcs, sens, squeeze=False)
        df = getattr(magpy, "get" + X)(srcs, sens, output="dataframe")
        vals = df[[X + "x", X + "y", X + "z"]].to_numpy()
        if vals.shape != (arr.size // 3, 3) or not np.allclose(vals, arr.reshape(-1, 3)):
            bad.append(f"dataframe values of get{X} are not the ndarray in source/path/sensor/pixel order")
        order = list(zip(df["source"], df["path"], df["sensor"], df["pixel"]))
        labels_s = [s.style.label if s.style.label else f"{s}" for s in srcs]
        labels_k = [s.style.label if s.style.label else f"{s}" for s in sens]
        exp = list(itertools.product(labels_s, range(2), labels_k, range(2)))
        if order != exp:
            bad.append("dataframe index columns are not the documented source/path/sensor/pixel product")
    return 4, bad


REPLAY = """import sys
from checks.c07 import native_functional
n, bad = native_functional({seed}, 'quick', only={only!r})
for b in bad[:6]: print(b)
sys.exit(1 if bad else 0)
"""


def dataframe_obligations(rep):
    """output='dataframe': from the AST of the real getBH_level2 — the index columns are the Cartesian product
    (source, path, sensor, pixel) in this order (itertools.product = row-major) and the value columns are `B.reshape(-1, 3)`; together with the
    proved shape (L, M, S, K, 3) of B (checks/l2sym.py) the rows carry the same values in the documented order"""
    import ast
    import inspect
    import textwrap

    import magpylib._src.fields.field_wrap_BH as FW

    fails = []
    d = describe(FW.getBH_level2)
    fnl = d["function"]
    tree = ast.parse(textwrap.dedent(inspect.getsource(FW.getBH_level2)))
    ifs = [n for n in ast.walk(tree) if isinstance(n, ast.If) and ast.unparse(n.test).replace(" ", "") in ("output=='dataframe'", 'output=="dataframe"')]
    if len(ifs) != 1:
        rep.obligation("getBH_level2.dataframe-branch.located", {"status": "unknown", "backend": "ast", "time_s": 0, "reason": f"{len(ifs)} candidate branches"}, fnl)
        return fails
    br = ifs[0]
    prods = [n for n in ast.walk(br) if isinstance(n, ast.Call) and getattr(n.func, "id", getattr(n.func, "attr", "")) == "product"]
    cols = [ast.literal_eval(k.value) for n in ast.walk(br) if isinstance(n, ast.Call) and getattr(n.func, "attr", "") == "DataFrame" for k in n.keywords if k.arg == "columns"]
    ok_prod = len(prods) == 1 and len(prods[0].args) == 4
    order = [ast.unparse(a) for a in prods[0].args] if ok_prod else []

    def kind(e):
        e = e.replace(" ", "")
        if e == "src_ids":
            return "source"
        if e == "range(max_path_len)":
            return "path"
        if e == "sens_ids":
            return "sensor"
        if e == "range(num_of_pixels)":
            return "pixel"
        return e

    got = [kind(e) for e in order]
    names = ["source", "path", "sensor", "pixel"]
    recognised = sorted(got) == sorted(names) and len(cols) == 1 and sorted(cols[0]) == sorted(names)
    ok1 = recognised and got == names and cols == [names]
    st1 = _st(ok1, "ast") if recognised else {"status": "unknown", "backend": "ast", "time_s": 0, "reason": f"index construction not recognised: product{order}, columns {cols}"}
    rep.obligation("getBH_level2.dataframe.index-is-product(source,path,sensor,pixel)-in-this-order-with-matching-column-names", st1, fnl, sample={"product_args": order, "columns": cols})
    if recognised and not ok1:
        fails.append(dict(name="getBH_level2.dataframe.order", why=f"index product {got}, columns {cols}"))
    vals = [ast.unparse(n.value).replace(" ", "") for n in ast.walk(br) if isinstance(n, ast.Assign) and any(isinstance(t, ast.Subscript) and ast.unparse(t.value) == "df" for t in n.targets)]
    ok2 = vals == ["B.reshape(-1,3)"]
    rep.obligation("getBH_level2.dataframe.values=B.reshape(-1,3)(row-major-over-the-proved-shape-(L,M,S,K,3))",
                   _st(True, "ast") if ok2 else {"status": "unknown", "backend": "ast", "time_s": 0, "reason": f"value columns assigned from {vals}: not the recognised form"}, fnl)
    # the definitions of the four index ranges
    src = ast.unparse(br)
    ok3 = "src_ids = [s.style.label if s.style.label else f'{s}' for s in sources]" in src and "sens_ids = [s.style.label if s.style.label else f'{s}' for s in sensors]" in src \
        and "num_of_pixels = np.prod(pix_shapes[0][:-1]) if pixel_agg is None else 1" in src
    rep.obligation("getBH_level2.dataframe.index-ranges-are-the-sources,the-path-length,the-sensors,the-pixel-count(1-when-aggregated)",
                   _st(True, "ast") if ok3 else {"status": "unknown", "backend": "ast", "time_s": 0, "reason": "definitions of the index ranges not in the recognised form"}, fnl)
    return fails


def main(tier, seed):
    rep = Report(PID, tier, seed, "proof")
    rep.assumed_contract("getBH_level2 (object-oriented evaluation) is the canonical computation; its own correctness is C03-C06")
    rep.assume("getBH_dict_level2 tiling is proved for rectangular inputs of every instance count (checks/c07_dict.py); ragged (object-dtype) inputs only in the bounded numeric stand-in")
    rep.explanation = "rank-table consistency exhaustively over the registry; call-equivalence of every method wrapper by sentinel objects; functional-vs-OO bounded"
    from checks import c07_dict
    from engine.par import run_parallel

    fails = rank_table(rep) + call_equivalence(rep) + dataframe_obligations(rep)
    fails += run_parallel(rep, [("dict-tiling", lambda r: c07_dict.run(r, tier))])
    runs, bad = native_functional(seed, tier)
    rep.standin("functional interface == object-oriented evaluation (numeric)", "every class x every subset of per-instance parameters x n in {1,3,4} (thorough: 1..4) x single/multiple observers",
                runs, runs, "random parameter values; mixed lengths must be rejected", [dict(cls="Cuboid", n=3, per_instance=["dimension"])], failures=len(bad), exhaustive=True)
    nd, bad_df = native_dataframe(seed)
    rep.standin("dataframe rows == ndarray in source/path/sensor/pixel order", "2 sources x 2 path steps x 2 sensors x 2 pixels, B and H", max(nd, 1), max(nd, 2),
                "one structure", [dict(sources=2, sensors=2)], failures=len(bad_df))
    bad_if = native_interfaces(seed)
    rep.standin("object-oriented call forms agree (top-level, source method, sensor method, collection, sumup) on interleaved source classes", "6 sources, 1 sensor, B/H/J/M",
                20, 5, "one configuration, five call forms, four fields", [dict(order="Cuboid,Sphere,Cuboid,Polyline,Sphere,Polyline")], failures=len(bad_if), exhaustive=True)
    for f in fails:
        cls = f.get("cls")
        hit = [b for b in bad if cls and f"'{cls}'" in b]
        if hit:
            rep.violation(f["name"], {"why": f["why"], "native_result": hit[0], "script": REPLAY.format(seed=seed, only=[cls])})
        else:
            rep.violation(f["name"], {"why": f["why"], "solver_output": f["why"]}, found_input=False)
    if not fails:
        for b in bad_if[:2]:
            rep.violation("standin.call-forms", {"native_result": b, "script": "import sys\nfrom checks.c07 import native_interfaces\nb=native_interfaces(0)\nprint(b[:4])\nsys.exit(1 if b else 0)\n"})
        for b in bad[:3]:
            rep.violation("standin.functional-interface", {"native_result": b, "script": REPLAY.format(seed=seed, only=None)})
        for b in bad_df[:1]:
            rep.violation("standin.dataframe-order", {"native_result": b, "script": "import sys\nfrom checks.c07 import native_dataframe\nn,b=native_dataframe(0)\nprint(b)\nsys.exit(1 if b else 0)\n"})
    # level-2 evaluation for all path lengths and pixel counts (checks/l2sym.py): documented source / path / sensor / pixel order and shape of the output
    from checks import l2sym

    l2sym.report_fails(rep, l2sym.run(rep, tier, fams=["B'", 'B', 'A'], stride={'A': 4, 'B': 4}, kinds=("element", "shape", "agg", "safety")))
    return rep.finish()
