"""C07 (part): the tiling of the functional interface, for ALL instance counts.

The real getBH_dict_level2 (code object re-bound) is executed on abstract parameter arrays: every input is either ONE parameter set
(rank = table rank - 1) or a PER-INSTANCE array of symbolic length n_key >= 1 (rank = table rank), rows given by an index map.
`getBH_level1` is replaced by a recorder.  Obligations, for every registered class, every subset of parameters given per instance,
all lengths:
   accepted  =>  every array handed to the field computation has leading length L (the common per-instance length, or 1) and its
                 row i is the single parameter set, or the i-th given set  (checked at a fresh symbolic index);
   rejected  <=> two per-instance arrays have different lengths > 1, and then the library's input error is raised before the
                 field computation is reached.
Dropped bindings: np -> shim below (array / squeeze / tile are contract stubs), len / set / max / any / isinstance -> symbolic versions,
R -> token class, getBH_level1 -> recorder.  Ragged (object-dtype) inputs are outside this model (bounded numeric stand-in).
"""
import itertools
import numbers

import z3

from engine import solve
from engine.rebind import describe, rebind
from engine.symex import Ctx, SymBool, SymInt, Unsupported, explore, tz

I = z3.IntSort()
VAL = z3.DeclareSort("ParamSet")


class DArr:
    """abstract rectangular float array: rank, leading length (None = rank-0 relative: a single parameter set), row map"""

    def __init__(self, key, ndim, length, elem, single_rank=None):
        self.key, self.ndim, self.length, self.elem = key, ndim, length, elem

    def __getitem__(self, k):
        if k == 0:
            return DRow(self.ndim - 1)
        raise Unsupported("index on abstract parameter array")

    def __iter__(self):
        def it():
            raise _Rect()
            yield  # pragma: no cover

        return it()  # the outermost iterable of a generator expression is evaluated eagerly: fail lazily, at the first next()


class _Rect(Exception):
    """iteration over an abstract rectangular array (only the ragged-ness test does that)"""


class DRow:
    def __init__(self, ndim):
        self.ndim = ndim


class Quat:
    def __init__(self, arr):
        self.arr = arr

    def as_quat(self):
        return self.arr


class RTok:
    @staticmethod
    def from_quat(a):
        return Quat(a)

    @staticmethod
    def identity():
        return Quat(None)


class NPd:
    @staticmethod
    def array(val, dtype=None):
        if isinstance(val, DArr):
            return DArr(val.key, val.ndim, val.length, val.elem)
        raise Unsupported("np.array of a concrete value in the abstract run")

    @staticmethod
    def squeeze(val):
        # only called when len(val) == 1 is on the path condition
        e = val.elem
        return DArr(val.key, val.ndim - 1, None, lambda i: e(z3.IntVal(0)))

    @staticmethod
    def tile(val, reps):
        n = reps[0]
        if val.length is not None or any(r != 1 for r in reps[1:]) or len(reps) - 1 != val.ndim:
            raise Unsupported("np.tile pattern")
        e = val.elem
        return DArr(val.key, val.ndim + 1, tz(n), lambda i: e(None))


def d_len(x):
    if isinstance(x, DArr):
        if x.length is None:
            raise TypeError("len() of a single parameter set")
        return SymInt(x.length)
    if isinstance(x, DRow):
        return 3
    if isinstance(x, SymSet):
        return x.count()
    return len(x)


class SymSet:
    def __init__(self, items):
        self.items = list(items)

    def count(self):
        """number of distinct lengths: decided by forking on the pairwise equalities"""
        reps = []
        for it in self.items:
            t = tz(it)
            for r in reps:
                if Ctx.cur.branch(t == r):
                    break
            else:
                reps.append(t)
        return len(reps)


def d_set(x=()):
    return SymSet(x)


def d_any(gen):
    try:
        return any(gen)
    except _Rect:
        return False  # abstract arrays are rectangular: no row has another length than the first


def d_isinstance(obj, cls):
    if isinstance(obj, DArr):
        return False
    if isinstance(obj, DRow):
        return obj.ndim == 0 and cls is numbers.Number
    return isinstance(obj, cls)


def d_max(it, default=None):
    items = list(it)
    if not items:
        return default
    m = items[0]
    for x in items[1:]:
        if x > m:
            m = x
    return m


def run(rep, tier):
    import magpylib._src.fields.field_wrap_BH as FW
    from magpylib._src.exceptions import MagpylibBadUserInput
    from magpylib._src.utility import get_registered_sources

    fails = []
    fn = describe(FW.getBH_dict_level2)
    rep.function(fn)
    k = z3.Int("k_row")
    reg = get_registered_sources()
    done_tables = set()
    for cname, cls in reg.items():
        table = dict(cls._field_func_kwargs_ndim)
        if getattr(cls, "_field_func", None) is None or not table:
            continue
        sig = tuple(sorted(table.items()))
        if sig in done_tables and tier == "quick":
            continue  # classes with identical tables exercise identical paths
        done_tables.add(sig)
        params = [p for p in table if p not in ("segment_start", "segment_end")][:2] + ["observers", "position"]
        ranks = dict(table, observers=2, position=2)
        for r_ in range(0, min(3, len(params)) + 1):
            for per_inst in itertools.combinations(params, r_):
                rec = []

                def recorder(**kw):
                    rec.append(kw)
                    return None

                ns = rebind(FW, dict(np=NPd, len=d_len, set=d_set, any=d_any, isinstance=d_isinstance, max=d_max, R=RTok, getBH_level1=recorder))
                lens = {p: z3.Int(f"n_{p}") for p in per_inst}
                fmap = {p: z3.Function(f"V_{p}", I, VAL) for p in params}
                cst = {p: z3.Const(f"v_{p}", VAL) for p in params}

                def mk(p):
                    if p in per_inst:
                        f_ = fmap[p]
                        return DArr(p, ranks[p], lens[p], lambda i, f_=f_: f_(i))
                    c_ = cst[p]
                    return DArr(p, ranks[p] - 1, None, lambda i, c_=c_: c_)

                def body():
                    del rec[:]
                    Ctx.cur.pc.extend([n_ >= 1 for n_ in lens.values()])
                    vals = {p: mk(p) for p in params}
                    kw = {p: v for p, v in vals.items() if p not in ("observers", "position")}
                    ori = Quat(DArr("orientation", 1, None, lambda i: z3.Const("q0", VAL)))
                    try:
                        ns["getBH_dict_level2"](cname, vals["observers"], field="B", position=vals["position"], orientation=ori, squeeze=True, in_out="auto", **kw)
                    except MagpylibBadUserInput:
                        return "rejected", None
                    return "accepted", dict(rec[0]) if rec else None

                npth = 0
                for ctx, (kind, res) in explore(body):
                    npth += 1
                    rep.paths += 1
                    tag = f"getBH_dict_level2[{cname}; per-instance={list(per_inst)}]@path{npth}"
                    if kind != "ok":
                        st = "unknown" if kind == "unsupported" else "refuted"
                        rep.obligation(tag + ".no-foreign-exception", {"status": st, "backend": "symex", "time_s": 0, "reason": str(res)[:200]}, fn["function"])
                        if st == "refuted":
                            fails.append(dict(name=tag + ".no-foreign-exception", why=repr(res), cls=cname))
                        continue
                    what, kw = res
                    big = [z3.If(lens[p] > 1, lens[p], z3.IntVal(-1)) for p in per_inst]
                    differ = z3.Or(*[z3.And(a > 1, b > 1, a != b) for a, b in itertools.combinations(big, 2)]) if len(big) > 1 else z3.BoolVal(False)
                    if what == "rejected":
                        r = solve.discharge(ctx.pc, differ)
                        rep.obligation(tag + ".rejected=>two-per-instance-lengths-differ", r, fn["function"])
                        if r["status"] == "refuted":
                            fails.append(dict(name=tag + ".rejected", why="a consistent parameter set is rejected", cls=cname))
                        ok = not rec
                        rep.obligation(tag + ".rejected-before-the-field-computation", {"status": "discharged" if ok else "refuted", "backend": "structural", "time_s": 0}, fn["function"])
                        continue
                    r = solve.discharge(ctx.pc, z3.Not(differ))
                    rep.obligation(tag + ".accepted=>lengths-consistent", r, fn["function"])
                    if r["status"] == "refuted":
                        fails.append(dict(name=tag + ".accepted", why="inputs of different lengths are accepted", cls=cname))
                    if kw is None:
                        rep.obligation(tag + ".field-computation-reached", {"status": "refuted", "backend": "structural", "time_s": 0}, fn["function"])
                        fails.append(dict(name=tag + ".reached", why="accepted but getBH_level1 not called", cls=cname))
                        continue
                    L = z3.IntVal(1)
                    for p in per_inst:
                        L = z3.If(lens[p] > 1, lens[p], L)
                    goals = []
                    for p in params:
                        a = kw.get(p)
                        if not isinstance(a, DArr) or a.length is None:
                            goals.append(z3.BoolVal(False))
                            continue
                        exp = z3.If(lens[p] > 1, fmap[p](k), fmap[p](z3.IntVal(0))) if p in per_inst else cst[p]
                        goals.append(z3.And(a.length == L, z3.Implies(z3.And(0 <= k, k < L), a.elem(k) == exp)))
                    goal = z3.And(*goals)
                    r = solve.discharge(ctx.pc, goal)
                    rep.obligation(tag + ".every-array-has-length-L-and-row-i-is-the-single-or-the-ith-set", r, fn["function"],
                                   sample=solve.sample_smt2(ctx.pc, goal) if (cname, per_inst, npth) == ("Cuboid", ("polarization",), 1) else None)
                    if r["status"] == "refuted":
                        fails.append(dict(name=tag + ".tiling", why="an array handed to the field computation is not the tiled single set / the per-instance set", cls=cname))
                    fld = kw.get("field") == "B" and "field_func" in kw and kw.get("in_out") == "auto"
                    rep.obligation(tag + ".field-and-class-field-function-forwarded", {"status": "discharged" if fld else "refuted", "backend": "structural", "time_s": 0}, fn["function"])
                    if not fld:
                        fails.append(dict(name=tag + ".forwarding", why="field / field_func / in_out not forwarded", cls=cname))
                if npth == 0:
                    raise RuntimeError("vacuity: no path for " + cname)
    return fails
