"""C18 — copy() yields an equal, fully independent, parentless object.   (BOUNDED stand-in only, labelled)

`copy.deepcopy` cannot be executed symbolically and no heap verifier is installed, so nothing is claimed as proved.
The contract of BaseGeo.copy is evaluated at run time on the real method:
   post: same class; state equal leaf by leaf (geometry, excitation, path, pixel, style values except the iterated label);
         copy.parent is None; the MUTABLE REACH of original and copy is disjoint (object-graph walk by id, arrays by
         np.shares_memory) — which implies that no later mutation of either is visible to the other (meta-argument, and
         additionally exercised by a set of concrete mutations); original tree untouched; keyword arguments only on the copy;
         same field.
over all object classes x {no parent, parent} x {style untouched, style kwargs pending, style initialised} x copy keyword
overrides, and collection trees up to depth 3 (subtree copied, links consistent inside the copy).
"""
import itertools
import json
import re

import numpy as np

from engine.report import Report

PID = "C18"


def classes():
    import magpylib as magpy

    pts = np.array([(x, y, z) for x in (-.5, .5) for y in (-.6, .6) for z in (-.4, .4)])
    return {
        "Cuboid": lambda **k: magpy.magnet.Cuboid(dimension=(1, 2, 3), polarization=(.1, .2, .3), **k),
        "Cylinder": lambda **k: magpy.magnet.Cylinder(dimension=(1, 2), polarization=(.1, .2, .3), **k),
        "CylinderSegment": lambda **k: magpy.magnet.CylinderSegment(dimension=(1, 2, 3, 10, 200), polarization=(.1, .2, .3), **k),
        "Sphere": lambda **k: magpy.magnet.Sphere(diameter=1.5, polarization=(.1, .2, .3), **k),
        "Tetrahedron": lambda **k: magpy.magnet.Tetrahedron(vertices=[(0, 0, 0), (1, 0, 0), (0, 1, 0), (.2, .3, 1)], polarization=(.1, .2, .3), **k),
        "Triangle": lambda **k: magpy.misc.Triangle(vertices=[(0, 0, 0), (1, 0, 0), (0, 1, .3)], polarization=(.1, .2, .3), **k),
        "TriangularMesh": lambda **k: magpy.magnet.TriangularMesh.from_ConvexHull(points=pts, polarization=(.1, .2, .3), **k),
        "Circle": lambda **k: magpy.current.Circle(diameter=1.2, current=1.5, **k),
        "Polyline": lambda **k: magpy.current.Polyline(vertices=[(0, 0, 0), (1, 0, 0), (1, 1, .5)], current=1.5, **k),
        "Dipole": lambda **k: magpy.misc.Dipole(moment=(1, 2, 3), **k),
        "CustomSource": lambda **k: magpy.misc.CustomSource(field_func=_ff, **k),
        "Sensor": lambda **k: magpy.Sensor(pixel=[(1, 2, 3), (2, 3, 4)], handedness="left", **k),
        "Collection": lambda **k: magpy.Collection(**k),
    }


def _ff(field, observers):
    return observers * 0.5


STATE_ATTRS = ("_position", "_dimension", "_polarization", "_magnetization", "_vertices", "_faces", "_diameter", "_current", "_moment", "_pixel", "_handedness")


def state(o):
    d = {"cls": type(o).__name__, "ori": np.round(o._orientation.as_quat(), 14).tolist()}
    for a in STATE_ATTRS:
        if hasattr(o, a):
            v = getattr(o, a)
            d[a] = None if v is None else (np.asarray(v).tolist() if not isinstance(v, str) else v)
    st = o.style.as_dict()
    st.pop("label", None)
    # function reprs carry an address (Trace3d.updatefunc's default closure): not part of the value
    d["style"] = re.sub(r" at 0x[0-9a-f]+", "", json.dumps(st, sort_keys=True, default=str))
    if hasattr(o, "_children"):
        d["children"] = [state(c) for c in o._children]
    return d


def reach(o, seen=None, arrays=None, skip_parent=True):
    """ids of mutable objects reachable from o (not following the parent pointer) and the list of reachable ndarrays"""
    seen = {} if seen is None else seen
    arrays = [] if arrays is None else arrays
    stack = [o]
    while stack:
        x = stack.pop()
        if id(x) in seen:
            continue
        if isinstance(x, (str, int, float, bool, type(None), bytes, complex, type, np.generic)) or callable(x) and not hasattr(x, "__dict__"):
            continue
        import types

        if isinstance(x, (types.FunctionType, types.BuiltinFunctionType, types.ModuleType, types.MethodType, property, staticmethod)):
            continue
        seen[id(x)] = x
        if isinstance(x, np.ndarray):
            arrays.append(x)
            continue
        if isinstance(x, dict):
            stack += list(x.values())
        elif isinstance(x, (list, tuple, set, frozenset)):
            stack += list(x)
        elif hasattr(x, "as_quat") and hasattr(x, "apply"):
            arrays.append(x.as_quat())  # scipy Rotation: immutable value object
            continue
        else:
            d = getattr(x, "__dict__", None)
            if d:
                for k, v in d.items():
                    if skip_parent and k == "_parent":
                        continue
                    stack.append(v)
            for sl in getattr(type(x), "__slots__", ()) or ():
                if hasattr(x, sl):
                    stack.append(getattr(x, sl))
    return seen, arrays


def check_copy(orig, cp, kwargs=None, before=None, tree_before=None):
    msgs = []
    if type(cp) is not type(orig):
        msgs.append(f"copy has class {type(cp).__name__}")
    if cp._parent is not None or cp.parent is not None:
        msgs.append("copy has a parent")
    so, sc = state(orig), state(cp)
    if before is not None and so != before:
        msgs.append("the original changed")
    for k in (kwargs or {}):
        pass
    exp = json.loads(json.dumps(so))
    if kwargs:
        if "position" in kwargs:
            exp["_position"] = np.reshape(np.array(kwargs["position"], dtype=float), (-1, 3)).tolist()
        if "style_color" in kwargs:
            st = json.loads(exp["style"])
            st["color"] = kwargs["style_color"]
            exp["style"] = json.dumps(st, sort_keys=True, default=str)
    if "position" in (kwargs or {}):
        sc2, exp2 = dict(sc), dict(exp)
        sc2.pop("ori"), exp2.pop("ori")
        sc2.pop("children", None), exp2.pop("children", None)  # children follow the collection: checked by C10
        if sc2 != exp2:
            diff = [k for k in exp2 if sc2.get(k) != exp2.get(k)]
            msgs.append(f"copy differs from original (+overrides) in {diff}")
    elif sc != exp:
        diff = [k for k in exp if sc.get(k) != exp.get(k)]
        msgs.append(f"copy differs from the original in {diff}")
    # labels: iterated, not equal, when a label exists
    # disjoint mutable reach
    ro, ao = reach(orig)
    rc, ac = reach(cp)
    shared = [type(ro[i]).__name__ for i in ro if i in rc and not isinstance(ro[i], (np.ndarray,))]
    shared = [s for s in shared if s not in ("Rotation",)]
    if shared:
        msgs.append(f"original and copy share mutable objects: {sorted(set(shared))[:5]}")
    for a in ao:
        for b in ac:
            if a is b or (a.size and b.size and np.shares_memory(a, b)):
                msgs.append("original and copy share array memory")
                break
        else:
            continue
        break
    # tree consistency inside the copy
    if hasattr(cp, "_children"):
        stack = [cp]
        while stack:
            c = stack.pop()
            for ch in c._children:
                if ch._parent is not c:
                    msgs.append("inside the copy a child's parent is not the copied collection")
                if hasattr(ch, "_children"):
                    stack.append(ch)
    return msgs


def mutate_and_compare(orig, cp):
    """concrete later mutations: each must be invisible to the other object"""
    msgs = []
    s_cp = state(cp)
    orig.move((1, 2, 3))
    orig.rotate_from_angax(33, "x")
    orig.style.color = "red"
    orig.style.label = "changed"
    for a in ("_dimension", "_polarization", "_vertices", "_moment", "_pixel"):
        v = getattr(orig, a, None)
        if isinstance(v, np.ndarray) and v.flags.writeable:
            v += 1.0
    if hasattr(orig, "_children") and orig._children:
        orig._children[0].move((5, 5, 5))
        orig.remove(orig._children[-1])
    for tr in getattr(orig.style.model3d, "data", []):
        tr.show = False
        tr.scale = 7
        tr.kwargs["x"] = [5, 5]
    if state(cp) != s_cp:
        msgs.append("mutating the original changed the copy")
    s_or = state(orig)
    cp.move((-1, 0, 0))
    cp.style.opacity = 0.3
    if hasattr(cp, "_children") and cp._children:
        cp._children[0].style.color = "blue"
        cp.remove(cp._children[0])
    for a in ("_dimension", "_polarization", "_vertices", "_moment", "_pixel"):
        v = getattr(cp, a, None)
        if isinstance(v, np.ndarray) and v.flags.writeable:
            v *= 2.0
    if state(orig) != s_or:
        msgs.append("mutating the copy changed the original")
    return msgs


def run_all(seed, tier):
    import warnings

    import magpylib as magpy

    warnings.simplefilter("ignore")
    rng = np.random.default_rng(seed)
    bad, n, distinct = [], 0, set()
    mk = classes()
    style_modes = ("untouched", "kwargs-pending", "initialised", "label", "model3d-trace", "kwargs-pending-model3d")
    kw_sets = ({}, {"position": (7, 8, 9)}, {"style_color": "orange"}, {"position": [(1, 1, 1), (2, 2, 2)], "style_color": "green"})
    for cname, parent, smode, kws in itertools.product(mk, (False, True), style_modes, kw_sets):
        skw = {}
        if smode == "kwargs-pending":
            skw = {"style_opacity": 0.5}
        elif smode == "label":
            skw = {"style_label": "thing_07"}
        elif smode == "kwargs-pending-model3d":
            # mutable style input (a user trace) given at construction time, style never touched before copy()
            skw = {"style_model3d_data": [dict(backend="generic", constructor="scatter3d", kwargs=dict(x=[0, 1], y=[0, 1], z=[0, 2]), show=True, scale=2)], "style_color": "red"}
        from scipy.spatial.transform import Rotation as R

        pos, rotv = rng.normal(size=(2, 3)), rng.normal(size=(2, 3))

        def build():
            o = mk[cname](**skw)
            if smode == "initialised":
                o.style.color = "#123456"
            if smode == "model3d-trace":
                o.style.model3d.add_trace(dict(backend="generic", constructor="scatter3d", kwargs=dict(x=[0, 1], y=[0, 1], z=[0, 2]), show=True, scale=2))
            o._position = pos.copy()
            o._orientation = R.from_rotvec(rotv)
            if cname == "Collection":
                kids = [mk["Cuboid"](), mk["Sensor"](), magpy.Collection(mk["Dipole"](), magpy.Collection(mk["Circle"]()))]
                o.add(*kids)
            return o, (magpy.Collection(o, mk["Sphere"]()) if parent else None)

        try:
            o, par = build()
        except TypeError:
            continue
        # the reference state is read off an identically built TWIN: reading the style of `o` itself would initialise a lazily
        # un-initialised style before copy() runs, and copy() would never be exercised with pending style input
        twin, twin_par = build()
        tree_before = state(twin_par) if twin_par is not None else None
        before = state(twin)
        if smode in ("untouched", "kwargs-pending", "label", "kwargs-pending-model3d"):
            assert getattr(o, "_style", None) is None, "harness: style initialised before copy()"
        n += 1
        distinct.add((cname, parent, smode, tuple(sorted(kws))))
        try:
            cp = o.copy(**kws)
        except Exception as e:  # pylint: disable=broad-except
            bad.append((dict(cls=cname, parent=parent, style=smode, kwargs=kws), [f"copy raised {type(e).__name__}: {e}"]))
            continue
        msgs = check_copy(o, cp, kws, before)
        if par is not None:
            if state(par) != tree_before or o._parent is not par or sum(1 for c in par._children if c is o) != 1:
                msgs.append("the original's tree changed (parent link / children)")
            if any(c is cp for c in par._children):
                msgs.append("the copy was inserted into the original's parent")
        # label iteration
        lab_o, lab_c = o.style.label, cp.style.label
        if smode == "label" and "style_label" not in kws and lab_c != "thing_08":
            msgs.append(f"label not iterated: {lab_o!r} -> {lab_c!r}")
        # same field
        if cname not in ("Sensor", "Collection") and "position" not in kws:
            p = np.array([(3.3, 2.2, 1.1), (0.2, 0.1, 0.3)])
            if not np.allclose(magpy.getB(o, p), magpy.getB(cp, p), rtol=1e-12, atol=0, equal_nan=True):
                msgs.append("copy produces a different field")
        if not msgs:
            msgs += mutate_and_compare(o, cp)
        if msgs:
            bad.append((dict(cls=cname, parent=parent, style=smode, kwargs={k: (list(map(list, v)) if isinstance(v, list) else v) for k, v in kws.items()}), msgs[:4]))
    # fault inside copy(): an attribute that copy.deepcopy cannot copy makes copy() raise part-way; the original and its tree
    # must be exactly as before ("leaves the original tree untouched" at every exit of copy())
    import threading

    for cname in mk:
        for where in ("attribute", "nested attribute"):
            try:
                o = mk[cname]()
            except TypeError:
                continue
            if cname == "Collection":
                o.add(mk["Cuboid"](), magpy.Collection(mk["Dipole"]()))
            sib = mk["Sphere"]()
            par = magpy.Collection(sib, o)
            if where == "attribute":
                o.user_lock = threading.Lock()
            else:
                o.user_data = {"handles": [np.zeros(3), threading.Lock()]}
            kids_before = [id(c) for c in par._children]
            n += 1
            distinct.add((cname, "fault", where))
            try:
                o.copy()
                continue  # deepcopy coped with it: nothing to check in this scenario
            except Exception:  # pylint: disable=broad-except
                pass
            msgs = []
            if o._parent is not par:
                msgs.append(f"after a copy() that raised, the original's parent is {o._parent!r} (was its collection)")
            if [id(c) for c in par._children] != kids_before or sib._parent is not par:
                msgs.append("after a copy() that raised, the children of the original's parent changed")
            if cname == "Collection" and any(c._parent is not o for c in o._children):
                msgs.append("after a copy() that raised, the original's children lost their parent")
            if msgs:
                bad.append((dict(cls=cname, parent=True, fault=f"deepcopy raises ({where} holds a threading.Lock)"), msgs))
    return n, len(distinct), bad


REPLAY = """import sys
from checks.c18 import run_all
n, d, bad = run_all({seed}, 'quick')
for case, msgs in bad[:5]: print(case, msgs)
sys.exit(1 if bad else 0)
"""


def main(tier, seed):
    rep = Report(PID, tier, seed, "other")
    rep.explanation = ("obligations on the real code of BaseGeo.copy (AST) and on the class registry (no copy hooks, no shared class-level mutable state) that, with the "
                       "ASSUMED contract of copy.deepcopy, give parentless + independent (checks/c18_struct.py); BOUNDED: run-time contract of BaseGeo.copy on all classes x parent x "
                       "style state x keyword overrides, collection trees to depth 3")
    rep.assume("copy.deepcopy itself is not verified (C implementation / interpreter): its contract is assumed; equality of state and of the field after copying only in the bounded stand-in")
    from checks import c18_struct

    sfails = c18_struct.run(rep)
    rep.assume("meta-argument: disjoint mutable reach implies that no later mutation of either object is visible to the other; a fixed set of mutations is exercised in addition")
    n, d, bad = run_all(seed, tier)
    rep.standin("run-time contract of copy(): equal state, no parent, disjoint mutable reach, original tree untouched, kwargs only on the copy, same field, later mutations invisible",
                "13 classes x {no parent, parent} x 6 style states (incl. a user model3d trace, pending kwargs with a mutable trace input; reference state from a twin) x 4 keyword sets; collection tree depth 3; copy() raising inside deepcopy (uncopyable direct / nested attribute) for every class with a parent", n, d,
                "every combination once; distinct = (class, parent, style state, kwargs)", [dict(cls="Collection", parent=True, style="kwargs-pending", kwargs={"position": [7, 8, 9]})],
                failures=len(bad), exhaustive=True)
    for f in sfails:
        if bad:
            rep.violation(f["name"], {"why": f["why"], "case": bad[0][0], "native_result": bad[0][1], "script": REPLAY.format(seed=seed)})
        else:
            # the structural obligations are SUFFICIENT conditions (given deepcopy's contract), not necessary ones: e.g. a correct __deepcopy__ hook
            # fails S4 although the property holds. Without a failing run of the real copy() the obligation is undecided, not a violation.
            for o in rep.obligations:
                if o["status"] == "refuted" and (o["name"].startswith(f["name"].split("[")[0]) and f["name"].split("[")[-1].rstrip("]") in o["name"]):
                    o["status"] = "unknown"
                    rep.undecided.append(o["name"] + " :: " + f["why"] + " (sufficient condition not met; the run-time contract of copy() found nothing)")
    if not sfails:
        for case, msgs in bad[:3]:
            rep.violation(f"standin.copy-contract[{case['cls']}]", {"case": case, "native_result": msgs, "script": REPLAY.format(seed=seed)})
    return rep.finish()
