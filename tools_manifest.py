"""generates MANIFEST.json from the table below (keeps it valid at all times)"""
import json, sys
sys.path.insert(0, "/verif")
props = [json.loads(l) for l in open("/verif/properties.jsonl")]
from manifest_table import CHECKS, NA, SOURCE_COMMITS
man = {
    "version": 1,
    "setup_cmd": "./vv setup",
    "hooks": {
        "guard": "MAGPYLIB_VERIF",
        "enable": "no hooks in /repo: contracts are sidecar files under /verif/contracts; checks import /repo's working tree (editable install) and re-bind the real code objects",
        "baseline_off_cmd": "cd /repo && /venv/bin/python -m pytest -ra -q -p no:cacheprovider --timeout=900 --continue-on-collection-errors",
        "source_commits": SOURCE_COMMITS,
        "add_only": True,
    },
    "engines": [
        {"name": "rebind-symex", "path": "engine/", "serves_properties": sorted(CHECKS),
         "kind_free_text": "verification-condition generation by symbolic execution of the real code objects (re-bound over shim namespaces), z3 5.1 + cvc5 back ends; sidecar contracts in contracts/; bounded native stand-ins labelled as such"},
        {"name": "symbolic-shape arrays", "path": "engine/shape.py", "serves_properties": ["C03", "C04", "C05", "C06", "C07", "C08"],
         "kind_free_text": "arrays whose dimensions are composites of atomic axes with polynomial sizes; tile / repeat / reshape / concatenate / slicing as structural operations; the real getBH_level2 chain runs on them for all path lengths and pixel counts (checks/l2sym.py); cross-checked against NumPy on every run"},
        {"name": "row-generic shim + typing calculi", "path": "engine/rowgen.py", "serves_properties": ["C02", "C05", "C06", "C08", "C12", "C15"],
         "kind_free_text": "one generic row of a batch with mask tags and batch-global any/all symbols; dimension calculus, linearity typing, definedness calculus over the resulting term DAGs; exact rational normal form (engine/ratpoly.py) where NRA solvers do not finish"},
    ],
    "checks": [],
    "not_applicable": [],
    "notes": "see DESIGN.md; known findings in known_findings.json",
}
for p in props:
    pid = p["id"]
    if pid in CHECKS:
        c = CHECKS[pid]
        man["checks"].append({
            "property_id": pid,
            "quick_cmd": f"./vv check {pid} --tier quick",
            "thorough_cmd": f"./vv check {pid} --tier thorough",
            "evidence_file": f"/verif/evidence/{pid}.json",
            "replay_cmd_template": "./vv replay {path}",
            "engine": "rebind-symex",
            "level_claimed": {"category": c["level"], "text": c["text"], "design_ref": c.get("ref", "DESIGN.md §4 " + pid)},
            "level_note": c["note"],
            "technique": c["technique"],
        })
    else:
        man["not_applicable"].append({"property_id": pid, "reason": NA[pid]})
json.dump(man, open("/verif/MANIFEST.json", "w"), indent=1)
import jsonschema
jsonschema.validate(man, json.load(open("/root/.vp/MANIFEST.schema.json")))
print("MANIFEST ok:", len(man["checks"]), "checks,", len(man["not_applicable"]), "not applicable")
