"""Exact rational-function arithmetic over Q[x1..xn] (polynomials as {monomial: Fraction}) — a decision procedure for identities between the
rational terms that the row-generic shim produces (cofactor / determinant expressions): two terms are equal as rational functions iff the
cross-multiplied polynomials expand to the same normal form.  Used where z3/cvc5 nonlinear arithmetic does not finish."""
from fractions import Fraction

import z3


class P:
    __slots__ = ("t",)

    def __init__(self, t):
        self.t = {k: v for k, v in t.items() if v != 0}

    @staticmethod
    def const(c):
        return P({(): Fraction(c)})

    @staticmethod
    def var(name):
        return P({((name, 1),): Fraction(1)})

    def __add__(self, o):
        r = dict(self.t)
        for k, v in o.t.items():
            r[k] = r.get(k, 0) + v
        return P(r)

    def __neg__(self):
        return P({k: -v for k, v in self.t.items()})

    def __sub__(self, o):
        return self + (-o)

    def __mul__(self, o):
        r = {}
        for k1, v1 in self.t.items():
            d1 = dict(k1)
            for k2, v2 in o.t.items():
                d = dict(d1)
                for n, e in k2:
                    d[n] = d.get(n, 0) + e
                k = tuple(sorted(d.items()))
                r[k] = r.get(k, 0) + v1 * v2
        return P(r)

    def __eq__(self, o):
        return self.t == o.t

    def is_zero(self):
        return not self.t

    def __len__(self):
        return len(self.t)


class Q:
    """num / den"""

    __slots__ = ("n", "d")

    def __init__(self, n, d=None):
        self.n, self.d = n, d if d is not None else P.const(1)

    def __add__(self, o):
        if self.d == o.d:
            return Q(self.n + o.n, self.d)
        return Q(self.n * o.d + o.n * self.d, self.d * o.d)

    def __sub__(self, o):
        return self + Q(-o.n, o.d)

    def __neg__(self):
        return Q(-self.n, self.d)

    def __mul__(self, o):
        return Q(self.n * o.n, self.d * o.d)

    def __truediv__(self, o):
        return Q(self.n * o.d, self.d * o.n)

    def same(self, o):
        return (self.n * o.d - o.n * self.d).is_zero()


def from_z3(t, cache=None):
    """z3 real term built from + - * / numerals and constants -> Q ; raises ValueError on anything else"""
    cache = {} if cache is None else cache
    k = t.get_id()
    if k in cache:
        return cache[k]
    if z3.is_rational_value(t):
        r = Q(P.const(Fraction(t.numerator_as_long(), t.denominator_as_long())))
    elif z3.is_int_value(t):
        r = Q(P.const(t.as_long()))
    elif z3.is_const(t) and t.decl().kind() == z3.Z3_OP_UNINTERPRETED:
        r = Q(P.var(t.decl().name()))
    else:
        kd, ch = t.decl().kind(), [from_z3(c, cache) for c in t.children()]
        if kd == z3.Z3_OP_ADD:
            r = ch[0]
            for c in ch[1:]:
                r = r + c
        elif kd == z3.Z3_OP_SUB:
            r = ch[0]
            for c in ch[1:]:
                r = r - c
        elif kd == z3.Z3_OP_UMINUS:
            r = -ch[0]
        elif kd == z3.Z3_OP_MUL:
            r = ch[0]
            for c in ch[1:]:
                r = r * c
        elif kd == z3.Z3_OP_DIV:
            r = ch[0] / ch[1]
        elif kd == z3.Z3_OP_TO_REAL:
            r = ch[0]
        else:
            raise ValueError(f"not a rational term: {t.decl()}")
    cache[k] = r
    return r
