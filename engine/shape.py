"""Arrays with SYMBOLIC SHAPES (structural index algebra) — the shim on which the real getBH_level2 / get_src_dict /
tile_group_property / getBH_level1 run for ALL path lengths and ALL pixel counts.

An array is   dims x cell :  `dims` is a list of NumPy dimensions, each a row-major composite of ATOMIC axes (Ax: a size that is a
polynomial over positive integer symbols, and a flag `rep` = "the element does not depend on this axis");  `cell` is a concrete
trailing shape ((3,) vectors, (4,) quaternions, property cells);  `elem(env)` maps an index per atomic axis to a z3 term of an
abstract sort (Vec / Rot / Prop).  tile / repeat / reshape / concatenate / stack / slicing / slice-assignment are STRUCTURAL
operations on the axis lists (no div/mod arithmetic): reshape regroups atomic axes whose sizes multiply to the requested sizes,
np.tile prepends a `rep` axis, np.repeat appends one, concatenation makes one atomic axis with a piecewise element function.
Whatever cannot be expressed structurally (e.g. a reshape that cuts through an atomic axis) raises Unsupported: the run is then
outside the verified subset (undecided), never a verdict.

Iteration over a leading axis of symbolic size yields ONE generic item that carries a pending iteration axis; a Python list that
holds such an item (the result of a list comprehension) is materialised into an array with that axis in front.
`all(...)` / `np.all(...)` over a symbolic axis introduces a batch-global Boolean g with  (g => body(i) for all i)  and a Skolem
witness for the negation, and forks on it.

The soundness-critical plumbing is cross-checked against real NumPy on every run (engine/shape_crosscheck.py).
"""
import itertools

import z3

from engine.idx import RID, VZERO, Rot, Vec, act, inv, vadd, vsub
from engine.symex import Ctx, SymBool, Unsupported

Prop = z3.DeclareSort("Prop")
flipx = z3.Function("flip_x", Vec, Vec)  # multiplication of the first component by -1 (left-handed sensor)
is_unitq = z3.Function("is_unit_quaternion", Rot, z3.BoolSort())  # all four components equal (0, 0, 0, 1)
AbsQ = z3.DeclareSort("AbsQuat")
absq = z3.Function("abs_components", Rot, AbsQ)
UNINIT = z3.Const("UNINITIALISED_np_empty", Vec)
_SORT = {"vec": Vec, "quat": Rot, "prop": Prop, "bool": z3.BoolSort()}
_ids = itertools.count()


def base_axioms():
    v, q = z3.Const("v_ax", Vec), z3.Const("q_ax", Rot)
    return [z3.ForAll([v], act(RID, v) == v), inv(RID) == RID, z3.ForAll([v], vadd(VZERO, v) == v), z3.ForAll([q], z3.Implies(is_unitq(q), q == RID))]


# ------------------------------------------------------------------------------------------------ sizes
class Poly:
    """polynomial over size symbols with integer coefficients: {monomial (sorted tuple of names): coefficient}"""

    __slots__ = ("t",)

    def __init__(self, t):
        self.t = {k: v for k, v in t.items() if v}

    @staticmethod
    def of(x):
        if isinstance(x, Poly):
            return x
        if isinstance(x, Sz):
            return x.p
        if isinstance(x, bool):
            raise Unsupported("bool as size")
        if isinstance(x, int):
            return Poly({(): x})
        try:
            import numpy as _np

            if isinstance(x, _np.integer):
                return Poly({(): int(x)})
        except ImportError:  # pragma: no cover
            pass
        raise Unsupported(f"not a size: {type(x).__name__}")

    @staticmethod
    def sym(name):
        return Poly({(name,): 1})

    def __add__(self, o):
        r = dict(self.t)
        for k, v in o.t.items():
            r[k] = r.get(k, 0) + v
        return Poly(r)

    def __neg__(self):
        return Poly({k: -v for k, v in self.t.items()})

    def __sub__(self, o):
        return self + (-o)

    def __mul__(self, o):
        r = {}
        for k1, v1 in self.t.items():
            for k2, v2 in o.t.items():
                k = tuple(sorted(k1 + k2))
                r[k] = r.get(k, 0) + v1 * v2
        return Poly(r)

    def __eq__(self, o):
        return isinstance(o, Poly) and self.t == o.t

    def __hash__(self):
        return hash(frozenset(self.t.items()))

    @property
    def is_const(self):
        return all(k == () for k in self.t)

    @property
    def value(self):
        return self.t.get((), 0)

    def div(self, o):
        """exact quotient or None"""
        if not o.t:
            return None
        if len(o.t) == 1:
            (mk, c), = o.t.items()
            r = {}
            for k, v in self.t.items():
                kk = list(k)
                for s in mk:
                    if s in kk:
                        kk.remove(s)
                    else:
                        return None
                if v % c:
                    return None
                r[tuple(kk)] = v // c
            return Poly(r)
        # several terms: try a single-term quotient from the leading monomials
        lead = lambda p: max(p.t.items(), key=lambda kv: (len(kv[0]), kv[0]))
        (k1, v1), (k2, v2) = lead(self), lead(o)
        q = Poly({k1: v1}).div(Poly({k2: v2}))
        if q is not None and q * o == self:
            return q
        # a sum divided by one of its factors: try every single-term candidate built from self's monomials
        for k, v in self.t.items():
            for kk, vv in o.t.items():
                q = Poly({k: v}).div(Poly({kk: vv}))
                if q is not None and q * o == self:
                    return q
        return None

    def z3(self):
        tot = z3.IntVal(0)
        terms = []
        for k, v in sorted(self.t.items()):
            t = z3.IntVal(v)
            for s in k:
                t = t * z3.Int(s)
            terms.append(t)
        return z3.simplify(z3.Sum(terms)) if terms else tot

    def __repr__(self):
        if not self.t:
            return "0"
        return " + ".join((f"{v}*" if v != 1 or not k else "") + "*".join(k) if k else str(v) for k, v in sorted(self.t.items()))


def mk(p):
    return p.value if p.is_const else Sz(p)


class Sz:
    """a symbolic size / integer (Python-facing); comparisons fork through the current context unless decided"""

    def __init__(self, p):
        self.p = p

    @property
    def t(self):
        return self.p.z3()

    def _o(self, o):
        try:
            return Poly.of(o)
        except Unsupported:
            return None

    def __add__(self, o):
        q = self._o(o)
        return NotImplemented if q is None else mk(self.p + q)

    __radd__ = __add__

    def __sub__(self, o):
        q = self._o(o)
        return NotImplemented if q is None else mk(self.p - q)

    def __rsub__(self, o):
        q = self._o(o)
        return NotImplemented if q is None else mk(q - self.p)

    def __mul__(self, o):
        q = self._o(o)
        return NotImplemented if q is None else mk(self.p * q)

    __rmul__ = __mul__

    def __neg__(self):
        return mk(-self.p)

    def _div(self, o):
        q = self._o(o)
        if q is None:
            return NotImplemented
        r = self.p.div(q)
        if r is None:
            raise Unsupported(f"size division not exact: ({self.p}) / ({q})")
        return mk(r)

    __truediv__ = _div
    __floordiv__ = _div

    def __rtruediv__(self, o):
        r = Poly.of(o).div(self.p)
        if r is None:
            raise Unsupported("size division not exact")
        return mk(r)

    def _cmp(self, o, f):
        q = self._o(o)
        if q is None:
            return None
        d = self.p - q
        if d.is_const:
            return _pycmp(f, d.value)
        return SymBool(f(self.p.z3(), q.z3()))

    def __eq__(self, o):
        r = self._cmp(o, lambda a, b: a == b)
        return False if r is None else r

    def __ne__(self, o):
        r = self._cmp(o, lambda a, b: a != b)
        return True if r is None else r

    def __lt__(self, o):
        r = self._cmp(o, lambda a, b: a < b)
        return NotImplemented if r is None else r

    def __le__(self, o):
        r = self._cmp(o, lambda a, b: a <= b)
        return NotImplemented if r is None else r

    def __gt__(self, o):
        r = self._cmp(o, lambda a, b: a > b)
        return NotImplemented if r is None else r

    def __ge__(self, o):
        r = self._cmp(o, lambda a, b: a >= b)
        return NotImplemented if r is None else r

    def __hash__(self):
        return 0x5A

    def __bool__(self):
        return Ctx.cur.branch(self.p.z3() != 0)

    def __index__(self):
        raise Unsupported("symbolic size used as a concrete index")

    def __int__(self):
        raise Unsupported("int() of a symbolic size outside a re-bound namespace")

    def __repr__(self):
        return f"Sz({self.p})"


def _pycmp(f, d):
    """f applied to (d, 0) for a concrete integer difference d"""
    r = z3.simplify(f(z3.IntVal(d), z3.IntVal(0)))
    return z3.is_true(r)


def size_eq(a, b):
    """are the two sizes equal on the current path? (structurally, else asked of the solver; never forks)"""
    a, b = Poly.of(a), Poly.of(b)
    if a == b:
        return True
    d = a - b
    if d.is_const:
        return d.value == 0
    ctx = Ctx.cur
    cache = ctx.__dict__.setdefault("_size_eq_cache", {})
    key = (a, b)
    hit = cache.get(key)
    if hit is not None and (hit[0] or hit[1] == len(ctx.pc)):
        return hit[0]
    sv = z3.Solver()
    sv.set("timeout", 3000)
    sv.add(*ctx.pc)  # sizes are linear integer facts: the quantified axioms are not needed
    sv.add(a.z3() != b.z3())
    r = sv.check() == z3.unsat
    cache[key] = (r, len(ctx.pc))
    return r


def concrete(t):
    """python int / bool if the z3 term is a literal, else None"""
    if z3.is_int_value(t):
        return t.as_long()
    if z3.is_true(t):
        return True
    if z3.is_false(t):
        return False
    return None


def zi(x):
    """index value -> z3 Int"""
    if z3.is_expr(x):
        return x
    return Poly.of(x).z3()


# ------------------------------------------------------------------------------------------------ arrays
class Ax:
    __slots__ = ("id", "size", "rep")

    def __init__(self, size, rep=False):
        self.id = next(_ids)
        self.size = Poly.of(size)
        self.rep = rep

    def __repr__(self):
        return f"{'rep' if self.rep else 'ax'}{self.id}[{self.size}]"


_ZERO = z3.IntVal(0)


def fz(a):
    """the element function of `a` as it is NOW (operations capture it at operation time, after the stale-view guard)"""
    a._check_fresh()
    return a._elem


def dim_size(dim):
    p = Poly({(): 1})
    for a in dim:
        p = p * a.size
    return p


def is_one(dim):
    return all(a.size.is_const and a.size.value == 1 for a in dim)


class SA:
    """symbolic-shape array (see module docstring); mutable like an ndarray (slice assignment replaces `elem`)"""

    def __init__(self, dims, cell, sort, elem, pending=(), cellrep=None, base=None):
        self.dims = [list(d) for d in dims]
        self.cell = tuple(cell)
        self.sort = sort
        self._elem = elem
        self.pending = list(pending)
        self.cellrep = cellrep  # np.tile(x, n) applied to the cell axis: only reshape((-1, width)) may follow
        self._ver = 0
        self._base = base  # (array this is a view of, its version at creation)

    # -- protocol
    def _check_fresh(self):
        b = self._base
        while b is not None:
            arr, ver = b
            if arr._ver != ver:
                raise Unsupported("a view is read after its base array was written (write-through is not modelled)")
            b = arr._base

    def elem(self, env):
        self._check_fresh()
        return self._elem(env)

    @property
    def ndim(self):
        return len(self.dims) + len(self.cell)

    @property
    def shape(self):
        if self.cellrep is not None:
            return tuple(mk(dim_size(d)) for d in self.dims) + self.cell[:-1] + (mk(Poly.of(self.cell[-1]) * self.cellrep),)
        return tuple(mk(dim_size(d)) for d in self.dims) + self.cell

    def slen(self):
        if not self.dims:
            if self.cell:
                return self.cell[0]
            raise TypeError("len() of unsized object")
        return mk(dim_size(self.dims[0]))

    def __len__(self):
        n = self.slen()
        if isinstance(n, int):
            return n
        raise Unsupported("len() of a symbolic axis outside a re-bound namespace")

    def atoms(self):
        return [a for d in self.dims for a in d]

    def snapshot(self):
        """an independent array with the present contents (np.array(x), x.copy(), arithmetic results)"""
        self._check_fresh()
        return SA(self.dims, self.cell, self.sort, self._elem, self.pending, self.cellrep)

    copy = snapshot

    def astype(self, *_a, **_k):
        return self.snapshot()

    # -- reshape ------------------------------------------------------------------------------------
    def reshape(self, *shape):
        if len(shape) == 1 and isinstance(shape[0], (tuple, list)):
            shape = tuple(shape[0])
        return _reshape(self, shape)

    # -- indexing -----------------------------------------------------------------------------------
    def _parse_key(self, key):
        if not isinstance(key, tuple):
            key = (key,)
        n_ell = sum(1 for k in key if k is Ellipsis)
        if n_ell > 1:
            raise Unsupported("two ellipses")
        nd = self.ndim
        if n_ell:
            i = key.index(Ellipsis)
            key = key[:i] + (slice(None),) * (nd - (len(key) - 1)) + key[i + 1:]
        key = key + (slice(None),) * (nd - len(key))
        if len(key) != nd:
            raise Unsupported("index rank")
        dkeys, ckeys = key[: len(self.dims)], key[len(self.dims):]
        return dkeys, ckeys

    def _select(self, dkeys):
        """-> (new dims, pairs [(old atom, fn(env)->index term)], conds fn(env_old)->list of z3 bools for membership)"""
        new_dims, maps, conds = [], [], []
        for dim, k in zip(self.dims, dkeys):
            if isinstance(k, slice) and k.start is None and k.stop is None and k.step is None:
                new_dims.append(dim)
                for a in dim:
                    maps.append((a, (lambda env, a=a: env[a.id])))
                continue
            if len(dim) != 1:
                raise Unsupported("partial index into a composite axis")
            a = dim[0]
            if isinstance(k, slice):
                if k.step not in (None, 1):
                    raise Unsupported("slice step")
                lo = Poly.of(0) if k.start is None else Poly.of(k.start)
                hi = a.size if k.stop is None else Poly.of(k.stop)
                if lo.is_const and lo.value < 0:
                    lo = a.size + lo
                if hi.is_const and hi.value < 0:
                    hi = a.size + hi
                Ctx.cur.oblige(z3.And(0 <= lo.z3(), lo.z3() <= hi.z3(), hi.z3() <= a.size.z3()), "slice within bounds")
                na = Ax(hi - lo, a.rep)
                new_dims.append([na])
                lz = lo.z3()
                maps.append((a, (lambda env, na=na, lz=lz: env[na.id] + lz)))
                conds.append(lambda env, a=a, lz=lz, hz=hi.z3(): z3.And(lz <= env[a.id], env[a.id] < hz))
            else:
                p = Poly.of(k)
                if p.is_const and p.value < 0:
                    p = a.size + p
                iz = p.z3()
                Ctx.cur.oblige(z3.And(0 <= iz, iz < a.size.z3()), "index within bounds")
                maps.append((a, (lambda env, iz=iz: iz)))
                conds.append(lambda env, a=a, iz=iz: env[a.id] == iz)
        return new_dims, maps, conds

    def __getitem__(self, key):
        if self.cellrep is not None:
            raise Unsupported("index into a cell-tiled array")
        dkeys, ckeys = self._parse_key(key)
        if any(not (isinstance(k, slice) and k == slice(None)) for k in ckeys):
            if len(self.cell) == 1 and isinstance(ckeys[0], int):
                return CompView(self, dkeys, ckeys[0])
            raise Unsupported("index into the cell")
        new_dims, maps, _ = self._select(dkeys)
        f0 = fz(self)

        def elem(env):
            return f0({a.id: f(env) for a, f in maps})

        return SA(new_dims, self.cell, self.sort, elem, self.pending, base=(self, self._ver))

    def __setitem__(self, key, value):
        if isinstance(value, CompView):
            if value.base is self:
                return  # result of an augmented assignment through the view: already written
            raise Unsupported("assignment of a component view")
        dkeys, ckeys = self._parse_key(key)
        if any(not (isinstance(k, slice) and k == slice(None)) for k in ckeys):
            raise Unsupported("assignment into the cell")
        new_dims, maps, conds = self._select(dkeys)
        value = as_sa(value)
        if value.cell != self.cell or value.sort != self.sort:
            raise Unsupported(f"assignment of cell {value.cell}/{value.sort} into {self.cell}/{self.sort}")
        pairs = _align_to(new_dims, value)
        vatoms = value.atoms() + list(value.pending)
        old = self._elem
        vel = fz(value)
        # express new-atom indices through old-atom indices
        new_from_old = {}
        for dim, k, nd in _zip_kept(self.dims, dkeys, new_dims):
            if isinstance(k, slice) and k.start is None and k.stop is None and k.step is None:
                for a in dim:
                    new_from_old[a.id] = (lambda env, a=a: env[a.id])
            else:
                lo = Poly.of(0) if k.start is None else Poly.of(k.start)
                if lo.is_const and lo.value < 0:
                    lo = dim[0].size + lo
                new_from_old[nd[0].id] = (lambda env, a=dim[0], lz=lo.z3(): env[a.id] - lz)

        def elem(env):
            c = [z3.simplify(f(env)) for f in conds]
            if any(z3.is_false(x) for x in c):
                return old(env)
            c = [x for x in c if not z3.is_true(x)]
            venv = {va.id: new_from_old[ta.id](env) for va, ta in pairs}
            for t_ in vatoms:
                venv.setdefault(t_.id, _ZERO)  # size-1 / repetition axes of the value
            newv = vel(venv)
            return z3.If(z3.And(*c), newv, old(env)) if c else newv

        self._elem = elem
        self._ver += 1
        self.pending = _merge_pending(self.pending, value.pending)

    def __iter__(self):
        if not self.dims:
            raise Unsupported("iteration over a cell")
        d0 = self.dims[0]
        n = dim_size(d0)
        if n.is_const:
            for j in range(n.value):
                yield self[j]
            return
        if len(d0) != 1:
            raise Unsupported("iteration over a composite axis")
        yield _generic_item(self, Ax(n))

    # -- arithmetic ---------------------------------------------------------------------------------
    def _bin(self, o, f, sort=None):
        o = as_sa(o)
        return elementwise(f, self, o, sort or self.sort)

    def __add__(self, o):
        return self._bin(o, vadd)

    def __radd__(self, o):
        return as_sa(o)._bin(self, vadd)

    def __sub__(self, o):
        return self._bin(o, vsub)

    def __rsub__(self, o):
        return as_sa(o)._bin(self, vsub)

    def __eq__(self, o):
        o = as_sa(o)
        if self.sort == "absq" and o.sort == "absq":
            return elementwise(lambda a, b: a == b, self, o, "bool", cell=(4,))
        if self.sort == "quat" and o.sort == "quat":
            if getattr(o, "is_unit_const", False):
                return elementwise(lambda a, b: is_unitq(a), self, o, "bool", cell=(4,))
            return elementwise(lambda a, b: a == b, self, o, "bool", cell=(4,))
        raise Unsupported("== on arrays other than quaternions")

    __hash__ = None

    def __abs__(self):
        return NPS.abs(self)

    def __bool__(self):
        raise Unsupported("truth value of an array")

    def __repr__(self):
        return f"SA(dims={self.dims}, cell={self.cell}, {self.sort}, pending={self.pending})"


def _zip_kept(dims, dkeys, new_dims):
    it = iter(new_dims)
    for dim, k in zip(dims, dkeys):
        if isinstance(k, slice):
            yield dim, k, next(it)


def _merge_pending(a, b):
    out = list(a)
    for x in b:
        if all(x is not y for y in out):
            out.append(x)
    return out


def _generic_item(arr, ax):
    """the item of an iteration over the leading (single-atom) axis of symbolic size: generic in the pending axis `ax`"""
    a0 = arr.dims[0][0]
    f0 = fz(arr)

    def elem(env):
        e = dict(env)
        e[a0.id] = env[ax.id]
        return f0(e)

    return SA(arr.dims[1:], arr.cell, arr.sort, elem, _merge_pending(arr.pending, [ax]))


class CompView:
    """B[..., slice, c]: one component of the cells in a region; only `*= -1` on component 0 is in the vocabulary"""

    def __init__(self, base, dkeys, comp):
        self.base, self.dkeys, self.comp = base, dkeys, comp

    def __imul__(self, o):
        if o != -1 or self.comp != 0 or self.base.sort != "vec":
            raise Unsupported("component update other than x *= -1")
        b = self.base
        _, _, conds = b._select(self.dkeys)
        old = b._elem

        def elem(env):
            c = [z3.simplify(f(env)) for f in conds]
            if any(z3.is_false(x) for x in c):
                return old(env)
            c = [x for x in c if not z3.is_true(x)]
            return z3.If(z3.And(*c), flipx(old(env)), old(env)) if c else flipx(old(env))

        b._elem = elem
        b._ver += 1
        return self


# ------------------------------------------------------------------------------------------------ structural operations
def _reshape(a, shape):
    shape = list(shape)
    cell = a.cell
    atoms = a.atoms()
    # trailing part of the target must be the cell
    if a.cellrep is not None:
        w = cell[-1]
        if not (len(cell) == 1 and len(shape) == 2 and shape[0] == -1 and shape[1] == w):
            raise Unsupported("only reshape((-1, width)) may follow a tile of the cell axis")
        return SA([atoms + [Ax(a.cellrep, rep=True)]], cell, a.sort, a._elem, a.pending, base=a._base if a._base else None)
    nc = len(cell)
    if nc:
        tail = shape[-nc:]
        if len(tail) != nc or any(not (isinstance(t, int) and t == c) for t, c in zip(tail, cell)):
            raise Unsupported(f"reshape {shape} does not keep the cell {cell}")
        shape = shape[:-nc]
    # group atoms into the requested leading sizes
    left, right = [], []
    if any(isinstance(s, int) and s == -1 for s in shape):
        i = [k for k, s in enumerate(shape) if isinstance(s, int) and s == -1]
        if len(i) > 1:
            raise Unsupported("two -1 in reshape")
        i = i[0]
        lshape, rshape = shape[:i], shape[i + 1:]
    else:
        lshape, rshape, i = shape, [], None
    pool = list(atoms)
    extra_maps = []  # (old atom, fn(env)->term) for atoms that were split
    for s in lshape:
        grp, pool = _take(pool, Poly.of(s), extra_maps, from_left=True)
        left.append(grp)
    for s in reversed(rshape):
        grp, pool = _take(pool, Poly.of(s), extra_maps, from_left=False)
        right.insert(0, grp)
    if i is None:
        if pool and not all(size_eq(x.size, 1) for x in pool):
            raise Unsupported(f"reshape: sizes do not multiply up ({atoms} -> {shape}; left over {pool}, groups {left})")
        new_dims = left
        if pool and new_dims:
            new_dims[-1] = new_dims[-1] + pool
    else:
        new_dims = left + [pool] + right
    new_dims = [d if d else [Ax(1)] for d in new_dims]
    f0 = fz(a)
    if extra_maps:
        def elem(env):
            e = dict(env)
            for old_atom, f in extra_maps:
                e[old_atom.id] = f(env)
            return f0(e)
    else:
        elem = f0
    return SA(new_dims, cell, a.sort, elem, a.pending, base=(a, a._ver))


def _take(pool, want, extra_maps, from_left):
    """take atoms from one end of `pool` whose sizes multiply to `want`; split a rep atom / an atom of size c*X (c concrete) if needed"""
    grp = []
    have = Poly({(): 1})
    pool = list(pool)
    if size_eq(want, 1):
        # a requested axis of length 1 (on this path): take an existing size-1 atom if it is next, else a fresh one
        if pool:
            nxt = pool[0] if from_left else pool[-1]
            if size_eq(nxt.size, 1):
                pool = pool[1:] if from_left else pool[:-1]
                return [nxt], pool
        return [Ax(want)], pool
    while not size_eq(have, want):
        if not pool:
            raise Unsupported(f"reshape: cannot form an axis of size {want}")
        nxt = pool[0] if from_left else pool[-1]
        rest_needed = want.div(have)
        if rest_needed is None:
            raise Unsupported(f"reshape: {want} is not a multiple of {have}")
        if size_eq(nxt.size, rest_needed) or rest_needed.div(nxt.size) is not None:
            pool = pool[1:] if from_left else pool[:-1]
            grp = grp + [nxt] if from_left else [nxt] + grp
            have = have * nxt.size
            continue
        # the next atom is larger than what is needed: split it
        q = nxt.size.div(rest_needed)
        if q is None:
            raise Unsupported(f"reshape cuts through an axis: need {rest_needed} of {nxt}")
        a_need, a_rest = Ax(rest_needed, nxt.rep), Ax(q, nxt.rep)
        if not nxt.rep:
            # index of the old atom = outer * inner_size + inner ; only with a concrete outer size (If-chain, linear terms)
            outer, inner = (a_need, a_rest) if from_left else (a_rest, a_need)
            if not outer.size.is_const:
                raise Unsupported(f"reshape splits {nxt} with a symbolic outer factor")
            n_out, inner_z = outer.size.value, inner.size.z3()

            def f(env, outer=outer, inner=inner, n_out=n_out, inner_z=inner_z):
                sel = concrete(env[outer.id])
                if sel is not None and 0 <= sel < n_out:
                    return z3.simplify(sel * inner_z + env[inner.id])
                t = (n_out - 1) * inner_z + env[inner.id]
                for j in range(n_out - 2, -1, -1):
                    t = z3.If(env[outer.id] == j, j * inner_z + env[inner.id], t)
                return t

            extra_maps.append((nxt, f))
        if from_left:
            pool = [a_rest] + pool[1:]
            grp = grp + [a_need]
        else:
            pool = pool[:-1] + [a_rest]
            grp = [a_need] + grp
        have = have * rest_needed
    return grp, pool


def _pair_atoms(xs, ys):
    """pair two atom lists of one dimension: -> (result atoms, pairs_x [(x atom, result atom)], pairs_y)"""
    if not size_eq(dim_size(xs), dim_size(ys)):
        raise Unsupported(f"shapes do not match: {xs} vs {ys}")
    xs = [a for a in xs if not size_eq(a.size, 1)]  # axes of length 1 only have index 0
    ys = [b for b in ys if not size_eq(b.size, 1)]
    if all(a.rep for a in xs):
        return list(ys), [], [(b, b) for b in ys]
    if all(b.rep for b in ys):
        return list(xs), [(a, a) for a in xs], []
    res, px, py = [], [], []
    i = j = 0
    while i < len(xs) or j < len(ys):
        if i < len(xs) and j < len(ys) and size_eq(xs[i].size, ys[j].size):
            r = ys[j] if xs[i].rep and not ys[j].rep else xs[i]
            res.append(r)
            px.append((xs[i], r))
            py.append((ys[j], r))
            i += 1
            j += 1
            continue
        # a rep atom may stand for several atoms of the other side
        if i < len(xs) and xs[i].rep:
            k, acc = j, Poly({(): 1})
            while k < len(ys) and not size_eq(acc, xs[i].size):
                acc = acc * ys[k].size
                k += 1
            if size_eq(acc, xs[i].size):
                for b in ys[j:k]:
                    res.append(b)
                    py.append((b, b))
                i, j = i + 1, k
                continue
        if j < len(ys) and ys[j].rep:
            k, acc = i, Poly({(): 1})
            while k < len(xs) and not size_eq(acc, ys[j].size):
                acc = acc * xs[k].size
                k += 1
            if size_eq(acc, ys[j].size):
                for a in xs[i:k]:
                    res.append(a)
                    px.append((a, a))
                i, j = k, j + 1
                continue
        raise Unsupported(f"axes cannot be aligned structurally: {xs} vs {ys}")
    return res, px, py


def elementwise(f, a, b, sort, cell=None):
    if a.cellrep is not None or b.cellrep is not None:
        raise Unsupported("arithmetic on a cell-tiled array")
    if a.cell != b.cell and a.cell and b.cell:
        raise Unsupported(f"cells {a.cell} vs {b.cell}")
    da, db = list(a.dims), list(b.dims)
    n = max(len(da), len(db))
    da = [None] * (n - len(da)) + da
    db = [None] * (n - len(db)) + db
    dims, pa, pb = [], [], []
    for x, y in zip(da, db):
        if x is None or (y is not None and is_one(x) and not is_one(y)):
            dims.append(y)
            pb += [(t, t) for t in y]
        elif y is None or is_one(y):
            dims.append(x)
            pa += [(t, t) for t in x]
        else:
            r, px, py = _pair_atoms(x, y)
            dims.append(r)
            pa += px
            pb += py
    ae, be = fz(a), fz(b)
    zero = z3.IntVal(0)

    def elem(env):
        ea = {s.id: env[r.id] for s, r in pa}
        eb = {s.id: env[r.id] for s, r in pb}
        for t in a.atoms():
            ea.setdefault(t.id, zero)
        for t in b.atoms():
            eb.setdefault(t.id, zero)
        for p in a.pending:
            ea[p.id] = env[p.id]
        for p in b.pending:
            eb[p.id] = env[p.id]
        return f(ae(ea), be(eb))

    return SA(dims, cell if cell is not None else (a.cell or b.cell), sort, elem, _merge_pending(a.pending, b.pending))


def _align_to(target_dims, value):
    """pairs (value atom, target atom) for assigning `value` into a region with dims `target_dims` (NumPy broadcasting)"""
    dv = list(value.dims)
    if len(dv) > len(target_dims):
        extra, dv = dv[: len(dv) - len(target_dims)], dv[len(dv) - len(target_dims):]
        if not all(is_one(d) for d in extra):
            raise Unsupported("assignment: value has more dimensions than the target")
    dv = [None] * (len(target_dims) - len(dv)) + dv
    pairs = []
    for t, v in zip(target_dims, dv):
        if v is None or is_one(v):
            continue
        _, px, py = _pair_atoms(t, v)
        # px: (target atom, result atom), py: (value atom, result atom) ; result atoms are target or value atoms
        back = {r.id: s for s, r in px}
        for s, r in py:
            if r.id in back:
                pairs.append((s, back[r.id]))
            elif not s.rep:
                raise Unsupported("assignment: value axis has no counterpart in the target")
    return pairs


def as_sa(x):
    """NumPy's conversion of an argument to an array"""
    if isinstance(x, SA):
        return x
    if isinstance(x, CompView):
        raise Unsupported("component view as a value")
    if isinstance(x, (list, tuple)):
        items = list(x)
        if len(items) == 1 and isinstance(items[0], SA) and items[0].pending:
            it = items[0]
            ax = it.pending[-1]  # innermost iteration
            return SA([[ax]] + it.dims, it.cell, it.sort, fz(it), it.pending[:-1])
        if items and all(isinstance(i, (list, tuple, SA)) for i in items):
            return stack([as_sa(i) for i in items])
        if items and all(isinstance(i, (int, float)) and not isinstance(i, bool) for i in items):
            vals = tuple(float(i) for i in items)
            if len(vals) == 3 and vals == (0.0, 0.0, 0.0):
                return SA([], (3,), "vec", lambda env: VZERO)
            if len(vals) == 4 and vals == (0.0, 0.0, 0.0, 1.0):
                r = SA([], (4,), "quat", lambda env: RID)
                r.is_unit_const = True
                return r
            raise Unsupported(f"numeric constant {vals}")
        raise Unsupported("conversion of a mixed list")
    raise Unsupported(f"conversion of {type(x).__name__} to an array")


def stack(arrs):
    """np.array([a0, a1, ...]) of equally shaped arrays: a new leading axis of concrete size"""
    n = len(arrs)
    first = arrs[0]
    for o in arrs[1:]:
        if o.cell != first.cell or o.sort != first.sort or len(o.dims) != len(first.dims):
            raise Unsupported("stack of differently shaped arrays")
    res_dims = []
    for k, dx in enumerate(first.dims):
        for o in arrs[1:]:
            dy = o.dims[k]
            if len(dx) != len(dy) or not all(size_eq(p.size, q.size) for p, q in zip(dx, dy)):
                raise Unsupported(f"stack: axis structures differ ({dx} vs {dy})")
        res_dims.append([Ax(t.size, rep=all(o.dims[k][j].rep for o in arrs)) for j, t in enumerate(dx)])
    maps = [[(s_, r) for dx, dr in zip(o.dims, res_dims) for s_, r in zip(dx, dr)] for o in arrs]
    new = Ax(n)
    els = [fz(a) for a in arrs]

    def elem(env):
        t = None
        sel = concrete(env[new.id])
        for j in ([sel] if sel is not None and 0 <= sel < n else range(n - 1, -1, -1)):
            e = dict(env)
            for s_, r in maps[j]:
                e[s_.id] = env[r.id]
            v = els[j](e)
            t = v if t is None else z3.If(env[new.id] == j, v, t)
        return t

    pend = []
    for a in arrs:
        pend = _merge_pending(pend, a.pending)
    return SA([[new]] + res_dims, first.cell, first.sort, elem, pend)


def concatenate(arrs, axis=0):
    arrs = [as_sa(a) for a in arrs]
    first = arrs[0]
    nd = len(first.dims)
    if axis < 0:
        axis += first.ndim
    if axis >= nd:
        raise Unsupported("concatenate along the cell")
    if any(len(a.dims) != nd or a.cell != first.cell or a.sort != first.sort for a in arrs):
        raise Unsupported("concatenate of differently shaped arrays")
    offs, tot = [], Poly({(): 0})
    for a in arrs:
        if len(a.dims[axis]) != 1:
            raise Unsupported("concatenate along a composite axis")
        offs.append(tot)
        tot = tot + a.dims[axis][0].size
    cat = Ax(tot, rep=False)
    res_dims = []
    for k, dx in enumerate(first.dims):
        if k == axis:
            res_dims.append([cat])
            continue
        ref = next((a.dims[k] for a in arrs if not is_one(a.dims[k])), dx)
        for a in arrs:
            dy = a.dims[k]
            if is_one(dy) and not is_one(ref):
                raise Unsupported("concatenate: broadcasting is not NumPy semantics")
            if len(ref) != len(dy) or not all(size_eq(p.size, q.size) for p, q in zip(ref, dy)):
                raise Unsupported(f"concatenate: other axes differ ({ref} vs {dy})")
        res_dims.append([Ax(t.size, rep=all(a.dims[k][j].rep for a in arrs)) for j, t in enumerate(ref)])
    maps = [[(s_, r) for k, (dx, dr) in enumerate(zip(a.dims, res_dims)) if k != axis for s_, r in zip(dx, dr)] for a in arrs]
    els = [fz(a) for a in arrs]
    cat_atoms = [a.dims[axis][0] for a in arrs]
    offz = [o.z3() for o in offs]
    n = len(arrs)

    offc = [o.value if o.is_const else None for o in offs] + [tot.value if tot.is_const else None]

    def elem(env):
        t = None
        c = env[cat.id]
        cc = concrete(c)
        order = range(n - 1, -1, -1)
        if cc is not None and all(o is not None for o in offc):
            order = [j for j in range(n) if offc[j] <= cc < offc[j + 1]] or order
        for j in order:
            e = dict(env)
            for s_, r in maps[j]:
                e[s_.id] = env[r.id]
            e[cat_atoms[j].id] = c - offz[j]
            v = els[j](e)
            t = v if t is None else z3.If(c < offz[j + 1], v, t)
        return t

    pend = []
    for a in arrs:
        pend = _merge_pending(pend, a.pending)
    return SA(res_dims, first.cell, first.sort, elem, pend)


def tile(a, reps):
    a = as_sa(a)
    if not isinstance(reps, (tuple, list)):
        reps = (reps,)
    reps = list(reps)
    nd = a.ndim
    if len(reps) < nd:
        reps = [1] * (nd - len(reps)) + reps
    dims = [list(d) for d in a.dims]
    while len(reps) > len(dims) + len(a.cell):
        dims.insert(0, [Ax(1)])
    dreps, creps = reps[: len(dims)], reps[len(dims):]
    cellrep = None
    for k, r in enumerate(creps):
        if isinstance(r, int) and r == 1:
            continue
        if k == len(creps) - 1 and a.cellrep is None:
            cellrep = Poly.of(r)
        else:
            raise Unsupported("tile inside the cell")
    for k, r in enumerate(dreps):
        if isinstance(r, int) and r == 1:
            continue
        dims[k] = [Ax(r, rep=True)] + ([] if is_one(dims[k]) else dims[k])
    return SA(dims, a.cell, a.sort, fz(a), a.pending, cellrep=cellrep)


def repeat(a, n, axis=None):
    a = as_sa(a)
    if axis is None:
        raise Unsupported("repeat without axis")
    if axis < 0:
        axis += a.ndim
    if axis >= len(a.dims):
        raise Unsupported("repeat inside the cell")
    dims = [list(d) for d in a.dims]
    dims[axis] = dims[axis] + [Ax(n, rep=True)]
    return SA(dims, a.cell, a.sort, fz(a), a.pending)


def reduce_concrete(a, axis, f, keepdims=False):
    """reduction with a binary function over an axis of CONCRETE length (left-associated, in index order)"""
    a = as_sa(a)
    if axis < 0:
        axis += a.ndim
    if axis >= len(a.dims):
        raise Unsupported("reduction over the cell")
    d = a.dims[axis]
    n = dim_size(d)
    if not n.is_const or len(d) != 1:
        raise Unsupported("sum over an axis of symbolic length")
    at, ne, f0 = d[0], n.value, fz(a)

    def elem(env):
        t = None
        for j in range(ne):
            e = dict(env)
            e[at.id] = z3.IntVal(j)
            v = f0(e)
            t = v if t is None else f(t, v)
        return t

    dims = [list(x) for x in a.dims]
    if keepdims:
        dims[axis] = [Ax(1)]
    else:
        del dims[axis]
    return SA(dims, a.cell, a.sort, elem, a.pending)


def delete(a, sl, axis):
    a = as_sa(a)
    d = a.dims[axis]
    if len(d) != 1 or not d[0].size.is_const or not isinstance(sl, slice):
        raise Unsupported("np.delete pattern")
    n = d[0].size.value
    lo, hi, _ = sl.indices(n)
    keep = [j for j in range(n) if not lo <= j < hi]
    na, at, f0 = Ax(len(keep)), d[0], fz(a)

    def elem(env):
        e = dict(env)
        sel = concrete(env[na.id])
        if sel is not None and 0 <= sel < len(keep):
            t = z3.IntVal(keep[sel])
        else:
            t = z3.IntVal(keep[-1]) if keep else z3.IntVal(0)
            for j in range(len(keep) - 2, -1, -1):
                t = z3.If(env[na.id] == j, keep[j], t)
        e[at.id] = t
        return f0(e)

    dims = [list(x) for x in a.dims]
    dims[axis] = [na]
    return SA(dims, a.cell, a.sort, elem, a.pending)


def expand_dims(a, axis):
    a = as_sa(a)
    if axis < 0:
        axis += a.ndim + 1
    if axis > len(a.dims):
        raise Unsupported("expand_dims inside the cell")
    dims = [list(d) for d in a.dims]
    dims.insert(axis, [Ax(1)])
    return SA(dims, a.cell, a.sort, fz(a), a.pending, base=(a, a._ver))


def squeeze(a):
    a = as_sa(a)
    dims, gone = [], []
    for d in a.dims:
        n = mk(dim_size(d))
        if n == 1:  # forks when the size is symbolic
            gone += d
            continue
        dims.append(d)
    if any(c == 1 for c in a.cell):
        raise Unsupported("squeeze of a cell axis")
    f0 = fz(a)

    def elem(env):
        e = dict(env)
        for t in gone:
            e[t.id] = _ZERO
        return f0(e)

    return SA(dims, a.cell, a.sort, elem, a.pending, base=(a, a._ver))


# ------------------------------------------------------------------------------------------------ quantified Booleans
def forall_over(axes, body, what):
    """batch-global Boolean g for 'body holds at every index of `axes`': g => body(i) for all i; not g => not body(w) for a witness w"""
    ctx = Ctx.cur
    k = next(_ids)
    g = z3.Bool(f"all_{what}_{k}")
    ivs = [z3.Int(f"i{k}_{j}") for j in range(len(axes))]
    rng = [z3.And(0 <= v, v < a.size.z3()) for v, a in zip(ivs, axes)]
    env = {a.id: v for a, v in zip(axes, ivs)}
    ctx.axioms.append(z3.ForAll(ivs, z3.Implies(z3.And(g, *rng), body(env))))
    ws = [z3.Int(f"w{k}_{j}") for j in range(len(axes))]
    wenv = {a.id: v for a, v in zip(axes, ws)}
    ctx.axioms.append(z3.Implies(z3.Not(g), z3.And(*[z3.And(0 <= v, v < a.size.z3()) for v, a in zip(ws, axes)], z3.Not(body(wenv)))))
    return SymBool(g)


class GBool:
    """a Boolean that is generic in pending iteration axes"""

    def __init__(self, fn, pending):
        self.fn, self.pending = fn, list(pending)

    def __bool__(self):
        raise Unsupported("truth value of a generic Boolean")


def s_all(x):
    """builtin all() / np.all()"""
    if isinstance(x, SA):
        if x.sort != "bool":
            raise Unsupported("all() of a non-Boolean array")
        f0 = fz(x)
        axes = x.atoms()
        if axes:
            if x.pending:
                raise Unsupported("np.all over real and pending axes")
            return forall_over(axes, f0, "rows")
        if x.pending:
            return GBool(f0, x.pending)
        return SymBool(f0({}))
    items = list(x)
    if len(items) == 1 and isinstance(items[0], GBool):
        gb = items[0]
        ax = gb.pending[-1]
        rest = gb.pending[:-1]
        if rest:
            raise Unsupported("nested generic all()")
        return forall_over([ax], gb.fn, "items")
    out = True
    for it in items:
        if isinstance(it, GBool):
            raise Unsupported("generic Boolean among several items")
        if not it:
            out = False
            break
    return out


# ------------------------------------------------------------------------------------------------ rotations
class RotS:
    """scipy Rotation over symbolic-shape quaternion arrays (from_quat ∘ as_quat = identity: assumed contract, as in engine.idx)"""

    def __init__(self, q):
        self.q = q

    @staticmethod
    def from_quat(a):
        a = as_sa(a)
        if a.sort != "quat" or a.cell != (4,) or len(a.dims) > 1:
            raise Unsupported("from_quat of a non-quaternion array")
        return RotS(a.snapshot())

    def as_quat(self):
        return self.q.snapshot()

    @property
    def single(self):
        return not self.q.dims

    def slen(self):
        if self.single:
            raise TypeError("Single rotation has no len().")
        return self.q.slen()

    def __len__(self):
        n = self.slen()
        if isinstance(n, int):
            return n
        raise Unsupported("len() of a symbolic rotation path outside a re-bound namespace")

    def __getitem__(self, k):
        if self.single:
            raise TypeError("Single rotation is not subscriptable.")
        return RotS(self.q[k].snapshot())

    def __iter__(self):
        for it in self.q:
            yield RotS(it)

    def inv(self):
        src, f0 = self.q, fz(self.q)
        return RotS(SA(src.dims, src.cell, "quat", lambda env: inv(f0(env)), src.pending))

    def apply(self, v, inverse=False):
        v = as_sa(v)
        if v.sort != "vec":
            raise Unsupported("apply to a non-vector array")
        f = (lambda q, x: act(inv(q), x)) if inverse else (lambda q, x: act(q, x))
        # (N,) rotations act on (N,3) or (3,) vectors; a single rotation on any (P,3)
        return elementwise(lambda x, q: f(q, x), v, _as_cellless(self.q), "vec", cell=(3,))


def _as_cellless(q):
    """quaternion array viewed with the vector cell (rotation index axes only) for alignment with (N,3) arrays"""
    return SA(q.dims, (3,), "vec", fz(q), q.pending)


def s_zip(*its):
    """builtin zip: iterables that all have a leading axis of symbolic length share ONE generic iteration axis"""
    def sym_len(x):
        if isinstance(x, RotS) and not x.single:
            return x.q.dims[0]
        if isinstance(x, SA) and x.dims:
            return x.dims[0]
        return None

    ds = [sym_len(x) for x in its]
    if all(d is not None for d in ds) and any(not dim_size(d).is_const for d in ds):
        n = dim_size(ds[0])
        for d in ds[1:]:
            if not size_eq(dim_size(d), n):
                raise Unsupported("zip of paths whose lengths are not provably equal")
        if any(len(d) != 1 for d in ds):
            raise Unsupported("zip over a composite axis")
        ax = Ax(n)
        out = []
        for x in its:
            if isinstance(x, RotS):
                out.append(RotS(_generic_item(x.q, ax)))
            else:
                out.append(_generic_item(x, ax))
        return iter([tuple(out)])
    return zip(*its)


def s_len(x):
    if isinstance(x, (SA, RotS)):
        return x.slen()
    return len(x)


def s_int(x):
    if isinstance(x, Sz):
        return x
    return int(x)


def s_max(*a, **k):
    items = list(a[0]) if len(a) == 1 else list(a)
    m = items[0]
    for x in items[1:]:
        if x > m:
            m = x
    return m


class SzList(list):
    """np.cumsum result"""


# ------------------------------------------------------------------------------------------------ numpy namespace
class _S:
    def __getitem__(self, k):
        return k


class NPS:
    """the part of the NumPy namespace that the level-2 code uses; anything else is outside the vocabulary"""

    s_ = _S()
    ndarray = SA
    agg_calls = None  # set by the harness: list that records pixel aggregator calls

    def __getattr__(self, name):
        raise Unsupported(f"np.{name} is not in the vocabulary of the symbolic-shape shim")

    @staticmethod
    def array(x, dtype=None):
        if isinstance(x, SA):
            return x.snapshot()
        return as_sa(x)

    @staticmethod
    def asarray(x, dtype=None):
        if dtype == "object" and isinstance(x, (list, tuple)) and all(isinstance(i, SA) for i in x):
            # ragged per-source property: an object array of the property values
            objs = [SA([], (), "prop", fz(i), i.pending) for i in x]
            return stack(objs)
        return as_sa(x)

    @staticmethod
    def isscalar(x):
        return isinstance(x, (int, float)) and not isinstance(x, SA)

    @staticmethod
    def empty(shape, dtype=None):
        dims = [[Ax(s)] for s in shape[:-1]]
        if shape[-1] != 3:
            raise Unsupported("np.empty of non-vector cells")
        return SA(dims, (3,), "vec", lambda env: UNINIT)

    tile = staticmethod(tile)
    repeat = staticmethod(repeat)
    concatenate = staticmethod(concatenate)
    delete = staticmethod(delete)
    expand_dims = staticmethod(expand_dims)
    squeeze = staticmethod(squeeze)
    all = staticmethod(s_all)

    @staticmethod
    def reshape(a, shape):
        return as_sa(a).reshape(shape)

    @staticmethod
    def abs(a):
        """component-wise absolute value; on quaternions: an uninterpreted function (|q| = |q'| does NOT make the rotations equal)"""
        a = as_sa(a)
        if a.sort != "quat":
            raise Unsupported("np.abs of a non-quaternion array")
        f0 = fz(a)
        return SA(a.dims, a.cell, "absq", lambda env: absq(f0(env)), a.pending)

    fabs = absolute = abs

    @staticmethod
    def array_equal(a, b):
        a, b = as_sa(a), as_sa(b)
        if a.dims or b.dims or a.sort != b.sort or a.sort not in ("quat", "vec", "absq"):
            raise Unsupported("np.array_equal pattern")
        return SymBool(fz(a)({}) == fz(b)({}))

    @staticmethod
    def allclose(a, b, *_, **__):
        raise Unsupported("np.allclose (numerical closeness has no counterpart over the abstract sorts)")

    @staticmethod
    def sum(a, axis=None, keepdims=False):
        if axis is None:
            raise Unsupported("np.sum without axis")
        return reduce_concrete(a, axis, vadd, keepdims)

    @staticmethod
    def prod(x):
        p = Poly({(): 1})
        for i in x:
            p = p * Poly.of(i)
        return mk(p)

    @staticmethod
    def cumsum(x):
        out, tot = SzList(), Poly({(): 0})
        for i in x:
            tot = tot + Poly.of(i)
            out.append(mk(tot))
        return out

    @staticmethod
    def split(a, idx, axis=0):
        a = as_sa(a)
        bounds = [0] + list(idx) + [None]
        out = []
        for lo, hi in zip(bounds[:-1], bounds[1:]):
            key = [slice(None)] * axis + [slice(lo, hi)]
            out.append(a[tuple(key)])
        return out
