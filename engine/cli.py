"""./vv check <ID> [--tier quick|thorough] | ./vv replay <file> | ./vv all [--tier ..]"""
import argparse
import importlib
import json
import os
import subprocess
import sys
import warnings

from engine.report import run_check


def _watchdog(pid, seconds):
    """a check must terminate: native evaluations of library code are individually time-limited where non-termination is the property (C15); everywhere
    else a run that exceeds the overall limit (code under test that does not return) is reported as a crash of the run — exit 3, not a verdict"""
    import signal

    def fire(signum, frame):
        sys.stdout.write(f"CRASH in check {pid}: no result within {seconds} s (code under test does not terminate?) (exit 3: not a verdict)\n")
        sys.stdout.flush()
        try:
            os.killpg(os.getpgid(0), signal.SIGTERM)
        except Exception:  # pylint: disable=broad-except
            pass
        os._exit(3)

    if hasattr(signal, "SIGALRM") and seconds > 0:
        try:
            os.setpgid(0, 0)
        except Exception:  # pylint: disable=broad-except
            pass
        signal.signal(signal.SIGALRM, fire)
        signal.alarm(seconds)


def main(argv=None):
    ap = argparse.ArgumentParser(prog="vv")
    sub = ap.add_subparsers(dest="cmd", required=True)
    c = sub.add_parser("check")
    c.add_argument("pid")
    c.add_argument("--tier", default=os.environ.get("VERIF_TIER", "quick"), choices=["quick", "thorough"])
    r = sub.add_parser("replay")
    r.add_argument("path")
    a = sub.add_parser("all")
    a.add_argument("--tier", default="quick")
    st = sub.add_parser("selftest")
    st.add_argument("pids", nargs="*")
    st.add_argument("-k", action="append", default=[])
    args = ap.parse_args(argv)
    warnings.simplefilter("ignore")
    seed = int(os.environ.get("VERIF_SEED", "0") or 0)
    if args.cmd == "check":
        os.environ["VERIF_TIER"] = args.tier
        _watchdog(args.pid, int(os.environ.get("VERIF_CHECK_TIMEOUT_S", "1500" if args.tier == "quick" else "7200")))
        mod = importlib.import_module(f"checks.{args.pid.lower()}")
        return run_check(mod.main, args.pid, args.tier, seed)
    if args.cmd == "replay":
        with open(args.path, encoding="utf8") as f:
            p = json.load(f)
        print("property:", p.get("property"), "obligation:", p.get("obligation"))
        if p.get("script"):
            res = subprocess.run([sys.executable, "-c", p["script"]], check=False)
            print("replay exit code", res.returncode, "(1 = violation reproduced on the real code)")
            return res.returncode
        print("no failing input recorded; solver output:\n", p.get("solver_output"))
        return 0
    if args.cmd == "all":
        with open("MANIFEST.json", encoding="utf8") as f:
            man = json.load(f)
        rc = 0
        for chk in man["checks"]:
            cmd = chk["quick_cmd"] if args.tier == "quick" else chk.get("thorough_cmd", chk["quick_cmd"])
            print("==>", cmd, flush=True)
            r_ = subprocess.run(cmd, shell=True, check=False).returncode
            rc = max(rc, r_)
        return rc
    if args.cmd == "selftest":
        mod = importlib.import_module("engine.selftest")
        return mod.main(args.pids + ["-k" + x for x in args.k])
    return 3


if __name__ == "__main__":
    sys.exit(main())
