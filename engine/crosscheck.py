"""Model cross-check (part of every run that uses the row-generic shim): each shim primitive is exercised by small straight-line
programs that are run twice — on real NumPy with random concrete batches, and on the row-generic model with symbolic rows whose
terms are then evaluated for every concrete row — and the two results must agree.  This is what guards the soundness-critical
parts of the shim: broadcasting against the batch axis, boolean-mask compression / masked assignment, block layouts of
tile / repeat / reshape / concatenate, reductions, einsum, np.where, transposition.
"""
import math

import numpy as np
import z3

from engine.rowgen import G, NPG, sym_rows
from engine.symex import Ctx

_FUN = {"sqrt": lambda a: math.sqrt(a) if a >= 0 else float("nan"), "cos": math.cos, "sin": math.sin, "tan": math.tan, "arctan": math.atan,
        "log": lambda a: math.log(a) if a > 0 else float("nan"), "exp": math.exp, "arctan2": math.atan2}


def ev(t, env, cache):
    k = t.get_id()
    if k in cache:
        return cache[k]
    r = _ev(t, env, cache)
    cache[k] = r
    return r


def _ev(t, env, cache):
    if z3.is_rational_value(t):
        return t.numerator_as_long() / t.denominator_as_long()
    if z3.is_int_value(t):
        return t.as_long()
    if z3.is_true(t):
        return True
    if z3.is_false(t):
        return False
    kind = t.decl().kind()
    ch = t.children()
    name = t.decl().name()
    if z3.is_const(t) and kind == z3.Z3_OP_UNINTERPRETED:
        return env[name]
    a = [ev(c, env, cache) for c in ch] if kind != z3.Z3_OP_ITE else None
    if kind == z3.Z3_OP_ITE:
        return ev(ch[1], env, cache) if ev(ch[0], env, cache) else ev(ch[2], env, cache)
    if kind == z3.Z3_OP_ADD:
        return sum(a)
    if kind == z3.Z3_OP_SUB:
        r = a[0]
        for x in a[1:]:
            r -= x
        return r
    if kind == z3.Z3_OP_UMINUS:
        return -a[0]
    if kind == z3.Z3_OP_MUL:
        r = 1.0
        for x in a:
            r *= x
        return r
    if kind == z3.Z3_OP_DIV:
        return a[0] / a[1] if a[1] != 0 else float("nan")
    if kind == z3.Z3_OP_TO_REAL:
        return float(a[0])
    if kind == z3.Z3_OP_LT:
        return a[0] < a[1]
    if kind == z3.Z3_OP_LE:
        return a[0] <= a[1]
    if kind == z3.Z3_OP_GT:
        return a[0] > a[1]
    if kind == z3.Z3_OP_GE:
        return a[0] >= a[1]
    if kind == z3.Z3_OP_EQ:
        return _eq(a[0], a[1], env)
    if kind == z3.Z3_OP_DISTINCT:
        return not _eq(a[0], a[1], env)
    if kind == z3.Z3_OP_AND:
        return all(a)
    if kind == z3.Z3_OP_OR:
        return any(a)
    if kind == z3.Z3_OP_NOT:
        return not a[0]
    if kind == z3.Z3_OP_XOR:
        return bool(a[0]) != bool(a[1])
    if kind == z3.Z3_OP_IMPLIES:
        return (not a[0]) or a[1]
    if kind == z3.Z3_OP_UNINTERPRETED and name in _FUN:
        return _FUN[name](*a)
    raise NotImplementedError(f"evaluator: {t.decl()}")


def _eq(x, y, env):
    tol = env.get("__tol__")
    if tol and isinstance(x, float) and isinstance(y, float) and not isinstance(x, bool):
        return abs(x - y) <= tol * (abs(x) + abs(y)) or x == y  # mathematical identities (sqrt(x)^2 == x) under floating-point evaluation
    return x == y


def eval_g(g, rows):
    """concrete ndarray that the symbolic result g denotes for the concrete input batch `rows` (dict name -> ndarray (n, ...))"""
    n = len(next(iter(rows.values())))
    B = len(g.blocks)
    per_row = []
    for i in range(n):
        env = {}
        for nm, arr in rows.items():
            a = np.asarray(arr[i])
            if a.ndim == 0:
                env[nm] = float(a)
            else:
                for idx in np.ndindex(*a.shape):
                    env[nm + "".join("_%d" % j for j in idx)] = float(a[idx])
        cache = {}
        present = True if g.tag is None else bool(ev(g.tag, env, cache))
        vals = []
        for b in g.blocks:
            out = np.empty(b.shape, dtype=float) if b.dtype == object else None
            flat = [ev(t, env, cache) if z3.is_expr(t) else t for t in b.flat]
            vals.append(np.array([float(x) if not isinstance(x, bool) else float(x) for x in flat]).reshape(b.shape))
        per_row.append((present, vals))
    rows_out = []
    if B == 1 or g.layout == "inter":
        for present, vals in per_row:
            if present:
                rows_out += vals
    else:  # stack layout: block-major
        for bi in range(B):
            for present, vals in per_row:
                if present:
                    rows_out.append(vals[bi])
    arr = np.array(rows_out) if rows_out else np.zeros((0,) + g.tshape)
    return np.moveaxis(arr, 0, g.bax) if g.bax else arr


def programs():
    """(name, inputs {name: trailing shape}, program(np, **inputs))"""
    P = []
    add = lambda name, ins, f: P.append((name, ins, f))
    add("arith-broadcast", dict(a=(3,), b=(), c=(3,)), lambda np, a, b, c: ((a * 2 - c).T / (1 + b * b)).T + np.array([1.0, 2.0, 3.0]))
    add("transpose-unpack", dict(a=(3,)), lambda np, a: _unpack(np, a))
    add("col-times-matT", dict(a=(3,), b=()), lambda np, a, b: (a.T * b).T + a)
    add("abs-sign-sqrt", dict(a=(3,)), lambda np, a: np.sqrt(abs(a) + 1) * np.sign(a))
    add("masked-assign", dict(a=(3,), b=()), lambda np, a, b: _masked_assign(np, a, b))
    add("masked-iadd", dict(a=(3,), b=(3,)), lambda np, a, b: _masked_iadd(np, a, b))
    add("mask-column-assign", dict(a=(3,), b=()), lambda np, a, b: _mask_col(np, a, b))
    add("compress", dict(a=(3,), b=()), lambda np, a, b: a[b > 0] * 2)
    add("compress-nested", dict(a=(3,), b=()), lambda np, a, b: _nested(np, a, b))
    add("sum-axis", dict(a=(3,), b=(3,)), lambda np, a, b: np.sum(a * b, axis=1))
    add("sum-axis-2d", dict(a=(2, 3),), lambda np, a: np.sum(a, axis=1) - np.sum(a, axis=2)[:, :1] * 0 if False else np.sum(a, axis=1))
    add("all-any-axis", dict(a=(3,),), lambda np, a: (np.all(a > 0, axis=1) | np.any(a < -1, axis=1)).astype(float))
    add("tile-stack", dict(a=(3,), b=(3,)), lambda np, a, b: np.tile(a, (2, 1)) + np.concatenate((b, a), axis=0))
    add("repeat-reshape-sum", dict(m=(2, 3, 3), a=(3,)), lambda np, m, a: _repeat_reshape(np, m, a))
    add("fancy-trailing", dict(v=(4, 3),), lambda np, v: v[:, (0, 2, 1), :] - v[:, (1, 2, 0), :][:, :, ::-1] * 0 if False else v[:, (0, 2, 1), :])
    add("stack-cols-T", dict(a=(), b=(), c=()), lambda np, a, b, c: np.array([a, b * 2, c]).T)
    add("concatenate-cols", dict(a=(), b=()), lambda np, a, b: np.concatenate(((a,), (b,), (a + b,)), axis=0).T)
    add("c_", dict(a=(), b=()), lambda np, a, b: np.c_[2 * a, b])
    add("where", dict(a=(3,), b=()), lambda np, a, b: np.where(a > 0.2, a * 2, -1.0))
    add("einsum-ij", dict(a=(3,), b=(3,)), lambda np, a, b: np.einsum("ij, ij->i", a, b))
    add("swapaxes-einsum", dict(v=(3, 3), o=(3,)), lambda np, v, o: _swap_einsum(np, v, o))
    add("cross-norm", dict(a=(3,), b=(3,)), lambda np, a, b: np.linalg.norm(np.cross(a, b), axis=1))
    add("isclose-logical", dict(a=(), b=()), lambda np, a, b: (np.isclose(a, b, rtol=0.5, atol=0.1) & np.logical_or(a > 0, b > 0)).astype(float))
    add("pow-arctan2", dict(a=(), b=()), lambda np, a, b: np.arctan2(a, b) + abs(a) ** 1.5 + b**3)
    add("zeros-like-ones", dict(a=(3,),), lambda np, a: np.zeros_like(a, dtype=float) + np.ones((a.shape[0], 3)) * a)
    add("masked-assign-on-block-array", dict(a=(3,), b=(3,)), lambda np, a, b: _masked_blocks(np, a, b))
    add("expand-dims", dict(a=(3,),), lambda np, a: a / np.expand_dims(np.linalg.norm(a, axis=-1), axis=-1))
    return P


def _unpack(np, a):
    x, y, z = a.T
    return x * y - z


def _masked_assign(np, a, b):
    out = a.astype(float)
    out[b > 0] = 7.0
    m = b < -0.5
    out[m] = (a * 3)[m]
    return out


def _masked_iadd(np, a, b):
    out = a * 1.0
    m = b[:, 0] > 0
    out[m] += b[m]
    out[~m] *= 0
    return out


def _mask_col(np, a, b):
    out = a * 1.0
    m = b > 0
    out[m, 2] = (b * 5)[m]
    out[:, 0], out[:, 1] = out[:, 1] * 2, out[:, 0] + 0.0
    return out


def _masked_blocks(np, a, b):
    t = np.concatenate((a, b * 2, a + b), axis=0)
    m = np.all(t[:, :2] > 0, axis=1)
    t[m] = 0
    t[~m] = 5.0
    return t * 2 + np.concatenate((b, a, a), axis=0)


def _nested(np, a, b):
    m1 = b > -0.3
    x = a[m1]
    m2 = x[:, 0] > 0
    return x[m2] + 1


def _repeat_reshape(np, m, a):
    n0, n1 = m.shape[0], m.shape[1]
    vt = m.reshape(-1, 3, 3)
    at = np.repeat(a, n1, axis=0)
    r = vt[:, 0, :] * at + vt[:, 2, :]
    r = r.reshape((n0, n1, 3))
    return np.sum(r, axis=1)


def _swap_einsum(np, v, o):
    R = np.swapaxes(v, 0, 1) - o
    L = np.swapaxes(v[:, (1, 2, 0)] - v[:, (0, 1, 2)], 0, 1)
    b = np.einsum("ijk, ijk->ij", R, L)
    return np.einsum("ij, ijk -> jk", b, L)


def run(seed=0, trials=6):
    """returns (evaluations, list of disagreement messages)"""
    rng = np.random.default_rng(seed)
    bad, n = [], 0
    for name, ins, prog in programs():
        Ctx.cur = Ctx()
        try:
            sargs = {k: sym_rows(k, sh) for k, sh in ins.items()}
            g = prog(NPG, **sargs)
        except Exception as e:  # pylint: disable=broad-except
            bad.append(f"{name}: the model raised {type(e).__name__}: {e}")
            continue
        for t in range(trials):
            nrows = int(rng.integers(1, 5))
            rows = {k: np.round(rng.normal(size=(nrows,) + sh), 3) for k, sh in ins.items()}
            n += 1
            ref = prog(np, **{k: v.copy() for k, v in rows.items()})
            got = eval_g(g, rows) if isinstance(g, G) else np.asarray(g)
            ref = np.asarray(ref, dtype=float)
            if got.shape != ref.shape or not np.allclose(got, ref, rtol=1e-9, atol=1e-12, equal_nan=True):
                bad.append(f"{name}: model {got.shape} != NumPy {ref.shape} for a batch of {nrows} rows")
                break
    Ctx.cur = None
    return n, bad


def attach(rep, seed=0):
    """run the cross-check as part of a check: evidence entry; a disagreement means the engine is unsound -> crash (exit 3), not a verdict"""
    n, bad = run(seed)
    rep.extra["shim_model_crosscheck"] = {"programs": len(programs()), "evaluations": n, "disagreements": len(bad),
                                           "what": "every row-generic shim primitive run on real NumPy and on the model with random batches; results must agree"}
    if bad:
        raise RuntimeError("row-generic shim disagrees with NumPy: " + "; ".join(bad[:3]))
