"""Re-instantiate the *real* code objects of /repo over a shim namespace.

Nothing is parsed or transcribed: `types.FunctionType(f.__code__, ns, ...)` gives
the same bytecode with different global bindings.  What is dropped is exactly the
binding of the names given in `overrides`.
"""
import hashlib
import inspect
import types


def code_hash(fn):
    co = fn.__code__ if hasattr(fn, "__code__") else fn
    h = hashlib.sha256()

    def feed(c):
        h.update(c.co_code)
        for k in c.co_consts:
            if isinstance(k, types.CodeType):
                feed(k)
            else:
                h.update(repr(k).encode())
        h.update(repr(c.co_names).encode())

    feed(co)
    return h.hexdigest()[:16]


def _refunc(v, ns):
    f = types.FunctionType(v.__code__, ns, v.__name__, v.__defaults__, v.__closure__)
    f.__kwdefaults__ = v.__kwdefaults__
    f.__qualname__ = v.__qualname__
    f.__real__ = v
    return f


def rebind(module, overrides):
    """copy of module namespace in which every function defined in that module is
    re-created from its own code object over the copy, then `overrides` applied"""
    ns = dict(module.__dict__)
    for k, v in list(ns.items()):
        if isinstance(v, types.FunctionType) and v.__module__ == module.__name__:
            ns[k] = _refunc(v, ns)
    ns.update(overrides)
    return ns


def rebind_class(cls, ns, names=None, base=object, extra=None):
    """a fresh class whose methods/properties are the real code objects of `cls`
    (only those defined on cls itself) re-bound over namespace `ns`"""
    d = {}
    for k, v in cls.__dict__.items():
        if names is not None and k not in names:
            continue
        if isinstance(v, types.FunctionType):
            d[k] = _refunc(v, ns)
        elif isinstance(v, property):
            d[k] = property(
                _refunc(v.fget, ns) if v.fget else None,
                _refunc(v.fset, ns) if v.fset else None,
                _refunc(v.fdel, ns) if v.fdel else None,
            )
        elif isinstance(v, staticmethod):
            d[k] = staticmethod(_refunc(v.__func__, ns))
    d.update(extra or {})
    bases = base if isinstance(base, tuple) else (base,)
    return type(cls.__name__ + "_rebound", bases, d)


def describe(fn):
    """for the evidence: module:qualname, file:line, hash of the code object verified"""
    real = getattr(fn, "__real__", fn)
    if isinstance(real, property):
        real = real.fset or real.fget
    try:
        src = inspect.getsourcefile(real)
        line = real.__code__.co_firstlineno
    except TypeError:
        src, line = "?", 0
    return {
        "function": f"{real.__module__}:{real.__qualname__}",
        "where": f"{src}:{line}",
        "code_sha256_16": code_hash(real),
    }
