"""Mutation self-test: property-breaking edits applied, one at a time, to a scratch copy of
/repo/magpylib (outside /repo and /verif), each must turn the named check red (exit 1).
The copy is deleted after each mutant.   ./vv selftest [PID ...] [-k substr]
"""
import os
import shutil
import subprocess
import sys
import tempfile
import time

HERE = os.path.dirname(os.path.dirname(os.path.abspath(__file__)))
BT = "magpylib/_src/obj_classes/class_BaseTransform.py"
BG = "magpylib/_src/obj_classes/class_BaseGeo.py"

# (property, name, file, old, new, expect)   expect: "red" | "equivalent" (must stay green)
FD = "magpylib/_src/fields/"
FWB = FD + "field_wrap_BH.py"
OC = "magpylib/_src/obj_classes/"
IC_ = "magpylib/_src/input_checks.py"
CO_ = "magpylib/_src/obj_classes/class_Collection.py"
ST_ = "magpylib/_src/style.py"
TU_ = "magpylib/_src/display/traces_utility.py"
TMF = FD + "field_BH_triangularmesh.py"
MUTANTS = [
    ("C15", "zero-area-triangle-nan-again", FD + "field_BH_triangle.py", "    BHJM[mask_zero_area] = 0\n", "    pass\n", "red"),
    ("C15", "zero-volume-tetrahedron-inverted-again", FD + "field_BH_tetrahedron.py", "    mask_vol = np.linalg.det(mat) != 0", "    mask_vol = np.linalg.det(mat) == np.linalg.det(mat)", "red"),
    ("C17", "zero-volume-tetrahedron-linalgerror-again", FD + "field_BH_tetrahedron.py", "    mask_vol = np.linalg.det(mat) != 0", "    mask_vol = np.linalg.det(mat) == np.linalg.det(mat)", "red"),
    ("C02", "tetrahedron-interior-test-ignores-one-face", FD + "field_BH_tetrahedron.py", "            & (np.sum(newp, axis=1) <= 1)\n", "", "red"),
    ("C02", "tetrahedron-interior-lower-bound-shifted", FD + "field_BH_tetrahedron.py", "            np.all(newp >= 0, axis=1)\n", "            np.all(newp >= 1e-3, axis=1)\n", "red"),
    ("C02", "tetrahedron-interior-origin-vertex-1", FD + "field_BH_tetrahedron.py", "        rel_pos = (points - vertices[:, 0, :])[mask_vol]", "        rel_pos = (points - vertices[:, 1, :])[mask_vol]", "red"),
    ("C02", "tetrahedron-interior-comparisons-reordered(property-preserving)", FD + "field_BH_tetrahedron.py", "            np.all(newp >= 0, axis=1)\n            & np.all(newp <= 1, axis=1)\n", "            np.all(newp <= 1, axis=1)\n            & np.all(newp >= 0, axis=1)\n", "equivalent"),
    ("C02", "tetrahedron-degenerate-rows-inside", FD + "field_BH_tetrahedron.py", "    inside = np.zeros(len(points), dtype=bool)", "    inside = np.ones(len(points), dtype=bool)", "red"),
    ("C15", "triangle-zero-area-mask-rewritten(property-preserving)", FD + "field_BH_triangle.py", "    mask_zero_area = np.all(np.cross(side1, side2) == 0, axis=-1)", "    mask_zero_area = ~np.any(np.cross(side1, side2) != 0, axis=-1)", "equivalent"),
    ("C12", "triangle-zero-area-mask-rewritten(property-preserving)", FD + "field_BH_triangle.py", "    mask_zero_area = np.all(np.cross(side1, side2) == 0, axis=-1)", "    mask_zero_area = ~np.any(np.cross(side1, side2) != 0, axis=-1)", "equivalent"),
    ("C02", "triangle-zero-area-mask-rewritten(property-preserving)", FD + "field_BH_triangle.py", "    mask_zero_area = np.all(np.cross(side1, side2) == 0, axis=-1)", "    mask_zero_area = ~np.any(np.cross(side1, side2) != 0, axis=-1)", "equivalent"),
    ("C02", "tetrahedron-volume-guard-rewritten(property-preserving)", FD + "field_BH_tetrahedron.py", "    mask_vol = np.linalg.det(mat) != 0", "    mask_vol = ~(np.linalg.det(mat) == 0)", "equivalent"),
    ("C15", "triangle-zero-area-mask-on-first-side-only", FD + "field_BH_triangle.py", "    mask_zero_area = np.all(np.cross(side1, side2) == 0, axis=-1)", "    mask_zero_area = np.all(side1 == 0, axis=-1)", "red"),
    ("C12", "triangle-zero-area-mask-with-tolerance", FD + "field_BH_triangle.py", "    mask_zero_area = np.all(np.cross(side1, side2) == 0, axis=-1)", "    mask_zero_area = np.all(np.isclose(np.cross(side1, side2), 0), axis=-1)", "red"),
    ("C09", "empty-position-accepted-again", IC_, "        if inp.size == 0:\n            raise MagpylibBadUserInput(", "        if False:\n            raise MagpylibBadUserInput(", "red"),
    ("C09", "empty-orientation-accepted-again", IC_, "        if np.size(inpQ) == 0:", "        if False:", "red"),
    ("C19", "frame-index-clamp-off-by-one", TU_, "    inds[inds >= path_len] = path_len - 1", "    inds[inds >= path_len - 1] = path_len - 2", "red"),
    ("C06", "cylinder-core-general-case-only-if-all-rows", FD + "field_BH_cylinder.py", "    if np.any(mask_general):\n        rp = r + 1", "    if np.all(mask_general):\n        rp = r + 1", "red"),
    ("C05", "circle-core-quadratic-in-current", FD + "field_BH_circle.py", "    pf = k / np.sqrt(r) / q2 / 20 / r0 * 1e-6 * i0", "    pf = k / np.sqrt(r) / q2 / 20 / r0 * 1e-6 * i0 * abs(i0)", "red"),
    ("C12", "circle-core-absolute-offset", FD + "field_BH_circle.py", "    x0 = z2 + (r + 1) ** 2", "    x0 = z2 + (r + 1) ** 2 + 1e-30 * r0", "red"),
    ("C12", "polyline-core-absolute-online-tolerance", FD + "field_BH_polyline.py", "    mask1 = norm_o4 < 1e-15  # account for numerical issues", "    mask1 = norm_o4 * norm_12 < 1e-15  # account for numerical issues", "red"),
    ("C05", "polyline-core-quadratic-in-current", FD + "field_BH_polyline.py", "    return (deltaSin / norm_o4 * eB.T / norm_12 * currents / (4 * np.pi)).T", "    return (deltaSin / norm_o4 * eB.T / norm_12 * currents * abs(currents) / (4 * np.pi)).T", "red"),
    ("C08", "reset-moved-into-a-local-helper(property-preserving)", FWB,
     "        for obj, m0 in zip(reset_obj, reset_obj_m0):\n            obj._position = obj._position[:m0]\n            obj._orientation = obj._orientation[:m0]\n",
     "        def _reset_paths(objs, m0s):\n            for obj, m0 in zip(objs, m0s):\n                obj._position = obj._position[:m0]\n                obj._orientation = obj._orientation[:m0]\n\n        _reset_paths(reset_obj, reset_obj_m0)\n", "equivalent"),
    ("C07", "dataframe-index-order-sensor-before-path", FWB, "            data=product(src_ids, range(max_path_len), sens_ids, range(num_of_pixels)),", "            data=product(src_ids, sens_ids, range(max_path_len), range(num_of_pixels)),", "red"),
    ("C15", "circle-wire-test-exact-z", FD + "field_BH_circle.py", "    mask2 = np.logical_and(abs(r - r0) < 1e-15 * r0, abs(z) < 1e-15 * r0)", "    mask2 = np.logical_and(abs(r - r0) < 1e-15 * r0, z == 0)", "red"),
    ("C15", "cuboid-near-edge-guard-off", FD + "field_BH_cuboid.py", "        near = 1e-8  # relative size of w below which the difference loses all digits", "        near = 0.0", "red"),
    ("C19", "colour-slabs-deduplicated-colours", TU_, "    colors = [[v[1] for v in cs if v[0] == pos][-1] for pos in positions[:-1]]", "    colors = list(dict.fromkeys([v[1] for v in cs]))", "red"),
    ("C18", "style-class-correct-deepcopy-hook", "magpylib/_src/defaults/defaults_utility.py", "    def copy(self):",
     "    def __deepcopy__(self, memo):\n        import copy as _c\n\n        new = type(self).__new__(type(self))\n        memo[id(self)] = new\n        new.__dict__.update(_c.deepcopy(self.__dict__, memo))\n        return new\n\n    def copy(self):", "equivalent"),
    ("C18", "copy-keeps-parent-during-deepcopy", BG, "            self._parent = None\n            try:", "            try:", "red"),
    ("C18", "copy-kwargs-applied-to-original", BG, "                setattr(obj_copy, k, v)", "                setattr(self, k, v)", "red"),
    ("C18", "style-class-shares-on-deepcopy", "magpylib/_src/defaults/defaults_utility.py", "    def copy(self):", "    def __deepcopy__(self, memo):\n        return self\n\n    def copy(self):", "red"),
    ("C11", "copy-restores-parent-only-on-success", BG, "            try:\n                obj_copy = deepcopy(self)\n            finally:\n                self._parent = parent\n",
     "            obj_copy = deepcopy(self)\n            self._parent = parent\n", "red"),
    ("C04", "l2-sensor-rotation-forward", FWB, "Bpart_flat_rot = sens_orient.inv().apply(Bpart_flat)", "Bpart_flat_rot = sens_orient.apply(Bpart_flat)", "red"),
    ("C08", "l2-reset-forgets-orientation", FWB, "            obj._orientation = obj._orientation[:m0]\n", "            pass\n", "red"),
    ("C06", "l2-tile-first-pose", FWB, "tile_pos = np.tile(obj._position[-1], (m_tile, 1))", "tile_pos = np.tile(obj._position[0], (m_tile, 1))", "red"),
    ("C04", "l2-static-sensor-uses-last-entry", FWB, "                    sens_orient = sens._orientation[0]", "                    sens_orient = sens._orientation[-1]", "equivalent"),
    ("C03", "l1-translate-after-rotate", FWB, "pos_rel_rot = orientation.apply(observers - position, inverse=True)", "pos_rel_rot = orientation.apply(observers, inverse=True) - position", "red"),
    ("C05", "l2-sumup-drops-first-entry", FWB, "        B = np.sum(B, axis=0, keepdims=True)", "        B = np.sum(B[1:], axis=0, keepdims=True) if len(B) > 1 else B", "red"),
    ("C04", "l2-unrotated-test-first-entry-only", FWB, "all(all(r == unitQ) for r in sens._orientation.as_quat())", "all(sens._orientation.as_quat()[0] == unitQ)", "red"),
    ("C04", "l2-handedness-before-rotation", FWB, "            if sens.handedness == \"left\":\n                B[..., pix_slice, 0] *= -1", "            pass", "red"),
    ("C05", "collection-sum-range-short", FWB, "                    B[src_ind] = np.sum(B[src_ind : src_ind + col_len], axis=0)", "                    B[src_ind] = np.sum(B[src_ind : src_ind + col_len - 1], axis=0) if col_len > 1 else B[src_ind]", "red"),
    ("C05", "collection-delete-range-shifted", FWB, "                        B, np.s_[src_ind + 1 : src_ind + col_len], 0", "                        B, np.s_[src_ind + 1 : src_ind + col_len + 0], 0", "equivalent"),
    ("C05", "collection-delete-one-too-many", FWB, "                        B, np.s_[src_ind + 1 : src_ind + col_len], 0", "                        B, np.s_[src_ind + 1 : min(src_ind + col_len + 1, len(B))], 0", "red"),
    ("C07", "dict-mixed-lengths-tolerated", FWB, "    if len(set(vec_lengths.values())) > 1:", "    if len(set(vec_lengths.values())) > 2:", "red"),
    ("C07", "dict-length-one-not-squeezed", FWB, "            if len(val) == 1:\n                val = np.squeeze(val)\n            else:\n                vec_lengths[key] = len(val)", "            vec_lengths[key] = len(val)", "red"),
    ("C07", "dict-tile-count", FWB, "            kwargs[key] = np.tile(val, (vec_len, *[1] * (expected_dim - 1)))", "            kwargs[key] = np.tile(val, (max(vec_len - 1, 1), *[1] * (expected_dim - 1)))", "red"),
    ("C08", "cuboid-core-writes-observers", FD + "field_BH_cuboid.py", "    x, y, z = np.copy(observers).T", "    x, y, z = observers.T", "red"),
    ("C12", "cuboid-core-absolute-regulariser", FD + "field_BH_cuboid.py", "    mmm = np.sqrt(xma2 + ymb2 + zmc2)", "    mmm = np.sqrt(xma2 + ymb2 + zmc2 + 1e-30)", "red"),
    ("C05", "cuboid-core-quadratic-term", FD + "field_BH_cuboid.py", "    bz_pol_y = -pol_y * ff2x * qsigns[:, 1, 2]", "    bz_pol_y = -pol_y * abs(pol_y) * ff2x * qsigns[:, 1, 2]", "red"),
    ("C12", "dipole-core-softening", FD + "field_BH_dipole.py", "    r = np.sqrt(x**2 + y**2 + z**2)  # faster than np.linalg.norm", "    r = np.sqrt(x**2 + y**2 + z**2 + 1e-24)", "red"),
    ("C06", "triangle-core-batch-shortcut", FD + "field_BH_triangle.py", "    return np.where(abs(result) > 6.2831853, 0, result)", "    return np.where(abs(result) > 6.2831853, 0, result) if np.any(abs(result) > 1e-3) else result * 0", "red"),
    ("C16", "open-edges-only-boundary", TMF, "    return edges_uniq[edge_counts != 2]", "    return edges_uniq[edge_counts < 2]", "equivalent"),
    ("C16", "open-edges-third-edge-wrong", TMF, "[faces[:, 0:2], faces[:, 1:3], faces[:, ::2]]", "[faces[:, 0:2], faces[:, 1:3], faces[:, 0:2]]", "red"),
    ("C16", "subsets-single-pass", TMF, "        while len(first) > lf:\n            lf = len(first)", "        for _once in (0,):\n            lf = len(first)", "red"),
    ("C16", "subsets-need-two-shared-vertices", TMF, "                if len(first.intersection(set(r))) > 0:", "                if len(first.intersection(set(r))) > 1:", "equivalent"),
    ("C19", "translate-before-scale", TU_, "        new_vertices = (vertices * scale + position).T * length_factor", "        new_vertices = ((vertices + position) * scale).T * length_factor", "red"),
    ("C19", "unit-factor-not-on-position", TU_, "        new_vertices = (vertices * scale + position).T * length_factor", "        new_vertices = (vertices * scale * length_factor + position).T", "red"),
    ("C19", "style-temp-not-restored-on-error", "magpylib/_src/utility.py", "        yield\n    finally:\n        obj._style = orig_style", "        yield\n        obj._style = orig_style\n    finally:\n        pass", "red"),
    ("C19", "cuboid-model-half-size", "magpylib/_src/display/traces_base.py", "    dimension = np.array(dimension, dtype=float)\n    trace = {", "    dimension = np.array(dimension, dtype=float) * np.array([1, 1, 0.9])\n    trace = {", "red"),
    ("C19", "path-line-uses-first-orientation", "magpylib/_src/display/traces_utility.py", "def get_rot_pos_from_path(obj, show_path=None):", "def get_rot_pos_from_path(obj, show_path=None):\n    obj = obj", "equivalent"),
    ("C20", "defaults-override-object", ST_, "    style.update(**base_style_flat, _match_properties=False, _replace_None_only=True)", "    style.update(**base_style_flat, _match_properties=False, _replace_None_only=False)", "red"),
    ("C20", "get-style-mutates-object", ST_, "    style = obj.style.copy()", "    style = obj.style", "red"),
    ("C20", "family-None-overrides-base", ST_, "                {k: v for k, v in family_dict.items() if v is not None}", "                family_dict", "red"),
    ("C20", "show-kwargs-after-defaults", ST_, "    style.update(**style_kwargs_specific, _match_properties=True)\n    style.update(**base_style_flat, _match_properties=False, _replace_None_only=True)", "    style.update(**base_style_flat, _match_properties=False, _replace_None_only=True)\n    style.update(**style_kwargs_specific, _match_properties=True, _replace_None_only=True)", "red"),
    ("C18", "copy-shallow-when-no-parent", BG, "        else:\n            obj_copy = deepcopy(self)", "        else:\n            from copy import copy as _shallow\n            obj_copy = _shallow(self)", "red"),
    ("C18", "copy-parent-not-restored", BG, "            finally:\n                self._parent = parent", "            finally:\n                pass", "red"),
    ("C18", "copy-kwargs-on-original", BG, "                setattr(obj_copy, k, v)", "                setattr(self, k, v)", "red"),
    ("C18", "copy-keeps-parent", BG, "            parent = self._parent\n            self._parent = None\n            try:\n                obj_copy = deepcopy(self)\n            finally:\n                self._parent = parent", "            obj_copy = deepcopy(self)", "red"),
    ("C18", "copy-label-not-iterated", BG, "                label = add_iteration_suffix(label)", "                pass", "red"),
    ("C15", "circle-axis-zero-radius-unguarded", FD + "field_BH_circle.py", "        mask4 = mask3 * ~mask1  # only relevant if not also case1", "        mask4 = mask3", "red"),
    ("C15", "circle-general-case-includes-axis", FD + "field_BH_circle.py", "    mask5 = ~np.logical_or(np.logical_or(mask1, mask2), mask3)", "    mask5 = ~np.logical_or(mask1, mask2)", "red"),
    ("C15", "cuboid-zero-size-unguarded", FD + "field_BH_cuboid.py", "    mask_gen = mask_pol_not_null & mask_dim_not_null & mask_not_edge", "    mask_gen = mask_pol_not_null & mask_not_edge", "red"),
    ("C15", "sphere-outside-includes-surface-of-zero-sphere", FD + "field_BH_sphere.py", "    out = r > r_sphere", "    out = r >= r_sphere", "red"),
    ("C11", "add-commit-while-validating", CO_, "            if obj._parent is not None and not override_parent:\n                raise MagpylibBadUserInput(", "            if obj._parent is None:\n                obj._parent = self\n            if obj._parent is not self and not override_parent:\n                raise MagpylibBadUserInput(", "red"),
    ("C11", "children-setter-view-update-dropped", CO_, "        self._children = []\n        self._update_src_and_sens()\n", "        self._children = []\n", "red"),
    ("C11", "remove-forgets-parent-reset", CO_, "                rec_obj_remover(self, child)\n                child._parent = None\n", "                rec_obj_remover(self, child)\n", "red"),
    ("C11", "add-no-cycle-check-for-self", CO_, "                if obj is self or self in obj.collections_all:", "                if self in obj.collections_all:", "red"),
    ("C11", "add-duplicate-check-dropped", CO_, "            if any(obj is other for other in obj_list[:ind]):\n                raise MagpylibBadUserInput(f\"Cannot add {obj!r} more than once.\")\n", "", "red"),
    ("C11", "update-views-skips-collections", CO_, "            obj for obj in self._children if isinstance(obj, Collection)\n        ]", "            obj for obj in self._children if isinstance(obj, Collection) and obj._children\n        ]", "red"),
    ("C17", "shape-check-ignores-last-axis-with-length", IC_, "        if length is None or len(inp) == length:\n            if inp.shape[-1] == shape_m1:", "        if length is not None and len(inp) == length:\n            return None\n        if length is None:\n            if inp.shape[-1] == shape_m1:", "red"),
    ("C17", "cuboid-dimension-allows-zero", IC_, "        if np.any(inp <= 0):", "        if np.any(inp < 0):", "equivalent"),
    ("C17", "cuboid-dimension-allows-negative", IC_, "        if np.any(inp <= 0):", "        if np.any(inp == 0):", "red"),
    ("C17", "segment-allows-r1-gt-r2", IC_, "    case2 = r1 > r2\n", "    case2 = r1 > r2 + 1\n", "red"),
    ("C17", "vertices-min-count", IC_, "        if inp.shape[0] < 2:", "        if inp.shape[0] < 1:", "red"),
    ("C17", "scalar-negative-allowed", IC_, "        if inp < 0:\n            raise MagpylibBadUserInput(ERR_MSG)\n    return inp", "        if inp < -1:\n            raise MagpylibBadUserInput(ERR_MSG)\n    return inp", "red"),
    ("C17", "setter-assigns-before-validation", OC + "class_magnet_Cuboid.py", "        self._dimension = check_format_input_vector(\n            dim,", "        self._dimension = None\n        self._dimension = check_format_input_vector(\n            dim,", "red"),
    ("C17", "magnetization-none-regression", OC + "class_BaseExcitations.py", "        if self._magnetization is None:\n            self._polarization = None\n            return\n", "", "red"),
    ("C17", "pixel-last-axis-any", OC + "class_Sensor.py", "            dims=range(1, 20),\n            shape_m1=3,", '            dims=range(1, 20),\n            shape_m1="any",', "red"),
    ("C07", "triangle-table-regression", OC + "class_misc_Triangle.py", '{"polarization": 2, "vertices": 3}', '{"polarization": 2, "vertices": 2}', "red"),
    ("C07", "cuboid-table-dimension-1", OC + "class_magnet_Cuboid.py", '{"polarization": 2, "dimension": 2}', '{"polarization": 2, "dimension": 1}', "red"),
    ("C07", "source-getH-field-letter", OC + "class_BaseExcitations.py", '            field="H",\n            sumup=False,', '            field="B",\n            sumup=False,', "red"),
    ("C07", "sensor-getJ-drops-in_out", OC + "class_Sensor.py", '            field="J",\n            sumup=sumup,\n            squeeze=squeeze,\n            pixel_agg=pixel_agg,\n            output=output,\n            in_out=in_out,', '            field="J",\n            sumup=sumup,\n            squeeze=squeeze,\n            pixel_agg=pixel_agg,\n            output=output,\n            in_out="auto",', "red"),
    ("C07", "collection-role-swap", OC + "class_Collection.py", "            sources, sensors = inputs, self\n", "            sources, sensors = self, inputs\n", "red"),
    ("C07", "dict-tiling-squeeze-misuse", FD + "field_wrap_BH.py", "            kwargs[key] = np.tile(val, (vec_len, *[1] * (expected_dim - 1)))", "            kwargs[key] = np.tile(val, (vec_len, *[1] * (expected_dim - 1)))[::-1]", "equivalent"),
    ("C08", "reset-forgets-orientation", FWB, "            obj._position = obj._position[:m0]\n            obj._orientation = obj._orientation[:m0]\n", "            obj._position = obj._position[:m0]\n", "red"),
    ("C08", "reset-not-in-finally", FWB, "    finally:\n        # reset tiled objects", "    except MagpylibBadUserInput:\n        raise\n    else:\n        # reset tiled objects", "red"),
    ("C08", "reset-wrong-length", FWB, "            obj._position = obj._position[:m0]\n", "            obj._position = obj._position[: m0 + 1]\n", "red"),
    ("C08", "callee-writes-pose", FWB, "    poss = np.array([src._position for src in group])\n", "    poss = np.array([src._position for src in group])\n    group[0]._position = poss[0]\n", "equivalent"),  # writes the same values: the object is unchanged
    ("C08", "sphere-writes-polarization-argument", FD + "field_BH_sphere.py", "    BHJM = polarization.astype(float)\n    out = r > r_sphere", "    BHJM = polarization\n    out = r > r_sphere", "red"),
    ("C08", "dict-interface-no-copy", FWB, "                val = np.array(val, dtype=float)\n        except TypeError as err:", "                val = np.asarray(val, dtype=float)\n        except TypeError as err:", "red"),
    ("C08", "tile-orientation-first", FWB, "                tile_orient = np.tile(obj._orientation.as_quat()[-1], (m_tile, 1))", "                tile_orient = np.tile(obj._orientation.as_quat()[0], (m_tile, 1))", "equivalent"),
    ("C03", "level1-forward-rotation", FWB, "orientation.apply(observers - position, inverse=True)", "orientation.apply(observers - position)", "red"),
    ("C03", "level1-back-rotation-inverse", FWB, "        BH = orientation.apply(BH)", "        BH = orientation.apply(BH, inverse=True)", "red"),
    ("C06", "src-pose-tiling-order", FWB, "    posv = np.tile(poss, n_pix).reshape((-1, 3))", "    posv = np.repeat(poss, n_pix, axis=0).reshape((-1, 3))", "red"),
    ("C06", "tile-first-pose", FWB, "            tile_pos = np.tile(obj._position[-1], (m_tile, 1))", "            tile_pos = np.tile(obj._position[0], (m_tile, 1))", "red"),
    ("C06", "group-order-reversed", FWB, '            B[group["order"][gr_ind]] = B_group[gr_ind]', '            B[group["order"][-1 - gr_ind]] = B_group[gr_ind]', "red"),
    ("C06", "property-tiling-tile-not-repeat", FWB, "    return np.repeat(out, n_pp, axis=0)", "    return np.tile(out, (n_pp,) + (1,) * (np.ndim(out) - 1))", "red"),
    ("C04", "handedness-column", FWB, "            B[..., pix_slice, 0] *= -1", "            B[..., pix_slice, 1] *= -1", "red"),
    ("C04", "sensor-rot-forward", FWB, "            Bpart_flat_rot = sens_orient.inv().apply(Bpart_flat)", "            Bpart_flat_rot = sens_orient.apply(Bpart_flat)", "red"),
    ("C04", "sensor-repeat-count", FWB, "sens._orientation.as_quat(), pix_nums[sens_ind], axis=0", "sens._orientation.as_quat(), pix_nums[0], axis=0", "red"),
    ("C04", "pixel-agg-axis", FWB, "            B = pixel_agg_func(B, axis=tuple(range(3 - B.ndim, -1)))", "            B = pixel_agg_func(B, axis=tuple(range(4 - B.ndim, -1)))", "red"),
    ("C04", "pixel-position-before-rotation", FWB, "                    else r.apply(sens.pixel.reshape(-1, 3))\n                )\n                + p", "                    else r.apply(sens.pixel.reshape(-1, 3) + p) - p\n                )\n                + p", "red"),
    ("C05", "collection-sum-drops-first", FWB, "                B[src_ind] = np.sum(B[src_ind : src_ind + col_len], axis=0)", "                B[src_ind] = np.sum(B[src_ind + 1 : src_ind + col_len], axis=0) if col_len > 1 else B[src_ind]", "red"),
    ("C05", "sumup-mean", FWB, "        B = np.sum(B, axis=0, keepdims=True)", "        B = np.mean(B, axis=0, keepdims=True)", "red"),
    ("C05", "cuboid-null-mask-ignores-z", FD + "field_BH_cuboid.py", "        (pol_x == 0) * (pol_y == 0) * (pol_z == 0)\n    )  # 2x faster than np.all()", "        (pol_x == 0) * (pol_y == 0)\n    )", "red"),
    ("C05", "sphere-inside-affine", FD + "field_BH_sphere.py", "    BHJM *= 2 / 3\n", "    BHJM = BHJM * (2 / 3) + 1e-4 * (r < 0.01)[:, None]\n", "red"),
    ("C12", "cuboid-absolute-surface-tol", FD + "field_BH_cuboid.py", "    mask_inside_x = x_dist < RTOL_SURFACE * a", "    mask_inside_x = x_dist < 1e-12", "red"),
    ("C12", "cylinder-z-not-dimensionless", FD + "field_BH_cylinder.py", "    z = z / r0\n    z0 = z0 / r0", "    z0 = z0 / r0", "red"),
    ("C12", "circle-absolute-singularity-tol", FD + "field_BH_circle.py", "abs(r - r0) < 1e-15 * r0", "abs(r - r0) < 1e-15", "red"),
    ("C12", "sphere-absolute-margin", FD + "field_BH_sphere.py", "    out = r > r_sphere", "    out = r > r_sphere + 1e-13", "red"),
    ("C12", "circle-axis-power", FD + "field_BH_circle.py", "(z[mask4] ** 2 + r0[mask4] ** 2) ** (3 / 2)", "(z[mask4] ** 2 + r0[mask4] ** 2)", "red"),
    ("C12", "cylinder-polxy-squared", FD + "field_BH_cylinder.py", "        pol_xy = np.sqrt(pol_x**2 + pol_y**2)[mask_pol_tv]", "        pol_xy = (pol_x**2 + pol_y**2)[mask_pol_tv]", "red"),
    ("C12", "segment-new-absolute-tol", FD + "field_BH_cylinder_segment.py", "    mask_r_in = (r1 - 1e-14 < r) & (r < r2 + 1e-14)", "    mask_r_in = (r1 - 1e-9 < r) & (r < r2 + 1e-9)", "red"),
    ("C06", "segment-early-return-before-JM", FD + "field_BH_cylinder_segment.py",
     '    if field == "J":\n        BHJM[~mask_inside] = 0\n        return BHJM\n\n    if field == "M":\n        BHJM[~mask_inside] = 0\n        return BHJM / MU0\n\n    # return 0 when all points are on surface\n    if not np.any(mask_not_on_surf):\n        return BHJM * 0\n',
     '    # return 0 when all points are on surface\n    if not np.any(mask_not_on_surf):\n        return BHJM * 0\n\n    if field == "J":\n        BHJM[~mask_inside] = 0\n        return BHJM\n\n    if field == "M":\n        BHJM[~mask_inside] = 0\n        return BHJM / MU0\n', "red"),
    ("C06", "cylinder-B-all-instead-of-any", FD + "field_BH_cylinder.py", "        if any(mask_tv_inside):  # tv computes H-field", "        if all(mask_tv_inside):", "red"),
    ("C06", "circle-axis-case-needs-all", FD + "field_BH_circle.py", "    if np.any(mask3):", "    if np.all(mask3):", "red"),
    ("C02", "cuboid-H-not-on-edge", FD + "field_BH_cuboid.py", "        BHJM[mask_inside] -= polarization[mask_inside]\n",
     "        BHJM[mask_inside & mask_not_edge] -= polarization[mask_inside & mask_not_edge]\n", "red"),
    ("C02", "sphere-H-two-thirds", FD + "field_BH_sphere.py", "        BHJM[~out] -= polarization[~out]\n", "        BHJM[~out] -= polarization[~out] * (2 / 3)\n", "red"),
    ("C02", "cylinder-M-unmasked", FD + "field_BH_cylinder.py", '    if field == "M":\n        BHJM[~mask_inside] = 0\n', '    if field == "M":\n', "red"),
    ("C02", "dipole-B-literal-mu0", FD + "field_BH_dipole.py", "        return BHJM * MU0", "        return BHJM * (4 * np.pi * 1e-7)", "red"),
    ("C02", "triangle-J-pol", FD + "field_BH_triangle.py", '    if field == "J":\n        return BHJM\n', '    if field == "J":\n        return polarization.astype(float)\n', "red"),
    ("C02", "tetra-B-minus", FD + "field_BH_tetrahedron.py", "        BHJM[mask_inside] += polarization[mask_inside]", "        BHJM[mask_inside] -= polarization[mask_inside]", "red"),
    ("C02", "sphere-module-mu0", FD + "field_BH_sphere.py", "from scipy.constants import mu_0 as MU0", "MU0 = 4 * np.pi * 1e-7", "red"),
    ("C02", "segment-B-no-mu0", FD + "field_BH_cylinder_segment.py", "        BHJM *= MU0\n        BHJM[mask_inside] += polarization[mask_inside]", "        BHJM[mask_inside] += polarization[mask_inside]", "red"),
    ("C02", "segment-internal-hollow-plus", FD + "field_BH_cylinder_segment.py", "    BHfinal[mask2] -= BHJM_magnet_cylinder(", "    BHfinal[mask2] += BHJM_magnet_cylinder(", "red"),
    ("C02", "cylinder-inside-strict-hull", FD + "field_BH_cylinder.py", "    mask_inside_hull = r <= 1  # inside Cylinder hull plane", "    mask_inside_hull = r < 1", "equivalent"),
    ("C02", "setter-magnetization-factor", "magpylib/_src/obj_classes/class_BaseExcitations.py", "self._magnetization * (4 * np.pi * 1e-7)", "self._magnetization * (4 * np.pi * 1e-6)", "red"),
    ("C02", "circle-B-factor", FD + "field_BH_circle.py", "        return BHJM * MU0", "        return BHJM * MU0 * 1.0000001", "red"),
    ("C09", "neg-start-off-by-one", BT, "        start = lenop + start\n", "        start = lenop + start - 1\n", "red"),
    ("C09", "scalar-end", BT, "    end = len(ppath) if scalar_input else start + lenip", "    end = start + lenip", "red"),
    ("C09", "pad-behind-ge", BT, "    if start + lenip > lenop + pad_before:", "    if start + lenip >= lenop + pad_before:", "equivalent"),
    ("C09", "rotate-right-compose", BT, "(rotation * oldrot).as_quat()", "(oldrot * rotation).as_quat()", "red"),
    ("C09", "anchor-not-added-back", BT, "        ppath[newstart:end] += anchor\n", "        ppath[newstart:end] -= anchor\n", "red"),
    ("C09", "multi-anchor-pad-rot-forgotten", BT, "        rotation = R.from_quat(inrotQ)\n\n    return anchor", "        pass\n\n    return anchor", "red"),
    ("C09", "setter-slice-front", BG, "        return path2[-delta_path:]", "        return path2[:delta_path]", "red"),
    ("C09", "position-setter-writes-before-check", BG,
     "        old_pos = self._position\n\n        # check and set new position\n        self._position = check_format_input_vector(",
     "        old_pos = self._position\n        self._position = self._position[:1]\n        # check and set new position\n        self._position = check_format_input_vector(", "red"),
    ("C09", "angax-deg-factor", BT, "            angle = angle / 180 * np.pi", "            angle = angle / 360 * np.pi", "red"),
    ("C09", "euler-args-swapped-flag", BT, "rot = R.from_euler(seq, angle, degrees=degrees)", "rot = R.from_euler(seq, angle, degrees=True)", "red"),
    ("C09", "mrp-drops-start", BT, "        rot = R.from_mrp(mrp)\n        return self.rotate(rot, anchor=anchor, start=start)",
     "        rot = R.from_mrp(mrp)\n        return self.rotate(rot, anchor=anchor)", "red"),
    ("C09", "init-pads-wrong-side", BG, '            oriQ = np.pad(oriQ, ((0, len_pos - len_ori), (0, 0)), "edge")',
     '            oriQ = np.pad(oriQ, ((len_pos - len_ori, 0), (0, 0)), "edge")', "red"),
    ("C10", "child-move-drops-start", BT, "            child.move(displacement, start=start)", "            child.move(displacement)", "red"),
    ("C10", "child-rotate-own-position", BT, "            ppth = self._position if parent_path is None else parent_path",
     "            ppth = self._position", "red"),
    ("C10", "setter-relpos-sign", BG, "            rel_child_pos = child_pos - old_pos", "            rel_child_pos = old_pos - child_pos", "red"),
    ("C10", "ori-setter-order", BG, "                self.orientation * old_ori_pad.inv(), anchor=self._position, start=0",
     "                old_ori_pad.inv() * self.orientation, anchor=self._position, start=0", "red"),
    ("C10", "parent-path-anchor-start", BT, "        anchor = parent_path[start : start + len_anchor]",
     "        anchor = parent_path[newstart : newstart + len_anchor]", "equivalent"),
    ("C10", "parent-path-not-padded", BT, '            parent_path = np.pad(parent_path, (padding, (0, 0)), "edge")', "            pass", "red"),
]


def run_one(mut, keep_log=False):
    pid, name, rel, old, new, expect = mut
    tmp = tempfile.mkdtemp(prefix="verif_mut_")
    try:
        shutil.copytree("/repo/magpylib", os.path.join(tmp, "magpylib"))
        p = os.path.join(tmp, rel)
        with open(p, encoding="utf8") as f:
            s = f.read()
        if s.count(old) < 1:
            return pid, name, "PATTERN-NOT-FOUND", 0.0
        s = s.replace(old, new, 1)
        with open(p, "w", encoding="utf8") as f:
            f.write(s)
        env = dict(os.environ, PYTHONPATH=tmp, VERIF_SELFTEST="1", VERIF_EVIDENCE_DIR=os.path.join(tmp, "evidence"))
        t0 = time.time()
        r = subprocess.run([os.path.join(HERE, "vv"), "check", pid, "--tier", "quick"], env=env, capture_output=True, text=True,
                           cwd=HERE, check=False)
        dt = time.time() - t0
        red = r.returncode == 1 and "VIOLATION property=" + pid in r.stdout
        if expect == "red":
            verdict = "caught" if red else f"MISSED(exit {r.returncode})"
        else:
            verdict = ("equivalent-ok" + ("(undecided)" if "UNDECIDED" in r.stdout else "")) if r.returncode == 0 else f"FALSE-ALARM(exit {r.returncode})"
        firsts = [ln.split("failed obligation: ")[1][:70] for ln in r.stdout.splitlines() if "failed obligation: " in ln]
        layers = sorted({("stand-in" if f.startswith("standin.") else "obligation") for f in firsts})
        verdict += " by " + "+".join(layers) + (f" [{next((f for f in firsts if not f.startswith('standin.')), firsts[0])}]" if firsts else "") if firsts and red else ""
        if keep_log or verdict.startswith(("MISSED", "FALSE")):
            sys.stdout.write(r.stdout[-1500:] + r.stderr[-1500:])
        return pid, name, verdict, dt
    finally:
        shutil.rmtree(tmp, ignore_errors=True)


def main(args):
    sel = [a for a in args if not a.startswith("-k")]
    sub = [a[2:] for a in args if a.startswith("-k")]
    bad = 0
    for mut in MUTANTS:
        if sel and mut[0] not in sel:
            continue
        if sub and not any(x in mut[1] for x in sub):
            continue
        pid, name, verdict, dt = run_one(mut)
        print(f"{pid} {name:42s} {dt:5.1f}s {verdict}", flush=True)
        bad += not verdict.startswith(("caught", "equivalent-ok"))
    # restore evidence of the unchanged tree for the touched properties
    return 1 if bad else 0
