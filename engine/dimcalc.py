"""Dimension calculus over z3 term DAGs: a homogeneity *type derivation*.

Every input variable has a degree in the length unit (1 for lengths, 0 otherwise).  A term is
well-dimensioned of degree d if it is built by rules each of which preserves positive
homogeneity:   t[s*lengths] = s^d * t  for all s > 0  (structural induction):

    numeral 0            : any degree            numeral c != 0 : degree 0
    a + b, a - b         : deg a = deg b         a * b : deg a + deg b      a / b : deg a - deg b
    -a, |a| (ite form)   : deg a                 sqrt a : deg a / 2
    a < b, a <= b, a = b : deg a = deg b  -> Bool (scale-free since s > 0)
    ite(c, a, b)         : c well-dimensioned Bool, deg a = deg b
    and/or/not/xor/=>    : Bool
    arctan2(y, x)        : deg y = deg x -> 0    cos/sin/tan/log/exp/arctan... : argument degree 0 -> 0
    core stub f_j(args)  : arguments must have the degrees of the core's (assumed) homogeneity contract -> its output degree
    batch-global symbols (any_/all_/count_/n_rows) : scale-free

A rule violation is returned with the offending sub-term; absolute constants added to / compared with a
length show up as "degree mismatch in +/-/comparison with a non-zero numeral".
"""
from fractions import Fraction

import z3

ANY = "any"


class DimError(Exception):
    pass


def _num_is_zero(t):
    return z3.is_rational_value(t) and t.numerator_as_long() == 0 or (z3.is_int_value(t) and t.as_long() == 0)


class DimCheck:
    def __init__(self, var_deg, uf_rules, default_var_deg=None):
        self.var_deg = var_deg  # name -> Fraction
        self.uf_rules = uf_rules  # name -> (list of arg degrees, out degree)
        self.default = default_var_deg
        self.cache = {}
        self.violations = []  # (reason, term sexpr (shortened), literal values involved)
        self.nodes = 0

    def _unify(self, ds, t, what):
        d0 = ANY
        for d in ds:
            if d == ANY:
                continue
            if d0 == ANY:
                d0 = d
            elif d != d0:
                lits = sorted({str(c) for c in t.children() if z3.is_rational_value(c) or z3.is_algebraic_value(c)})
                self.violations.append((f"degree mismatch in {what}: {[str(x) for x in ds]}", _short(t), _literals(t)))
                return d0
        return d0

    def deg(self, t):
        k = t.get_id()
        if k in self.cache:
            return self.cache[k]
        self.nodes += 1
        d = self._deg(t)
        self.cache[k] = d
        return d

    def _deg(self, t):
        if z3.is_rational_value(t) or z3.is_int_value(t) or z3.is_algebraic_value(t):
            return ANY if _num_is_zero(t) else Fraction(0)
        if z3.is_true(t) or z3.is_false(t):
            return "bool"
        kind = t.decl().kind()
        ch = t.children()
        name = t.decl().name()
        if z3.is_const(t) and kind == z3.Z3_OP_UNINTERPRETED:
            if name.startswith(("any_", "all_")):
                return "bool"
            if name.startswith("count_") or name == "n_rows":
                return Fraction(0)
            if name in self.var_deg:
                return self.var_deg[name]
            for pre, d in self.var_deg.items():
                if pre.endswith("*") and name.startswith(pre[:-1]):
                    return d
            if self.default is not None:
                return self.default
            raise DimError(f"no degree for variable {name}")
        if kind in (z3.Z3_OP_ADD, z3.Z3_OP_SUB):
            ds = [self.deg(c) for c in ch]
            if any(isinstance(d, tuple) for d in ds):
                # additive (logarithmic) degrees: they add with sign; the sum is unit-free iff they cancel
                tot = Fraction(0)
                for i, d in enumerate(ds):
                    if isinstance(d, tuple):
                        tot += d[1] if (kind == z3.Z3_OP_ADD or i == 0) else -d[1]
                    elif d not in (ANY, Fraction(0)):
                        self.violations.append(("sum of a logarithm and a dimensioned quantity", _short(t), []))
                return Fraction(0) if tot == 0 else ("L", tot)
            return self._unify(ds, t, "+/-")
        if kind == z3.Z3_OP_UMINUS:
            d = self.deg(ch[0])
            return ("L", -d[1]) if isinstance(d, tuple) else d
        if kind == z3.Z3_OP_MUL:
            ds = [self.deg(c) for c in ch]
            if any(_num_is_zero(c) for c in ch):
                return ANY
            if any(isinstance(d, tuple) for d in ds):
                # a logarithm with a non-cancelled additive degree used as a factor: c * log(x) with c a unit-free number keeps the additive form
                if sum(isinstance(d, tuple) for d in ds) == 1 and all(isinstance(d, tuple) or d in (ANY, Fraction(0)) for d in ds) and \
                        all(z3.is_rational_value(c) for c, d in zip(ch, ds) if not isinstance(d, tuple)):
                    k = Fraction(1)
                    for c, d in zip(ch, ds):
                        if not isinstance(d, tuple):
                            k *= Fraction(c.numerator_as_long(), c.denominator_as_long())
                    return ("L", k * next(d for d in ds if isinstance(d, tuple))[1])
                self.violations.append(("logarithm of a dimensioned quantity used as a factor (its unit offset does not cancel)", _short(t), _literals(t)))
                return Fraction(0)
            return sum((d for d in ds if d != ANY), Fraction(0)) if ANY not in ds else ANY
        if kind in (z3.Z3_OP_DIV, z3.Z3_OP_IDIV):
            a, b = self.deg(ch[0]), self.deg(ch[1])
            if a == ANY:
                return ANY
            if b == ANY:
                return ANY  # x / 0: a documented singular point (Dipole at its own location); definedness is C15's business, not the unit's
            return a - b
        if kind == z3.Z3_OP_TO_REAL:
            return self.deg(ch[0])
        if kind in (z3.Z3_OP_LT, z3.Z3_OP_LE, z3.Z3_OP_GT, z3.Z3_OP_GE):
            self._unify([self.deg(c) for c in ch], t, "comparison")
            return "bool"
        if kind in (z3.Z3_OP_EQ, z3.Z3_OP_DISTINCT):
            ds = [self.deg(c) for c in ch]
            if "bool" in ds:
                return "bool"
            self._unify(ds, t, "equality")
            return "bool"
        if kind == z3.Z3_OP_ITE:
            self.deg(ch[0])
            ds = [self.deg(ch[1]), self.deg(ch[2])]
            if "bool" in ds:
                return "bool"
            return self._unify(ds, t, "if-then-else branches")
        if kind in (z3.Z3_OP_AND, z3.Z3_OP_OR, z3.Z3_OP_NOT, z3.Z3_OP_XOR, z3.Z3_OP_IMPLIES, z3.Z3_OP_IFF):
            for c in ch:
                self.deg(c)
            return "bool"
        if kind == z3.Z3_OP_UNINTERPRETED:
            ds = [self.deg(c) for c in ch]
            if name == "sqrt":
                return ANY if ds[0] == ANY else ds[0] / 2
            if name == "arctan2":
                self._unify(ds, t, "arctan2 arguments")
                return Fraction(0)
            if name == "log":
                # log(x) with deg x = d:  log(s^d x) = log x + d log s  — an ADDITIVE degree; differences of logs of equal degree are unit-free
                return ANY if ds[0] == ANY else (Fraction(0) if ds[0] == 0 else ("L", ds[0]))
            if name in ("cos", "sin", "tan", "arctan", "arctanh", "exp"):
                if ds[0] not in (ANY, Fraction(0)):
                    self.violations.append((f"{name} of a dimensioned quantity (degree {ds[0]})", _short(t), _literals(t)))
                return Fraction(0)
            if name.startswith("round"):
                if ds[0] not in (ANY, Fraction(0)):
                    self.violations.append((f"absolute rounding ({name}) of a dimensioned quantity (degree {ds[0]})", _short(t), [10.0 ** -int(name[5:] or 0)]))
                return ds[0]
            if name.startswith("rotapply"):
                # rotation applied to a vector: quaternion components are unit-free, result has the degree of the vector
                for d in ds[:4]:
                    if d not in (ANY, Fraction(0)):
                        self.violations.append(("dimensioned quaternion component", _short(t), []))
                return self._unify(ds[4:], t, "components of a rotated vector")
            if name == "pow":
                if ds[0] not in (ANY, Fraction(0)):
                    self.violations.append(("non-integer power of a dimensioned quantity", _short(t), []))
                return Fraction(0)
            base = name.rsplit("_", 1)[0]
            if base in self.uf_rules:
                argd, outd = self.uf_rules[base]
                if len(argd) != len(ds):
                    raise DimError(f"stub {base}: {len(ds)} arguments, contract has {len(argd)}")
                for i, (have, want) in enumerate(zip(ds, argd)):
                    if want is None:  # argument must be scale-free OR the stub's value is claimed invariant under common scaling of all args
                        continue
                    if have != ANY and have != want:
                        self.violations.append((f"argument {i} of core {base} has degree {have}, its homogeneity contract needs {want}",
                                                _short(t), []))
                return outd
            raise DimError(f"no rule for function {name}")
        raise DimError(f"no rule for operator {t.decl()}")


def _short(t, n=300):
    s = t.sexpr().replace("\n", " ")
    return s if len(s) <= n else s[:n] + "..."


def _literals(t):
    out = []
    for c in t.children():
        if z3.is_rational_value(c) and not _num_is_zero(c):
            try:
                out.append(float(c.numerator_as_long()) / float(c.denominator_as_long()))
            except Exception:  # pylint: disable=broad-except
                pass
        elif z3.is_app(c) and c.decl().kind() in (z3.Z3_OP_ADD, z3.Z3_OP_SUB, z3.Z3_OP_MUL):
            out += _literals(c)
    return out


class LinCheck:
    """Linearity typing of a z3 term in a set of excitation variables E.

    classes: 'zero' (literal 0), 'const' (no E variable below), 'lin' (additive and odd in E: t(e1+e2)=t(e1)+t(e2), t(-e)=-t(e)),
    'bconst' (Boolean without E).  Rules (each preserves the meaning by structural induction):
      lin +/- lin = lin ; const * lin = lin ; lin / const = lin ; -lin = lin ; ite(bconst, lin, lin) = lin (zero counts as lin)
      stub(const..., lin...) = lin when the stub's assumed contract is linearity in those arguments ; everything else -> not typable.
    """

    def __init__(self, evars, lin_stubs):
        self.evars = set(evars)
        self.lin_stubs = lin_stubs  # base name -> set of argument positions that are excitation arguments
        self.cache = {}
        self.nodes = 0
        self.why = None

    def cls(self, t):
        k = t.get_id()
        if k not in self.cache:
            self.nodes += 1
            self.cache[k] = self._cls(t)
        return self.cache[k]

    def _fail(self, t, msg):
        if self.why is None:
            self.why = f"{msg}: {_short(t, 200)}"
        return "fail"

    def _cls(self, t):
        if z3.is_rational_value(t) or z3.is_int_value(t) or z3.is_algebraic_value(t):
            return "zero" if _num_is_zero(t) else "const"
        if z3.is_true(t) or z3.is_false(t):
            return "bconst"
        kind = t.decl().kind()
        ch = t.children()
        name = t.decl().name()
        if z3.is_const(t) and kind == z3.Z3_OP_UNINTERPRETED:
            if name in self.evars:
                return "lin"
            return "bconst" if z3.is_bool(t) else "const"
        cs = [self.cls(c) for c in ch]
        if "fail" in cs:
            return "fail"
        if z3.is_bool(t):
            if all(c in ("const", "zero", "bconst") for c in cs):
                return "bconst"
            return self._fail(t, "Boolean depending on the excitation")
        if all(c in ("const", "zero") for c in cs) and kind != z3.Z3_OP_ITE:
            return "const" if not (kind in (z3.Z3_OP_MUL,) and "zero" in cs) else "zero"
        if kind in (z3.Z3_OP_ADD, z3.Z3_OP_SUB):
            if all(c in ("lin", "zero") for c in cs):
                return "lin"
            return self._fail(t, "sum of a linear and a constant term (affine, not linear)")
        if kind == z3.Z3_OP_UMINUS:
            return cs[0]
        if kind == z3.Z3_OP_MUL:
            if "zero" in cs:
                return "zero"
            if cs.count("lin") == 1 and all(c in ("lin", "const") for c in cs):
                return "lin"
            return self._fail(t, "product of two excitation-dependent factors")
        if kind == z3.Z3_OP_DIV:
            if cs[0] in ("lin", "zero") and cs[1] in ("const", "zero"):
                return cs[0]  # division by a literal zero is a singular point (definedness, C15), not a linearity matter
            return self._fail(t, "division by an excitation-dependent term")
        if kind == z3.Z3_OP_ITE:
            if cs[0] != "bconst":
                return self._fail(t, "branch condition depends on the excitation")
            a, b = cs[1], cs[2]
            if a in ("lin", "zero") and b in ("lin", "zero"):
                return "lin" if "lin" in (a, b) else "zero"
            if a in ("const", "zero") and b in ("const", "zero"):
                return "const"
            return self._fail(t, "branches of different linearity class")
        if kind == z3.Z3_OP_TO_REAL:
            return cs[0]
        if kind == z3.Z3_OP_UNINTERPRETED:
            base = name.rsplit("_", 1)[0]
            if all(c in ("const", "zero") for c in cs):
                return "const"  # a function of excitation-independent arguments does not depend on the excitation
            if base in self.lin_stubs:
                pos = self.lin_stubs[base]
                ok = all((c in ("lin", "zero")) if i in pos else (c in ("const", "zero")) for i, c in enumerate(cs))
                if ok:
                    return "lin"
            return self._fail(t, f"function {name} applied to an excitation-dependent argument")
        return self._fail(t, f"operator {t.decl()}")
