"""Row-generic symbolic NumPy: a batch array of n rows is represented by the value of ONE
generic row (z3 Real/Bool terms); everything the vectorised field code does row-wise is
executed on that row, so a per-row postcondition proved for the generic row under arbitrary
batch-global facts holds for every row of every batch.

* G(blocks, bax, tag): full shape = trailing shape with the batch axis inserted at `bax`;
  `blocks` (k generic rows) model tile/concatenate ('stack') or repeat/reshape ('inter') layouts;
  `tag` = predicate under which the row is present (boolean-mask compression).
* combining arrays compressed by different masks is rejected unless the solver proves the tags
  equivalent under the path condition (fail-closed: the function leaves the verified subset).
* any()/all()/len over the batch axis are *batch-global* symbols, named by the reduced term, and
  related to the generic row only by  m_i => any(m),  all(m) => m_i.
* sqrt, arctan2, log, cos, sin, ... are uninterpreted; the few axioms used are listed.
* every in-place write records (target object, whether it is a caller's argument): frame obligations.
"""
import hashlib
from fractions import Fraction

import numpy as np
import z3

from engine.symex import Ctx, SymBool, SymInt, Unsupported

RS = z3.RealSort()
NROWS = z3.Int("n_rows")
COUNT_TAGS = {}  # name of a row-count symbol -> the mask tag it counts


def rows_tag(n):
    """tag of a fresh array with n rows (n: SymInt): full batch, or the batch compressed by a known mask"""
    t = z3.simplify(n.t)
    if z3.is_true(z3.simplify(t == NROWS)):
        return None
    nm = t.decl().name() if z3.is_const(t) else None
    if nm in COUNT_TAGS:
        return COUNT_TAGS[nm]
    raise Unsupported("allocation with a row count that is neither the batch length nor the size of a known mask")


# ----------------------------------------------------------------------------- term helpers
def zlift(x):
    if z3.is_expr(x):
        return x
    if isinstance(x, (bool, np.bool_)):
        return z3.BoolVal(bool(x))
    if isinstance(x, (int, np.integer)):
        return z3.RealVal(int(x))
    if isinstance(x, (float, np.floating)):
        x = float(x)
        if x != x or x in (float("inf"), float("-inf")):
            raise Unsupported("non-finite literal")
        fr = Fraction(x)
        return z3.RealVal(f"{fr.numerator}/{fr.denominator}") if fr.denominator != 1 else z3.RealVal(fr.numerator)
    if isinstance(x, Fraction):
        return z3.RealVal(f"{x.numerator}/{x.denominator}")
    if isinstance(x, SymInt):
        return z3.ToReal(x.t)
    raise Unsupported(f"cannot lift {type(x).__name__}")


def isb(t):
    return z3.is_bool(t)


def asreal(t):
    if isb(t):
        return z3.If(t, z3.RealVal(1), z3.RealVal(0))
    if z3.is_int(t):
        return z3.ToReal(t)
    return t


def asbool(t):
    return t if isb(t) else asreal(t) != 0


def zabs(t):
    t = asreal(t)
    return z3.If(t >= 0, t, -t)


def thash(t):
    return hashlib.sha1(t.sexpr().encode()).hexdigest()[:10]


_UF = {}


def uf(name, *args):
    f = _UF.get((name, len(args)))
    if f is None:
        f = z3.Function(name, *([RS] * (len(args) + 1)))
        _UF[(name, len(args))] = f
    return f(*[asreal(a) for a in args])


def t_sqrt(t):
    t = asreal(t)
    r = uf("sqrt", t)
    Ctx.cur.axioms.append(z3.Implies(t >= 0, z3.And(r >= 0, r * r == t)))
    return r


def t_sign(t):
    t = asreal(t)
    return z3.If(t > 0, z3.RealVal(1), z3.If(t < 0, z3.RealVal(-1), z3.RealVal(0)))


def t_pow(t, e):
    t = asreal(t)
    if isinstance(e, (int, np.integer)) or (isinstance(e, float) and e == int(e)):
        e = int(e)
        if e == 0:
            return z3.RealVal(1)
        if e < 0:
            return z3.RealVal(1) / t_pow(t, -e)
        r = t
        for _ in range(e - 1):
            r = r * t
        return r
    if isinstance(e, float) and e * 2 == int(e * 2) and e > 0:  # half-integer powers: sqrt(t)^(2e)
        s = t_sqrt(t)
        return t_pow(s, int(e * 2))
    return uf("pow", t, zlift(e))


# ----------------------------------------------------------------------------- the array
def _obj(a):
    out = np.empty(np.shape(a), dtype=object)
    it = np.nditer(np.asarray(a, dtype=object), flags=["multi_index", "refs_ok"])
    if out.shape == ():
        out[()] = zlift(np.asarray(a, dtype=object)[()])
        return out
    for _ in it:
        out[it.multi_index] = zlift(np.asarray(a, dtype=object)[it.multi_index])
    return out


def vmap(f, *arrs):
    """elementwise f over broadcast object arrays"""
    bs = np.broadcast(*arrs)
    out = np.empty(bs.shape, dtype=object)
    out.flat = [f(*xs) for xs in bs]
    return out


WRITES = []  # (id(base object), is_argument, description)


class _Pair:
    __slots__ = ("c", "x")

    def __init__(self, c, x):
        self.c, self.x = c, x


class _Poison(list):
    """blocks of an array that was written through a view: unusable"""

    def __getitem__(self, k):
        raise Unsupported("use of an array after it was written through a view (aliasing not modelled)")

    def __iter__(self):
        raise Unsupported("use of an array after it was written through a view (aliasing not modelled)")

    def __len__(self):
        raise Unsupported("use of an array after it was written through a view (aliasing not modelled)")


class G:
    __array_priority__ = 10000
    __array_ufunc__ = None

    def __init__(self, blocks, bax=0, tag=None, layout="stack", base=None):
        if isinstance(blocks, np.ndarray):
            blocks = [blocks]
        self.blocks = [b if isinstance(b, np.ndarray) and b.dtype == object else _obj(b) for b in blocks]
        self.bax, self.tag, self.layout = bax, tag, layout
        self.base = base  # the object whose memory this is a view of (writes through views are tracked)
        self.base_ver = getattr(base, "_ver", 0) if base is not None else 0
        self._ver = 0  # bumped on every in-place write: views taken before a write are stale afterwards (NumPy aliasing is not modelled)
        self.is_argument = False

    def _fresh(self):
        if self.base is not None and getattr(self.base, "_ver", 0) != self.base_ver:
            raise Unsupported("use of a view after its base array was written (NumPy aliasing is not modelled)")

    # ---- shape
    @property
    def tshape(self):
        return self.blocks[0].shape

    @property
    def ndim(self):
        return len(self.tshape) + 1

    def nrows(self):
        if self.tag is None:
            n = NROWS
        else:
            n = z3.Int("count_" + thash(self.tag))
            COUNT_TAGS["count_" + thash(self.tag)] = self.tag
            Ctx.cur.axioms.append(z3.And(n >= 0, n <= NROWS))
        return n * len(self.blocks) if len(self.blocks) > 1 else n

    @property
    def shape(self):
        s = list(self.tshape)
        s.insert(self.bax, SymInt(self.nrows()))
        return tuple(s)

    def __len__(self):
        raise Unsupported("builtin len() on row-generic array (bind the shim)")

    def like(self, blocks, **kw):
        self._fresh()
        d = dict(bax=self.bax, tag=self.tag, layout=self.layout)
        d.update(kw)
        return G(blocks, **d)

    @property
    def T(self):
        nd = self.ndim
        return G([b.T for b in self.blocks], nd - 1 - self.bax, self.tag, self.layout, base=self.base if self.base is not None else self)

    def copy(self):
        return G([b.copy() for b in self.blocks], self.bax, self.tag, self.layout)

    def astype(self, ty, **kw):
        if ty is bool:
            return self.like([vmap(asbool, b) for b in self.blocks])
        if ty is float:
            return self.like([vmap(asreal, b) for b in self.blocks])
        raise Unsupported(f"astype({ty})")

    @property
    def dtype(self):
        return np.dtype(bool) if isb(self.blocks[0].flat[0]) else np.dtype(float)

    # ---- elementwise
    def _bin(self, o, f, reflected=False):
        self._fresh()
        if isinstance(o, G):
            o._fresh()
        a, b = self, o
        if isinstance(b, (SymInt,)):
            b = zlift(b)
        if isinstance(b, G):
            if len(a.blocks) != len(b.blocks):
                raise Unsupported("operands with different block structure")
            if len(a.blocks) > 1 and a.layout != b.layout:
                raise Unsupported("operands with different block layout")
            tag = merge_tags(a.tag, b.tag)
            ra, rb = a.ndim - a.bax, b.ndim - b.bax
            if ra != rb:
                raise Unsupported(f"batch axes do not align under broadcasting ({a.shape} vs {b.shape})")
            outs = []
            for va, vb in zip(a.blocks, b.blocks):
                ea, eb = np.expand_dims(va, a.bax), np.expand_dims(vb, b.bax)
                r = vmap((lambda x, y: f(y, x)) if reflected else f, ea, eb)
                outs.append(np.squeeze(r, axis=r.ndim - ra))
            nd = outs[0].ndim + 1
            return G(outs, nd - ra, tag, a.layout)
        # non-batch operand
        if z3.is_expr(b) or isinstance(b, (bool, int, float, np.generic, Fraction)):
            cb = _obj(np.asarray(zlift(b), dtype=object))
        elif isinstance(b, (np.ndarray, list, tuple)):
            cb = _obj(b)
        else:
            return NotImplemented
        ra = a.ndim - a.bax
        if cb.ndim >= ra and cb.shape[cb.ndim - ra] != 1:
            raise Unsupported("constant array broadcast against the batch axis")
        outs = []
        for va in a.blocks:
            ea = np.expand_dims(va, a.bax)
            r = vmap((lambda x, y: f(y, x)) if reflected else f, ea, cb)
            outs.append(np.squeeze(r, axis=r.ndim - ra))
        nd = outs[0].ndim + 1
        return G(outs, nd - ra, a.tag, a.layout)

    def __add__(s, o):
        return s._bin(o, lambda a, b: asreal(a) + asreal(b))

    def __radd__(s, o):
        return s._bin(o, lambda a, b: asreal(a) + asreal(b), True)

    def __sub__(s, o):
        return s._bin(o, lambda a, b: asreal(a) - asreal(b))

    def __rsub__(s, o):
        return s._bin(o, lambda a, b: asreal(a) - asreal(b), True)

    def __mul__(s, o):
        return s._bin(o, _mul)

    def __rmul__(s, o):
        return s._bin(o, _mul, True)

    def __truediv__(s, o):
        return s._bin(o, _div)

    def __rtruediv__(s, o):
        return s._bin(o, _div, True)

    def __pow__(s, e):
        if isinstance(e, G):
            raise Unsupported("array exponent")
        return s.like([vmap(lambda t: t_pow(t, e), b) for b in s.blocks])

    def __neg__(s):
        return s.like([vmap(lambda t: -asreal(t), b) for b in s.blocks])

    def __pos__(s):
        return s

    def __abs__(s):
        return s.like([vmap(zabs, b) for b in s.blocks])

    def __lt__(s, o):
        return s._bin(o, lambda a, b: asreal(a) < asreal(b))

    def __le__(s, o):
        return s._bin(o, lambda a, b: asreal(a) <= asreal(b))

    def __gt__(s, o):
        return s._bin(o, lambda a, b: asreal(a) > asreal(b))

    def __ge__(s, o):
        return s._bin(o, lambda a, b: asreal(a) >= asreal(b))

    def __eq__(s, o):
        return s._bin(o, _eq)

    def __ne__(s, o):
        return s._bin(o, lambda a, b: z3.Not(_eq(a, b)))

    __hash__ = None

    def __and__(s, o):
        return s._bin(o, lambda a, b: z3.And(asbool(a), asbool(b)))

    __rand__ = __and__

    def __or__(s, o):
        return s._bin(o, lambda a, b: z3.Or(asbool(a), asbool(b)))

    __ror__ = __or__

    def __xor__(s, o):
        return s._bin(o, lambda a, b: z3.Xor(asbool(a), asbool(b)))

    def __invert__(s):
        return s.like([vmap(lambda t: z3.Not(asbool(t)), b) for b in s.blocks])

    def __bool__(s):
        raise Unsupported("truth value of a batch array")

    # ---- in-place (mutate self, as numpy does; record the write)
    def _inplace(self, new, what):
        self._ver += 1
        record_write(self, what)
        if new.bax != self.bax or new.tshape != self.tshape or len(new.blocks) != len(self.blocks):
            raise Unsupported("in-place op changes shape")
        check_same_rows(self.tag, new.tag)
        self.blocks = new.blocks
        return self

    def __iadd__(s, o):
        return s._inplace(s + o, "+=")

    def __isub__(s, o):
        return s._inplace(s - o, "-=")

    def __imul__(s, o):
        return s._inplace(s * o, "*=")

    def __itruediv__(s, o):
        return s._inplace(s / o, "/=")

    # ---- reductions over trailing axes / batch axis
    def _axis(self, axis):
        nd = self.ndim
        axis = axis + nd if axis < 0 else axis
        if axis == self.bax:
            raise Unsupported("reduction over the batch axis of a non-boolean array")
        return axis - (axis > self.bax)

    def sum(self, axis=None):
        if axis is None:
            raise Unsupported("full sum")
        ax = self._axis(axis)
        outs = []
        for b in self.blocks:
            mv = np.moveaxis(b, ax, 0)
            acc = vmap(asreal, mv[0])
            for i in range(1, mv.shape[0]):
                acc = vmap(lambda x, y: x + asreal(y), acc, mv[i])
            outs.append(acc)
        return self.like(outs, bax=self.bax - (ax < self.bax))

    def all(self, axis=None):
        if axis is None:
            return g_all(self)
        ax = self._axis(axis)
        outs = []
        for b in self.blocks:
            mv = np.moveaxis(b, ax, 0)
            acc = vmap(asbool, mv[0])
            for i in range(1, mv.shape[0]):
                acc = vmap(lambda x, y: z3.And(x, asbool(y)), acc, mv[i])
            outs.append(acc)
        return self.like(outs, bax=self.bax - (ax < self.bax))

    def any(self, axis=None):
        if axis is None:
            return g_any(self)
        return ~((~self).all(axis=axis))

    def reshape(self, *shape):
        if len(shape) == 1 and isinstance(shape[0], (tuple, list)):
            shape = tuple(shape[0])
        return g_reshape(self, shape)

    def swapaxes(self, a, b):
        return NPG.swapaxes(self, a, b)

    def flatten(self):
        if self.bax == 0 and all(d == 1 for d in self.tshape):
            return G([b.reshape(()) for b in self.blocks], 0, self.tag, self.layout)
        raise Unsupported("flatten of a non-trivial trailing shape")

    # ---- iteration over a leading non-batch axis (x, y, z = observers.T)
    def __iter__(self):
        if self.bax == 0:
            raise Unsupported("iteration over the batch axis")
        for i in range(self.tshape[0]):
            yield G([b[i] for b in self.blocks], self.bax - 1, self.tag, self.layout, base=self.base if self.base is not None else self)

    # ---- indexing
    def __getitem__(self, k):
        return g_getitem(self, k)

    def __setitem__(self, k, v):
        g_setitem(self, k, v)

    def row_terms(self):
        if len(self.blocks) != 1:
            raise Unsupported("row_terms of block array")
        return list(self.blocks[0].flat)

    def __repr__(self):
        return f"G(shape={self.shape}, blocks={len(self.blocks)}, tag={'-' if self.tag is None else thash(self.tag)})"


def _mul(a, b):
    if isb(a) and isb(b):
        return z3.And(a, b)
    return asreal(a) * asreal(b)


def _div(a, b):
    return asreal(a) / asreal(b)


def _eq(a, b):
    if isb(a) and isb(b):
        return a == b
    return asreal(a) == asreal(b)


# ----------------------------------------------------------------------------- tags
def tag_and(t, m):
    if t is None:
        return m
    return z3.And(t, m)


def same_rows(t1, t2):
    if t1 is None and t2 is None:
        return True
    a = z3.BoolVal(True) if t1 is None else t1
    b = z3.BoolVal(True) if t2 is None else t2
    if z3.eq(a, b):
        return True
    c = Ctx.cur
    s_ = z3.Solver()
    s_.set("timeout", 5000)
    s_.add(*c.pc, *c.axioms, a != b)
    return s_.check() == z3.unsat  # for the generic row, hence for every row (see module docstring); unknown counts as "not the same rows"


def check_same_rows(t1, t2):
    if not same_rows(t1, t2):
        raise Unsupported("arrays compressed by different masks are combined")


def merge_tags(t1, t2):
    check_same_rows(t1, t2)
    return t1 if t1 is not None else t2


# ----------------------------------------------------------------------------- writes / frame
def record_write(g, what):
    tgt = g.base if g.base is not None else g
    WRITES.append((tgt, bool(tgt.is_argument), what))


# ----------------------------------------------------------------------------- batch-global reductions
def _row_bool(m):
    if not isinstance(m, G) or m.tshape != () or len(m.blocks) < 1:
        raise Unsupported("any/all over a non-1d array")
    return [asbool(b[()]) for b in m.blocks]


def g_any(m):
    """np.any / builtin any over the batch axis: a batch-global Boolean"""
    if not isinstance(m, G):
        return bool(np.any(m))
    rows = _row_bool(m)
    body = z3.Or(*rows) if len(rows) > 1 else rows[0]
    present = body if m.tag is None else z3.And(m.tag, body)
    g = z3.Bool("any_" + thash(present))
    c = Ctx.cur
    c.pc.append(z3.Implies(present, g))
    c.pc.append(z3.Implies(g, NROWS >= 1))
    return c.branch(g)


def g_all(m):
    if not isinstance(m, G):
        return bool(np.all(m))
    rows = _row_bool(m)
    body = z3.And(*rows) if len(rows) > 1 else rows[0]
    holds = body if m.tag is None else z3.Implies(m.tag, body)
    g = z3.Bool("all_" + thash(holds))
    c = Ctx.cur
    c.pc.append(z3.Implies(g, holds))
    return c.branch(g)


def g_len(x):
    if isinstance(x, G):
        if x.bax != 0:
            return x.tshape[0]
        return SymInt(x.nrows())
    return len(x)


# ----------------------------------------------------------------------------- indexing
def _is_mask(k):
    return isinstance(k, G) and k.tshape == () and k.bax == 0 and isb(k.blocks[0][()])


def _block_slice(g, k):
    """slice over the batch axis with symbolic bounds i*n : j*n (stack layout)"""
    n = g.nrows() if len(g.blocks) == 1 else None
    B = len(g.blocks)
    base_n = NROWS if g.tag is None else z3.Int("count_" + thash(g.tag))

    def coef(x, default):
        if x is None:
            return default
        t = x.t if isinstance(x, SymInt) else z3.IntVal(int(x))
        for c in range(B + 1):
            if z3.is_true(z3.simplify(t == c * base_n)):
                return c
        s = z3.Solver()
        s.add(base_n >= 1)
        for c in range(B + 1):
            s.push()
            s.add(t != c * base_n)
            r = s.check()
            s.pop()
            if r == z3.unsat:
                return c
        raise Unsupported("batch slice bound is not a multiple of the row count")

    lo, hi = coef(k.start, 0), coef(k.stop, B)
    if k.step is not None or g.layout != "stack" and B > 1:
        raise Unsupported("batch slice")
    if lo == 0 and hi == B:
        return g
    return G(g.blocks[lo:hi], g.bax, g.tag, g.layout, base=g.base if g.base is not None else g)


def g_getitem(g, k):
    g._fresh()
    base = g.base if g.base is not None else g
    if _is_mask(k):
        if g.bax != 0:
            raise Unsupported("mask on non-leading batch axis")
        check_same_rows(g.tag, k.tag)
        if len(k.blocks) != len(g.blocks):
            raise Unsupported("mask block structure")
        if len(g.blocks) > 1:
            raise Unsupported("mask on block array")
        return G([b.copy() for b in g.blocks], 0, tag_and(g.tag, asbool(k.blocks[0][()])), g.layout)
    if isinstance(k, slice):
        if g.bax == 0:
            return _block_slice(g, k)
        return _lead_index(g, k)
    if isinstance(k, (int, np.integer)):
        if g.bax == 0:
            raise Unsupported("integer index on the batch axis")
        return _lead_index(g, k)
    if isinstance(k, tuple):
        if g.bax != 0:
            # index on leading non-batch axes only
            return _lead_index(g, k)
        rowsel, rest = k[0], k[1:]
        if isinstance(rowsel, slice) and rowsel == slice(None):
            out = G([b[rest] if rest else b for b in g.blocks], 0, g.tag, g.layout, base=base)
            return out
        if _is_mask(rowsel):
            sub = g_getitem(g, rowsel)
            return G([b[rest] for b in sub.blocks], 0, sub.tag, g.layout)
        if isinstance(rowsel, slice):
            sub = _block_slice(g, rowsel)
            return G([b[rest] for b in sub.blocks], 0, sub.tag, sub.layout, base=base)
    raise Unsupported(f"index {k!r}")


def _lead_index(g, k):
    """index that touches only axes before the batch axis"""
    kk = k if isinstance(k, tuple) else (k,)
    if len(kk) > g.bax or any(isinstance(x, G) for x in kk):
        raise Unsupported("index reaching the batch axis")
    outs = [b[k] for b in g.blocks]
    removed = sum(isinstance(x, (int, np.integer)) for x in kk)
    return G(outs, g.bax - removed, g.tag, g.layout, base=g.base if g.base is not None else g)


def _coerce_value(v, like_shape):
    if isinstance(v, G):
        return v
    return None


def g_setitem(g, k, v):
    g._fresh()
    if isinstance(v, G):
        v._fresh()
    g._ver += 1
    record_write(g, f"[{_kdesc(k)}] =")
    if g.base is not None and not (isinstance(v, G) and v is g):
        # write through a view (x, y, z = np.copy(obs).T ; x[mask] = ...): this view is updated; the array it was taken from would be
        # stale in this model, so it is poisoned — any later use of it leaves the verified subset instead of giving a wrong answer
        root = g.base
        root.blocks = _Poison()
        g.base = None
    if g.bax != 0:
        raise Unsupported("assignment into non-row-major array")
    if len(g.blocks) != 1:
        # block array (np.tile / np.concatenate of batches): the same masked or full assignment, block by block
        nb = len(g.blocks)
        if isinstance(k, tuple) and len(k) > 1:
            raise Unsupported("partial assignment into a block array")
        rowsel = k[0] if isinstance(k, tuple) else k
        if _is_mask(rowsel):
            if len(rowsel.blocks) != nb or rowsel.layout != g.layout or rowsel.bax != 0:
                raise Unsupported("mask and block array have different block structures")
            check_same_rows(g.tag, rowsel.tag)
            conds = [asbool(b[()]) for b in rowsel.blocks]
        elif isinstance(rowsel, slice) and rowsel == slice(None):
            conds = [None] * nb
        else:
            raise Unsupported(f"assignment index {k!r} into a block array")
        if isinstance(v, G):
            if len(v.blocks) != nb or v.layout != g.layout or v.bax != 0:
                raise Unsupported("assigning an array with another block structure")
            check_same_rows(g.tag, v.tag)
            vals = list(v.blocks)
        else:
            vals = [_obj(np.asarray(v, dtype=object))] * nb
        for bi in range(nb):
            target = g.blocks[bi]
            newv = np.broadcast_to(vals[bi], np.shape(target)) if np.shape(vals[bi]) != np.shape(target) else vals[bi]
            cond = conds[bi]
            res = vmap((lambda new, old: new) if cond is None else (lambda new, old, cond=cond: z3.If(cond, _sameSort(new, old), old)), newv, target)
            g.blocks[bi] = res if isinstance(res, np.ndarray) else _obj(res)
        return
    if isinstance(k, tuple):
        rowsel, rest = k[0], k[1:]
    else:
        rowsel, rest = k, ()
    if _is_mask(rowsel):
        check_same_rows(g.tag, rowsel.tag)
        cond = asbool(rowsel.blocks[0][()])
        vtag = tag_and(g.tag, cond)
    elif isinstance(rowsel, slice) and rowsel == slice(None):
        cond, vtag = None, g.tag
    else:
        raise Unsupported(f"assignment index {k!r}")
    target = g.blocks[0][rest] if rest else g.blocks[0]
    tshape = np.shape(target)
    if isinstance(v, G):
        if len(v.blocks) != 1:
            raise Unsupported("assigning block array")
        check_same_rows(vtag, v.tag)
        if v.bax != 0:
            raise Unsupported("assigning array whose batch axis is not leading (missing .T?)")
        newv = np.broadcast_to(v.blocks[0], tshape) if v.tshape != tshape else v.blocks[0]
    else:
        newv = np.broadcast_to(_obj(np.asarray(v, dtype=object)) if not z3.is_expr(v) else _obj(np.asarray(v, dtype=object)), tshape)
    if cond is None:
        res = vmap(lambda new, old: new, newv, target)
    else:
        res = vmap(lambda new, old: z3.If(cond, _sameSort(new, old), old), newv, target)
    if rest:
        g.blocks[0][rest] = res[()] if isinstance(res, np.ndarray) and res.ndim == 0 else res
    else:
        g.blocks[0] = res if isinstance(res, np.ndarray) else _obj(res)


def g_transpose(x, order):
    """general axis permutation of a batch array"""
    nd = x.ndim
    if sorted(order) != list(range(nd)):
        raise Unsupported("transpose axes")
    new_bax = order.index(x.bax)
    # permutation of the trailing (non-batch) axes
    old_trailing = [ax for ax in range(nd) if ax != x.bax]
    new_trailing_src = [ax for ax in order if ax != x.bax]
    perm = [old_trailing.index(ax) for ax in new_trailing_src]
    return G([np.transpose(b, perm) if b.ndim else b for b in x.blocks], new_bax, x.tag, x.layout, base=x.base if x.base is not None else x)


def _sameSort(new, old):
    if isb(old) and not isb(new):
        return asbool(new)
    if not isb(old) and isb(new):
        return asreal(new)
    return new


def _kdesc(k):
    if isinstance(k, tuple):
        return ",".join(_kdesc(x) for x in k)
    if isinstance(k, G):
        return "mask"
    return str(k)


def g_reshape(g, shape):
    shape = tuple(shape)
    if any(isinstance(s, SymInt) for s in shape):
        # (n0, n1, 3): back from interleaved blocks to a trailing axis
        if isinstance(shape[0], SymInt) and len(g.blocks) > 1 and g.layout == "inter" and g.bax == 0 and len(g.blocks) == shape[1] \
                and tuple(shape[2:]) == g.tshape:
            return G([np.stack(g.blocks)], 0, g.tag, "stack")
        if isinstance(shape[0], SymInt) and len(g.blocks) == 1 and g.bax == 0 and tuple(shape[1:]) == g.tshape:
            return g
        # (n, 3) -> (n, 3, 1): same batch axis, trailing shape regrouped
        if isinstance(shape[0], SymInt) and g.bax == 0 and not any(isinstance(s_, SymInt) for s_ in shape[1:]) \
                and int(np.prod(shape[1:])) == int(np.prod(g.tshape)):
            return G([b.reshape(tuple(shape[1:])) for b in g.blocks], 0, g.tag, g.layout)
        raise Unsupported(f"reshape{shape}")
    if shape[0] == -1 and g.bax == 0:
        rest = shape[1:]
        if tuple(rest) == g.tshape:
            return g
        # (n, n1, 3, 3) -> (-1, 3, 3): interleaved blocks
        if len(g.tshape) >= 1 and tuple(rest) == g.tshape[1:] and len(g.blocks) == 1:
            return G([g.blocks[0][i] for i in range(g.tshape[0])], 0, g.tag, "inter")
        # (n,) -> (-1, 1) etc.
        if int(np.prod(rest)) == int(np.prod(g.tshape)) and len(g.blocks) >= 1:
            return G([b.reshape(rest) for b in g.blocks], 0, g.tag, g.layout)
    raise Unsupported(f"reshape{shape}")


# ----------------------------------------------------------------------------- np shim
def _un(f):
    def h(x, *a, **k):
        if isinstance(x, G):
            return x.like([vmap(f, b) for b in x.blocks])
        if isinstance(x, (np.ndarray, float, int, list, tuple)):
            raise Unsupported("numeric argument to symbolic ufunc")
        return f(zlift(x))

    return h


class NPG:
    """shim for the name `np` in the field modules"""

    pi = float(np.pi)
    nan = float("nan")
    inf = float("inf")
    ndarray = G
    float64 = float
    newaxis = None
    sqrt = staticmethod(_un(t_sqrt))
    cos = staticmethod(_un(lambda t: uf("cos", t)))
    sin = staticmethod(_un(lambda t: uf("sin", t)))
    tan = staticmethod(_un(lambda t: uf("tan", t)))
    arctan = staticmethod(_un(lambda t: uf("arctan", t)))
    arctanh = staticmethod(_un(lambda t: uf("arctanh", t)))
    log = staticmethod(_un(lambda t: uf("log", t)))
    exp = staticmethod(_un(lambda t: uf("exp", t)))
    sign = staticmethod(_un(t_sign))
    abs = staticmethod(lambda x: abs(x))
    fabs = abs
    absolute = abs

    @staticmethod
    def ones(shape, dtype=float):
        shape = shape if isinstance(shape, tuple) else (shape,)
        if isinstance(shape[0], SymInt):
            return G([_obj(np.ones(shape[1:]))], 0, rows_tag(shape[0]))
        return np.ones(shape, dtype=dtype)

    _uninit = [0]

    @staticmethod
    def empty(shape, dtype=float):
        """uninitialised memory: every element an arbitrary (fresh, unconstrained) real"""
        shape = shape if isinstance(shape, tuple) else (shape,)
        if isinstance(shape[0], SymInt):
            NPG._uninit[0] += 1
            a = np.empty(shape[1:], dtype=object)
            for idx in (np.ndindex(*shape[1:]) if shape[1:] else [()]):
                a[idx] = z3.Real(f"uninit{NPG._uninit[0]}" + "".join("_%d" % i for i in idx))
            return G([a], 0, rows_tag(shape[0]))
        if len(shape) == 2 and isinstance(shape[1], SymInt) and isinstance(shape[0], int):
            # (k, n): k uninitialised batch vectors (unpacked as `a, b, c = np.empty((3, n))`)
            NPG._uninit[0] += 1
            a = np.empty((shape[0],), dtype=object)
            for i in range(shape[0]):
                a[i] = z3.Real(f"uninit{NPG._uninit[0]}_{i}")
            return G([a], 1, rows_tag(shape[1]))
        return np.empty(shape, dtype=dtype)

    @staticmethod
    def nan_to_num(x, copy=True, nan=0.0, posinf=None, neginf=None):
        return x  # over the reals there is nothing to replace (non-finite values are the definedness calculus' business)

    @staticmethod
    def expand_dims(x, axis):
        if not isinstance(x, G):
            return np.expand_dims(x, axis)
        nd = x.ndim + 1
        ax = axis + nd if axis < 0 else axis
        if ax <= x.bax:
            return G([np.expand_dims(b, ax) for b in x.blocks], x.bax + 1, x.tag, x.layout)
        return G([np.expand_dims(b, ax - 1) for b in x.blocks], x.bax, x.tag, x.layout)

    @staticmethod
    def swapaxes(x, a, b):
        if not isinstance(x, G):
            return np.swapaxes(x, a, b)
        nd = x.ndim
        a, b = a % nd, b % nd
        order = list(range(nd))
        order[a], order[b] = order[b], order[a]
        return g_transpose(x, order)

    @staticmethod
    def transpose(x, axes=None):
        if not isinstance(x, G):
            return np.transpose(x, axes)
        return g_transpose(x, list(axes) if axes is not None else list(range(x.ndim))[::-1])

    @staticmethod
    def matmul(a, b):
        """(n, p, q) @ (n, q, r) on the generic row"""
        if not (isinstance(a, G) and isinstance(b, G)) or a.bax != 0 or b.bax != 0 or len(a.tshape) != 2 or len(b.tshape) != 2 or a.tshape[1] != b.tshape[0] \
                or len(a.blocks) != 1 or len(b.blocks) != 1:
            raise Unsupported("matmul pattern")
        A, B = a.blocks[0], b.blocks[0]
        out = np.empty((a.tshape[0], b.tshape[1]), dtype=object)
        for i in range(a.tshape[0]):
            for j in range(b.tshape[1]):
                t = None
                for k in range(a.tshape[1]):
                    u = asreal(A[i, k]) * asreal(B[k, j])
                    t = u if t is None else t + u
                out[i, j] = t
        tag = a.tag if a.tag is not None else b.tag
        return G([out], 0, tag, a.layout)

    @staticmethod
    def vstack(parts):
        return NPG.stack0(list(parts)) if all(isinstance(p, G) and p.tshape == () for p in parts) else NPG.concatenate(parts, axis=0)

    @staticmethod
    def einsum(spec, *ops):
        """general einsum over batch arrays that share the batch letter (explicit index loops on the generic row)"""
        import itertools as _it

        spec = spec.replace(" ", "")
        ins, out = spec.split("->")
        ins = ins.split(",")
        if len(ins) != len(ops) or not all(isinstance(o, G) and len(o.blocks) == 1 for o in ops):
            raise Unsupported(f"einsum {spec}")
        bl = {sub[o.bax] for sub, o in zip(ins, ops)}
        if len(bl) != 1:
            raise Unsupported(f"einsum {spec}: operands disagree on the batch letter")
        bl = bl.pop()
        if bl not in out:
            raise Unsupported(f"einsum {spec}: reduction over the batch axis")
        tag = ops[0].tag
        for o in ops[1:]:
            check_same_rows(tag, o.tag)
        size = {}
        for sub, o in zip(ins, ops):
            tr = [c for c in sub if c != bl]
            if len(sub) != o.ndim:
                raise Unsupported(f"einsum {spec}: rank")
            for c, n_ in zip(tr, o.tshape):
                if size.setdefault(c, n_) != n_:
                    raise Unsupported(f"einsum {spec}: size mismatch")
        out_tr = [c for c in out if c != bl]
        sum_l = [c for c in size if c not in out_tr]
        res = np.empty(tuple(size[c] for c in out_tr), dtype=object)
        for oi in (_it.product(*[range(size[c]) for c in out_tr]) if out_tr else [()]):
            env = dict(zip(out_tr, oi))
            acc = None
            for si in (_it.product(*[range(size[c]) for c in sum_l]) if sum_l else [()]):
                env.update(zip(sum_l, si))
                term = None
                for sub, o in zip(ins, ops):
                    idx = tuple(env[c] for c in sub if c != bl)
                    v = asreal(o.blocks[0][idx])
                    term = v if term is None else term * v
                acc = term if acc is None else acc + term
            res[oi] = acc
        return G([res], out.index(bl), tag)

    @staticmethod
    def hypot(a, b):
        return NPG.sqrt(a * a + b * b)

    @staticmethod
    def round(x, decimals=0, out=None):
        # absolute quantisation: uninterpreted; the dimension calculus rejects it on dimensioned quantities
        return _un(lambda t: uf(f"round{int(decimals)}", t))(x)

    around = round

    @staticmethod
    def square(x):
        return x * x

    @staticmethod
    def maximum(a, b):
        f = lambda x, y: z3.If(asreal(x) >= asreal(y), asreal(x), asreal(y))
        return a._bin(b, f) if isinstance(a, G) else b._bin(a, f, True)

    @staticmethod
    def minimum(a, b):
        f = lambda x, y: z3.If(asreal(x) <= asreal(y), asreal(x), asreal(y))
        return a._bin(b, f) if isinstance(a, G) else b._bin(a, f, True)

    @staticmethod
    def errstate(**kw):
        return np.errstate(**kw)

    @staticmethod
    def arctan2(y, x):
        if isinstance(y, G):
            return y._bin(x, lambda a, b: uf("arctan2", a, b))
        if isinstance(x, G):
            return x._bin(y, lambda a, b: uf("arctan2", a, b), True)
        raise Unsupported("arctan2 of constants")

    @staticmethod
    def isclose(a, b, rtol=1e-5, atol=1e-8):
        f = lambda x, y: zabs(asreal(x) - asreal(y)) <= zlift(atol) + zlift(rtol) * zabs(y)
        if isinstance(a, G):
            return a._bin(b, f)
        if isinstance(b, G):
            return b._bin(a, f, True)
        raise Unsupported("isclose of constants")

    @staticmethod
    def isnan(x):
        # inputs are finite reals by precondition (documented NaN rows of Polyline are handled by the caller's masks)
        if isinstance(x, G):
            return x.like([vmap(lambda t: z3.BoolVal(False), b) for b in x.blocks])
        return np.isnan(x)

    @staticmethod
    def logical_and(a, b):
        return a & b

    @staticmethod
    def logical_or(a, b):
        return a | b

    @staticmethod
    def logical_not(a):
        return ~a

    @staticmethod
    def any(m, axis=None):
        if isinstance(m, G) and axis is not None:
            return m.any(axis=axis)
        return g_any(m)

    @staticmethod
    def all(m, axis=None):
        if isinstance(m, G) and axis is not None:
            return m.all(axis=axis)
        return g_all(m)

    @staticmethod
    def sum(x, axis=None):
        if isinstance(x, G):
            return x.sum(axis=axis)
        return np.sum(x, axis=axis)

    @staticmethod
    def copy(x):
        return x.copy()

    @staticmethod
    def zeros_like(x, dtype=None):
        if isinstance(x, G):
            return G([vmap(lambda t: z3.RealVal(0), b) for b in x.blocks], x.bax, x.tag, x.layout)
        return np.zeros_like(x, dtype=dtype)

    @staticmethod
    def zeros(shape, dtype=float):
        shape = shape if isinstance(shape, tuple) else (shape,)
        if isinstance(shape[0], SymInt):
            return G([_obj(np.zeros(shape[1:]))], 0, rows_tag(shape[0]))
        return np.zeros(shape, dtype=dtype)

    @staticmethod
    def ones_like(x, dtype=None):
        return G([vmap(lambda t: z3.RealVal(1), b) for b in x.blocks], x.bax, x.tag, x.layout)

    @staticmethod
    def array(x, dtype=None, **kw):
        if isinstance(x, G):
            return x.copy()
        if isinstance(x, (list, tuple)) and x and all(isinstance(e, G) for e in x):
            return NPG.stack0(x)
        return np.array(x, dtype=dtype, **kw)

    @staticmethod
    def stack0(xs):
        """np.array([col1, col2, ...]) / concatenate(((c1,),(c2,),...), axis=0): new leading axis"""
        tag = xs[0].tag
        for e in xs[1:]:
            check_same_rows(tag, e.tag)
        if any(len(e.blocks) != 1 or e.bax != xs[0].bax or e.tshape != xs[0].tshape for e in xs):
            raise Unsupported("stack of differently shaped arrays")
        return G([np.stack([e.blocks[0] for e in xs])], xs[0].bax + 1, tag)

    @staticmethod
    def concatenate(parts, axis=0):
        parts = list(parts)
        if all(isinstance(p, tuple) and len(p) == 1 and isinstance(p[0], G) for p in parts) and axis == 0:
            return NPG.stack0([p[0] for p in parts])
        if all(isinstance(p, G) for p in parts):
            if axis == 0 and all(p.bax == 0 for p in parts):
                tag = parts[0].tag
                for p in parts[1:]:
                    check_same_rows(tag, p.tag)
                return G([b for p in parts for b in p.blocks], 0, tag, "stack")
            if all(len(p.blocks) == 1 for p in parts):
                ax = parts[0]._axis(axis)
                tag = parts[0].tag
                for p in parts[1:]:
                    check_same_rows(tag, p.tag)
                return G([np.concatenate([p.blocks[0] for p in parts], axis=ax)], parts[0].bax, tag)
        raise Unsupported("concatenate")

    class _C:
        def __getitem__(self, k):
            k = k if isinstance(k, tuple) else (k,)
            if all(isinstance(e, G) and e.tshape == () and e.bax == 0 for e in k):
                tag = k[0].tag
                for e in k[1:]:
                    check_same_rows(tag, e.tag)
                return G([np.stack([e.blocks[0] for e in k], axis=-1)], 0, tag)
            raise Unsupported("np.c_")

    c_ = _C()

    @staticmethod
    def tile(x, reps):
        if isinstance(x, G) and x.bax == 0 and len(x.blocks) == 1 and isinstance(reps, tuple) and reps[1:] == (1,) * (x.ndim - 1):
            return G([x.blocks[0].copy() for _ in range(reps[0])], 0, x.tag, "stack")
        raise Unsupported("np.tile")

    @staticmethod
    def repeat(x, n, axis=None):
        if isinstance(x, G) and x.bax == 0 and axis == 0 and isinstance(n, (int, np.integer)) and len(x.blocks) == 1:
            return G([x.blocks[0].copy() for _ in range(int(n))], 0, x.tag, "inter")
        raise Unsupported("np.repeat")

    @staticmethod
    def reshape(x, shape):
        return g_reshape(x, shape)

    @staticmethod
    def cross(a, b, axis=-1):
        if not (isinstance(a, G) and isinstance(b, G)) or a.tshape != (3,) or b.tshape != (3,) or a.bax != 0 or b.bax != 0:
            raise Unsupported("np.cross")
        tag = merge_tags(a.tag, b.tag)
        outs = []
        for x, y in zip(a.blocks, b.blocks):
            x, y = [asreal(t) for t in x], [asreal(t) for t in y]
            outs.append(_obj_terms([x[1] * y[2] - x[2] * y[1], x[2] * y[0] - x[0] * y[2], x[0] * y[1] - x[1] * y[0]]))
        return G(outs, 0, tag, a.layout)

    @staticmethod
    def where(c, a, b):
        if not isinstance(c, G):
            raise Unsupported("np.where condition")
        pair = c._bin(a, lambda cc, x: _Pair(asbool(cc), x))
        return pair._bin(b, lambda pr, y: z3.If(pr.c, asreal(zlift(pr.x)), asreal(zlift(y))))

    class linalg:
        @staticmethod
        def norm(x, axis=None):
            if isinstance(x, G) and axis is not None:
                sq = (x * x).sum(axis=axis)
                return NPG.sqrt(sq)
            raise Unsupported("linalg.norm")

        @staticmethod
        def inv(x):
            """inverse of the trailing (3,3) matrices of a batch: adjugate / determinant (rational terms per row)"""
            if not isinstance(x, G) or x.bax != 0 or x.tshape != (3, 3):
                raise Unsupported("linalg.inv of this shape")

            def iv(b):
                m = [[asreal(b[i, j]) for j in range(3)] for i in range(3)]
                cof = lambda i, j: m[(i + 1) % 3][(j + 1) % 3] * m[(i + 2) % 3][(j + 2) % 3] - m[(i + 1) % 3][(j + 2) % 3] * m[(i + 2) % 3][(j + 1) % 3]
                det = m[0][0] * cof(0, 0) + m[0][1] * cof(0, 1) + m[0][2] * cof(0, 2)
                out = np.empty((3, 3), dtype=object)
                for i in range(3):
                    for j in range(3):
                        out[i, j] = cof(j, i) / det  # adjugate = transposed cofactor matrix (cyclic cofactors carry their sign)
                return out

            return G([iv(b) for b in x.blocks], 0, x.tag, x.layout)

        @staticmethod
        def det(x):
            """determinant of the trailing (3,3) / (2,2) matrices of a batch: cofactor expansion (a polynomial term per row)"""
            if not isinstance(x, G) or x.bax != 0 or x.tshape not in ((3, 3), (2, 2)):
                raise Unsupported("linalg.det of this shape")

            def d(b):
                m = [[asreal(b[i, j]) for j in range(b.shape[1])] for i in range(b.shape[0])]
                if len(m) == 2:
                    t = m[0][0] * m[1][1] - m[0][1] * m[1][0]
                else:
                    t = (m[0][0] * (m[1][1] * m[2][2] - m[1][2] * m[2][1]) - m[0][1] * (m[1][0] * m[2][2] - m[1][2] * m[2][0])
                         + m[0][2] * (m[1][0] * m[2][1] - m[1][1] * m[2][0]))
                out = np.empty((), dtype=object)
                out[()] = t
                return out

            return G([d(b) for b in x.blocks], 0, x.tag, x.layout)



def _obj_terms(ts):
    out = np.empty(len(ts), dtype=object)
    for i, t in enumerate(ts):
        out[i] = t
    return out


# ----------------------------------------------------------------------------- construction helpers
def sym_rows(name, tshape, tag=None, nblocks=1):
    """fresh symbolic batch array (n, *tshape)"""
    blocks = []
    for b in range(nblocks):
        a = np.empty(tshape, dtype=object)
        for idx in np.ndindex(*tshape) if tshape else [()]:
            a[idx] = z3.Real(f"{name}{'_b%d' % b if nblocks > 1 else ''}{''.join('_%d' % i for i in idx)}")
        blocks.append(a)
    g = G(blocks, 0, tag)
    g.is_argument = True
    return g


def core_stub(name, nout, out_T=False):
    """contract stub for a core field function: a *row-wise* function of its row arguments
    (row-wise-ness is C06's obligation for the core; the values are arbitrary)"""

    def stub(*args, **kwargs):
        allargs = list(args) + [kwargs[k] for k in sorted(kwargs)]
        gs = [a for a in allargs if isinstance(a, G)]
        if not gs:
            raise Unsupported("core stub without batch arguments")
        tag = gs[0].tag
        nb = len(gs[0].blocks)
        lay = gs[0].layout
        for a in gs[1:]:
            check_same_rows(tag, a.tag)
            if len(a.blocks) != nb or a.bax != 0:
                raise Unsupported("core stub: argument block structure / axis")
        outs = []
        for bi in range(nb):
            terms = []
            for a in allargs:
                if isinstance(a, G):
                    terms += [asreal(t) for t in a.blocks[bi].flat]
                elif isinstance(a, str):
                    name_ = name + "_" + a
                else:
                    raise Unsupported("core stub: non-batch argument")
            outs.append(_obj_terms([uf(f"{name}_{j}", *terms) for j in range(nout)]))
        g = G(outs, 0, tag, lay)
        return g.T if out_T else g

    stub.__name__ = name
    return stub
