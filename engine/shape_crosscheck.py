"""Cross-check of the symbolic-shape shim (engine/shape.py) against real NumPy, run as part of every check that uses it.

Each program (the index plumbing patterns of getBH_level2 / get_src_dict / tile_group_property) is run
  (a) on SA arrays with SYMBOLIC sizes, once; the result is then evaluated at every index for several concrete size assignments;
  (b) on real NumPy object arrays of the same concrete sizes whose entries are (row term, component) pairs.
Shapes and every element must agree.  A disagreement means the engine is unsound: crash (exit 3), never a verdict.
"""
import itertools

import numpy as np
import z3

from engine import shape as S
from engine.idx import Vec, vadd, vsub
from engine.symex import Ctx


class E:
    """element of the NumPy-side object arrays: component j of a row term"""

    __slots__ = ("t", "j")

    def __init__(self, t, j):
        self.t, self.j = t, j

    def __sub__(self, o):
        assert self.j == o.j
        return E(vsub(self.t, o.t), self.j)

    def __add__(self, o):
        assert self.j == o.j
        return E(vadd(self.t, o.t), self.j)

    def key(self):
        return (str(z3.simplify(self.t)), self.j)


def base_sym(name, dims_sizes, width=3):
    f = z3.Function("f_" + name, *([z3.IntSort()] * len(dims_sizes)), Vec)
    atoms = [S.Ax(s) for s in dims_sizes]
    return S.SA([[a] for a in atoms], (width,), "vec", lambda env, atoms=atoms: f(*[env[a.id] for a in atoms])), f


def base_np(f, sizes, width=3):
    out = np.empty(tuple(sizes) + (width,), dtype=object)
    for idx in itertools.product(*[range(n) for n in sizes]):
        for j in range(width):
            out[idx + (j,)] = E(f(*[z3.IntVal(i) for i in idx]), j)
    return out


def eval_sa(a, val):
    """concrete object ndarray denoted by the SA `a` under the size assignment `val` (name -> int)"""
    def pv(p):
        tot = 0
        for k, c in p.t.items():
            m = c
            for s in k:
                m *= val[s]
            tot += m
        return tot

    dsz = [[pv(x.size) for x in d] for d in a.dims]
    shape = tuple(int(np.prod(s)) if s else 1 for s in dsz)
    w = a.cell
    out = np.empty(shape + tuple(w), dtype=object)
    sub = [(z3.Int(n), z3.IntVal(v)) for n, v in val.items()]
    for idx in itertools.product(*[range(n) for n in shape]):
        env = {}
        for d, sizes, i in zip(a.dims, dsz, idx):
            rem = i
            for x, n in zip(reversed(d), reversed(sizes)):
                env[x.id] = z3.IntVal(rem % n)
                rem //= n
        t = z3.simplify(z3.substitute(a.elem(env), *sub))
        for cj in itertools.product(*[range(c) for c in w]):
            out[idx + cj] = (str(t), cj[-1] if cj else 0)
    return out


def programs():
    P = []

    def add(name, ins, sizes, f):
        P.append((name, ins, sizes, f))

    # ins: name -> tuple of size expressions (strings: symbols; ints)
    add("src-dict position tiling", dict(p=(2, "M")), ("M", "K"),
        lambda np_, sz, p: np_.tile(p, sz["K"]).reshape((-1, 3)))
    add("tile with tuple reps", dict(p=("M", "K")), ("M", "K"),
        lambda np_, sz, p: np_.tile(p.reshape((-1, 3)), (3, 1)))
    add("repeat then tile", dict(q=("M",)), ("M", "K"),
        lambda np_, sz, q: np_.tile(np_.repeat(q, sz["K"], axis=0), (2, 1)))
    add("concatenate pixels, flatten", dict(a=("M", "K"), b=("M", "J")), ("M", "K", "J"),
        lambda np_, sz, a, b: np_.concatenate([a, b], axis=1).reshape((-1, 3)))
    add("observers minus positions", dict(o=("M", "K"), p=(2, "M")), ("M", "K"),
        lambda np_, sz, o, p: np_.tile(o.reshape((-1, 3)), (2, 1)) - np_.tile(p, sz["K"]).reshape((-1, 3)))
    add("repeat property vs rows", dict(o=("M", "K"), c=(2,)), ("M", "K"),
        lambda np_, sz, o, c: np_.tile(o.reshape((-1, 3)), (2, 1)) - np_.repeat(c, sz["M"] * sz["K"], axis=0))
    add("allocate, assign rows, slice-assign, regroup", dict(x=(3, "M", "K")), ("M", "K"), _prog_alloc)
    add("slice sum and delete", dict(x=(4, "M", "K")), ("M", "K"), _prog_sumdel)
    add("split, expand, concatenate", dict(x=(2, "M", "K"), y=(2, "M", "J")), ("M", "K", "J"), _prog_split)
    add("two sensors same pixels regroup", dict(a=("M", "K"), b=("M", "K")), ("M", "K"), _prog_regroup)
    add("pad path with last entry", dict(p=("N",)), ("N", "T"),
        lambda np_, sz, p: np_.concatenate((p, np_.tile(p[-1], (sz["T"], 1)))))
    return P


def _prog_alloc(np_, sz, x):
    M, K = sz["M"], sz["K"]
    flat = x.reshape((-1, 3))
    g = flat.reshape((3, M, K, 3))
    B = np_.empty((3, M, K, 3))
    for i, j in enumerate((2, 0, 1)):
        B[j] = g[i]
    part = B[:, :, 0:K]
    B[:, :, 0:K] = np_.reshape(np_.reshape(part, (-1, 3)), part.shape)
    return B.reshape((3, M, 1, K, 3))


def _prog_sumdel(np_, sz, x):
    B = np_.array(x)
    B[1] = np_.sum(B[1:3], axis=0)
    B = np_.delete(B, np_.s_[2:3], 0)
    return np_.sum(B, axis=0, keepdims=True)


def _prog_split(np_, sz, x, y):
    B = np_.concatenate([x, y], axis=2)
    parts = np_.split(B, [sz["K"]], axis=2)
    agg = [np_.expand_dims(p[:, :, 0], axis=2) for p in parts]
    return np_.concatenate(agg, axis=2)


def _prog_regroup(np_, sz, a, b):
    M, K = sz["M"], sz["K"]
    o = np_.concatenate([a, b], axis=1).reshape((-1, 3))
    B = np_.empty((1, M, 2 * K, 3))
    B[0] = o.reshape((1, M, 2 * K, 3))[0]
    return B.reshape((1, M, 2, K, 3))


class _NPreal:
    """real NumPy with np.empty allocating object arrays"""

    def __getattr__(self, n):
        return getattr(np, n)

    @staticmethod
    def empty(shape, dtype=None):
        out = np.empty(shape, dtype=object)
        for idx in np.ndindex(*shape):
            out[idx] = E(S.UNINIT, idx[-1])
        return out


def run(assignments=((1, 1, 1, 1, 1), (2, 3, 2, 2, 2), (3, 1, 2, 1, 3), (1, 2, 3, 4, 1))):
    bad, n = [], 0
    names = ("M", "K", "J", "N", "T")
    for name, ins, syms, prog in programs():
        Ctx.cur = Ctx()
        Ctx.cur.pc.extend([z3.Int(s) >= 1 for s in names])
        try:
            sz_sym = {s: S.mk(S.Poly.sym(s)) for s in names}
            sargs, funs = {}, {}
            for k, dims in ins.items():
                sargs[k], funs[k] = base_sym(k, [S.Poly.sym(d) if isinstance(d, str) else d for d in dims])
            res = prog(S.NPS(), sz_sym, **sargs)
        except Exception as e:  # pylint: disable=broad-except
            bad.append(f"{name}: the model raised {type(e).__name__}: {e}")
            continue
        for asg in assignments:
            val = dict(zip(names, asg))
            n += 1
            nargs = {k: base_np(funs[k], [val[d] if isinstance(d, str) else d for d in dims]) for k, dims in ins.items()}
            ref = prog(_NPreal(), val, **nargs)
            got = eval_sa(res, val)
            if got.shape != ref.shape:
                bad.append(f"{name}: model shape {got.shape} != NumPy {ref.shape} for {val}")
                break
            diff = [idx for idx in np.ndindex(*ref.shape) if got[idx] != ref[idx].key()]
            if diff:
                bad.append(f"{name}: element {diff[0]} differs for {val}: model {got[diff[0]]} NumPy {ref[diff[0]].key()}")
                break
    Ctx.cur = None
    return n, bad


def attach(rep):
    n, bad = run()
    rep.extra["symbolic_shape_shim_crosscheck"] = {"programs": len(programs()), "evaluations": n, "disagreements": len(bad),
                                                    "what": "index plumbing programs run with symbolic sizes on the shim and with concrete sizes on real NumPy; shapes and all elements must agree"}
    if bad:
        raise RuntimeError("symbolic-shape shim disagrees with NumPy: " + "; ".join(bad[:3]))


if __name__ == "__main__":
    n, bad = run()
    print(n, "evaluations")
    for b in bad:
        print("DISAGREE", b)
