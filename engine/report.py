"""Evidence / verdict bookkeeping shared by all checks."""
import json
import os
import sys
import time
import traceback

HERE = os.path.dirname(os.path.dirname(os.path.abspath(__file__)))
# experiments on changed code (mutants, seeded changes) must not overwrite the evidence of the unchanged tree: they set VERIF_EVIDENCE_DIR to a scratch directory
EVID = os.environ.get("VERIF_EVIDENCE_DIR") or os.path.join(HERE, "evidence")
REPLAYS = os.path.join(HERE, "replays")
KNOWN_FILE = os.path.join(HERE, "known_findings.json")

TRUSTED_BASE = [
    "CPython 3.12 interpreting the re-bound real code objects (types.FunctionType(f.__code__, shim_globals))",
    "shim models of NumPy/scipy primitives (cross-checked against real NumPy/scipy on every run)",
    "float64 treated as mathematical reals; Python int is Z",
    "z3 5.1 (python API) and cvc5 1.0.3 soundness",
]


def load_known():
    with open(KNOWN_FILE, encoding="utf8") as f:
        return json.load(f)


class Report:
    def __init__(self, pid, tier, seed, level, checker_cmd=None):
        self.pid, self.tier, self.seed, self.level = pid, tier, int(seed), level
        self.t0 = time.time()
        self.functions = {}
        self.obligations = []  # dicts: name, function, kind, status, backend, time_s
        self.assumptions = []
        self.assumed_contracts = []
        self.axioms = []
        self.standins = []
        self.violations = []
        self.known_printed = []
        self.samples = []
        self.paths = 0
        self.undecided = []
        self.notes = []
        self.extra = {}
        self.checker_cmd = checker_cmd or f"./vv check {pid} --tier {tier}"
        self.trusted = list(TRUSTED_BASE)
        self.explanation = ""

    # ---- registration -------------------------------------------------
    def function(self, desc):
        self.functions[desc["function"]] = desc

    def assume(self, text):
        if text not in self.assumptions:
            self.assumptions.append(text)

    def assumed_contract(self, text):
        if text not in self.assumed_contracts:
            self.assumed_contracts.append(text)

    def axiom(self, text):
        if text not in self.axioms:
            self.axioms.append(text)

    def obligation(self, name, res, function="", kind="post", sample=None):
        rec = {
            "name": name,
            "function": function,
            "kind": kind,
            "status": res["status"],
            "backend": res.get("backend", ""),
            "time_s": round(res.get("time_s", 0.0), 4),
        }
        self.obligations.append(rec)
        if sample and len(self.samples) < 6:
            self.samples.append({"obligation": name, "smt2": sample})
        if res["status"] == "unknown":
            self.undecided.append(name + (" :: " + str(res.get("reason", "")) if res.get("reason") else ""))
        return rec

    def standin(self, name, bound, evaluations, distinct_nontrivial, rule, samples, failures=0, exhaustive=False):
        self.standins.append(
            {
                "name": name,
                "bound": bound,
                "evaluations": int(evaluations),
                "distinct_nontrivial": int(distinct_nontrivial),
                "rule": rule,
                "samples": samples[:4],
                "failures": int(failures),
                "exhaustive": bool(exhaustive),
                "label": "BOUNDED stand-in: not a proof, never counted in obligations/discharged",
            }
        )

    # ---- verdicts -----------------------------------------------------
    def violation(self, obligation, payload, found_input=True):
        """payload: dict written to the replay file (must contain 'script' when found_input)"""
        os.makedirs(REPLAYS, exist_ok=True)
        safe = "".join(c if c.isalnum() or c in "-_." else "_" for c in obligation)[:100]
        path = os.path.join(REPLAYS, f"{self.pid}-{safe}.json")
        payload = dict(payload)
        payload.update({"property": self.pid, "obligation": obligation, "failing_input_found": bool(found_input)})
        with open(path, "w", encoding="utf8") as f:
            json.dump(payload, f, indent=1, default=str)
        line = f"VIOLATION property={self.pid} replay={path}"
        if not found_input:
            line += " no-failing-input-found"
        self.violations.append({"obligation": obligation, "replay": path, "line": line})
        print(f"  failed obligation: {obligation}")
        print(line, flush=True)

    def known_finding(self, entry):
        line = f"KNOWN-FINDING: property={self.pid} {entry['id']}: {entry['what']}"
        self.known_printed.append(entry["id"])
        print(line, flush=True)

    # ---- finish -------------------------------------------------------
    def finish(self):
        kf = [o for o in self.obligations if o["status"] == "known-finding"]
        self.obligations = [o for o in self.obligations if o["status"] != "known-finding"]
        nob = len(self.obligations)
        ndis = sum(1 for o in self.obligations if o["status"] == "discharged")
        if os.environ.get("VERIF_DUMP_OBLIGATIONS"):  # debugging aid: the names of all obligations of this run, one per line
            with open(os.environ["VERIF_DUMP_OBLIGATIONS"], "w", encoding="utf8") as f:
                f.write("\n".join(f"{o['name']}\t{o['status']}" for o in self.obligations) + "\n")
        by_backend = {}
        for o in self.obligations:
            if o["status"] == "discharged":
                by_backend[o["backend"]] = by_backend.get(o["backend"], 0) + 1
        by_function = {}
        for o in self.obligations:
            d = by_function.setdefault(o["function"] or "-", {"obligations": 0, "discharged": 0})
            d["obligations"] += 1
            d["discharged"] += o["status"] == "discharged"
        ev_eval = sum(s["evaluations"] for s in self.standins)
        ev_dist = sum(s["distinct_nontrivial"] for s in self.standins)
        cov = {
            "obligations": nob,
            "discharged": ndis,
            "checker_cmd": self.checker_cmd,
            "trusted_base": self.trusted,
            "functions_under_contract": sorted(self.functions.values(), key=lambda d: d["function"]),
            "obligations_by_function": by_function,
            "by_backend": by_backend,
            "solver_time_s": round(sum(o["time_s"] for o in self.obligations), 3),
            "paths_explored": self.paths,
            "assumed_contracts": self.assumed_contracts,
            "axioms": self.axioms,
            "undecided": self.undecided,
            "bounded_standins": self.standins,
            "known_findings_reported": self.known_printed,
            "known_finding_obligations_not_counted": [o["name"] for o in kf],
            "samples": (self.samples + [{"standin": s["name"], "cases": s["samples"]} for s in self.standins])[:10]
            or [{"note": "no sample recorded"}],
            "explanation": self.explanation,
            "notes": self.notes,
        }
        if self.standins:
            cov["evaluations"] = max(ev_eval, 1)
            cov["distinct_nontrivial"] = ev_dist
            cov["rule"] = " | ".join(f"{s['name']}: {s['rule']}" for s in self.standins)
            cov["exhaustive"] = all(s["exhaustive"] for s in self.standins)
        cov.update(self.extra)
        ev = {
            "property_id": self.pid,
            "tier": self.tier,
            "seed": self.seed,
            "level": self.level,
            "coverage": cov,
            "assumptions": self.assumptions + ["assumed contract: " + a for a in self.assumed_contracts],
            "wall_s": round(time.time() - self.t0, 2),
            "violations": len(self.violations),
        }
        os.makedirs(EVID, exist_ok=True)
        path = os.path.join(EVID, f"{self.pid}.json")
        with open(path, "w", encoding="utf8") as f:
            json.dump(ev, f, indent=1, default=str)
        _validate(ev)
        print(
            f"[{self.pid}] tier={self.tier} functions={len(self.functions)} obligations={nob} discharged={ndis} "
            f"undecided={len(self.undecided)} standin_evals={ev_eval} violations={len(self.violations)} "
            f"known={len(self.known_printed)} wall={ev['wall_s']}s"
        )
        if self.violations:
            return 1
        if self.undecided:
            # obligations the solvers / the shim could not decide (e.g. the code left the verified subset after a refactoring): this is NOT a
            # verdict about the property. No violation was found by anything that did decide (incl. the bounded stand-ins on the real code),
            # so the check does not raise an alarm; the evidence file records discharged < obligations and lists the undecided ones.
            for u in self.undecided[:10]:
                print("UNDECIDED", self.pid, u)
            print(f"NOTE: {len(self.undecided)} obligation(s) undecided; no violation found by the decided obligations and the bounded stand-ins")
            return 0 if os.environ.get("VERIF_UNDECIDED_EXIT2") != "1" else 2
        if self.level == "proof" and nob == 0:
            print("CRASH: zero obligations generated (vacuity guard)")
            return 3
        return 0


def _validate(ev):
    try:
        import jsonschema

        with open("/root/.vp/EVIDENCE.schema.json", encoding="utf8") as f:
            schema = json.load(f)
        jsonschema.validate(ev, schema)
    except FileNotFoundError:
        pass


def run_check(main, pid, tier, seed):
    """wrap a check's main(): crashes -> exit 3 (never a violation)"""
    try:
        return main(tier, seed)
    except SystemExit:
        raise
    except BaseException:  # pylint: disable=broad-except
        traceback.print_exc()
        print(f"CRASH in check {pid} (exit 3: not a verdict)", file=sys.stderr)
        return 3
