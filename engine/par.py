"""coarse-grained parallelism: each scenario runs in a forked worker with its own sub-report"""
import concurrent.futures as cf
import multiprocessing as mp
import os

from engine.report import Report

_TASKS = None


def _run(i):
    name, fn, pid, tier, seed = _TASKS[i]
    sub = Report(pid, tier, seed, "proof")
    fails = fn(sub)
    return {
        "name": name,
        "obligations": sub.obligations,
        "samples": sub.samples,
        "paths": sub.paths,
        "undecided": sub.undecided,
        "assumptions": sub.assumptions,
        "assumed_contracts": sub.assumed_contracts,
        "axioms": sub.axioms,
        "functions": sub.functions,
        "notes": sub.notes,
        "standins": sub.standins,
        "fails": fails,
    }


def run_parallel(rep, tasks, workers=None):
    """tasks: list of (name, fn(sub_report) -> picklable list of failures); merged into rep in task order"""
    global _TASKS
    workers = workers or min(int(os.environ.get("VERIF_WORKERS", "14")), os.cpu_count() or 4)
    _TASKS = [(n, f, rep.pid, rep.tier, rep.seed) for n, f in tasks]
    fails = []
    if workers <= 1 or len(tasks) <= 1:
        results = [_run(i) for i in range(len(tasks))]
    else:
        with cf.ProcessPoolExecutor(max_workers=workers, mp_context=mp.get_context("fork")) as ex:
            results = list(ex.map(_run, range(len(tasks))))
    for r in results:
        rep.obligations += r["obligations"]
        for s in r["samples"]:
            if len(rep.samples) < 6:
                rep.samples.append(s)
        rep.paths += r["paths"]
        rep.undecided += r["undecided"]
        for a in r["assumptions"]:
            rep.assume(a)
        for a in r["assumed_contracts"]:
            rep.assumed_contract(a)
        for a in r["axioms"]:
            rep.axiom(a)
        rep.functions.update(r["functions"])
        rep.notes += r["notes"]
        rep.standins += r["standins"]
        fails += r["fails"]
    return fails
