"""Canonical normal form for the theory of a group (Rot) acting linearly on a vector space (Vec).

Rot terms  -> free-group reduced words over opaque atoms;
Vec terms  -> linear forms  {(word, atom): coefficient}.
Two terms with the same normal form are equal in every model of the axioms
(group laws, act is a linear group action) — so NF-equality is a sound proof of an
equation; for terms whose atoms are distinct free constants it is also complete
(the free model separates them), i.e. NF-inequality then *refutes* the equation.
"""
from fractions import Fraction

import z3


def wmul(w1, w2):
    w = list(w1)
    for g in w2:
        if w and w[-1][0] == g[0] and w[-1][1] == -g[1]:
            w.pop()
        else:
            w.append(g)
    return tuple(w)


def winv(w):
    return tuple((g, -e) for g, e in reversed(w))


def rot_nf(t):
    d = t.decl().name()
    if d == "RID" and t.num_args() == 0:
        return ()
    if d == "mul":
        return wmul(rot_nf(t.arg(0)), rot_nf(t.arg(1)))
    if d == "inv":
        return winv(rot_nf(t.arg(0)))
    return ((t.sexpr(), 1),)


def _add(a, b, s=1):
    out = dict(a)
    for k, v in b.items():
        out[k] = out.get(k, 0) + s * v
        if out[k] == 0:
            del out[k]
    return out


def vec_nf(t):
    d = t.decl().name()
    if d == "VZERO" and t.num_args() == 0:
        return {}
    if d == "vadd":
        return _add(vec_nf(t.arg(0)), vec_nf(t.arg(1)))
    if d == "vsub":
        return _add(vec_nf(t.arg(0)), vec_nf(t.arg(1)), -1)
    if d == "act":
        w = rot_nf(t.arg(0))
        return {(wmul(w, ww), b): c for (ww, b), c in vec_nf(t.arg(1)).items()}
    if t.num_args() > 0 and t.decl().kind() == z3.Z3_OP_UNINTERPRETED:
        # uninterpreted function application: an atom named by the function and the normal forms of its arguments
        key = (d, tuple(nf(a) if a.sort().name() in ("Vec", "Rot") else a.sexpr() for a in t.children()))
        return {((), repr(key)): Fraction(1)}
    return {((), t.sexpr()): Fraction(1)}


def nf(t):
    s = t.sort().name()
    if s == "Rot":
        return ("rot", rot_nf(t))
    if s == "Vec":
        return ("vec", tuple(sorted(vec_nf(t).items(), key=repr)))
    raise ValueError("sort " + s)


def prove_eq(lhs, rhs):
    """-> 'discharged' if NF equal, else 'refuted-in-free-model'"""
    return "discharged" if nf(lhs) == nf(rhs) else "refuted"
