"""Discharging obligations: z3 (python API) first, cvc5 for what z3 leaves open.

An obligation is  (assumptions) => goal ; we send assumptions ∧ ¬goal and expect unsat.
Statuses: "discharged" (unsat), "refuted" (sat, with model), "unknown".
Solver calls that may ignore their time-out (quantified axioms) are run in a
killable forked subprocess.
"""
import multiprocessing as mp
import os
import subprocess
import tempfile
import time

import z3

Z3_TIMEOUT_MS = int(os.environ.get("VERIF_Z3_TIMEOUT_MS", "30000"))
CVC5_TIMEOUT_S = int(os.environ.get("VERIF_CVC5_TIMEOUT_S", "60"))

STATS = {"z3": 0, "cvc5": 0, "z3_time": 0.0, "cvc5_time": 0.0}
RECHECK_EVERY = 1  # thorough tier: every n-th z3-discharged VC is re-checked by cvc5 (bulk generators set n > 1 and say so in the evidence)
_recheck_ctr = [0]


def _smt2(assumptions, goal, logic=None):
    s = z3.Solver()
    s.add(*assumptions)
    s.add(z3.Not(goal))
    txt = s.to_smt2()
    if logic:
        txt = f"(set-logic {logic})\n" + txt
    return txt


def cvc5_check(smt2_text, timeout_s=CVC5_TIMEOUT_S, extra=()):
    """returns 'unsat' | 'sat' | 'unknown' using the cvc5 binary (separate process, hard time-out)"""
    with tempfile.NamedTemporaryFile("w", suffix=".smt2", delete=False, dir=os.environ.get("VERIF_SCRATCH") or None) as f:
        f.write(smt2_text)
        name = f.name
    try:
        cmd = ["/usr/bin/cvc5", "--lang=smt2", f"--tlimit={timeout_s * 1000}", *extra, name]
        try:
            out = subprocess.run(cmd, capture_output=True, text=True, timeout=timeout_s + 10, check=False).stdout
        except subprocess.TimeoutExpired:
            return "unknown"
        for line in out.splitlines():
            line = line.strip()
            if line in ("unsat", "sat", "unknown"):
                return line
        return "unknown"
    finally:
        os.unlink(name)


def discharge(assumptions, goal, timeout_ms=None, use_cvc5=True, want_model=True):
    """-> dict(status, backend, time_s, model)"""
    t0 = time.time()
    s = z3.Solver()
    s.set("timeout", timeout_ms or Z3_TIMEOUT_MS)
    s.add(*assumptions)
    s.add(z3.Not(goal))
    r = s.check()
    dt = time.time() - t0
    STATS["z3"] += 1
    STATS["z3_time"] += dt
    if r == z3.unsat:
        _recheck_ctr[0] += 1
        if os.environ.get("VERIF_TIER") == "thorough" and os.environ.get("VERIF_NO_CVC5_RECHECK") != "1" and _recheck_ctr[0] % RECHECK_EVERY == 0:
            # thorough tier: every VC discharged by z3 is re-checked by cvc5; a disagreement is reported as undecided, never hidden
            t1 = time.time()
            r2 = cvc5_check(_smt2(assumptions, goal), timeout_s=20)
            STATS["cvc5"] += 1
            STATS["cvc5_time"] += time.time() - t1
            if r2 == "sat":
                return {"status": "unknown", "backend": "z3+cvc5", "time_s": time.time() - t0, "model": None, "reason": "solver disagreement: z3 unsat, cvc5 sat"}
            return {"status": "discharged", "backend": "z3+cvc5(agree)" if r2 == "unsat" else "z3(cvc5: unknown)", "time_s": time.time() - t0, "model": None}
        return {"status": "discharged", "backend": "z3", "time_s": dt, "model": None}
    if r == z3.sat:
        m = s.model() if want_model else None
        return {"status": "refuted", "backend": "z3", "time_s": dt, "model": m}
    if use_cvc5:
        t1 = time.time()
        r2 = cvc5_check(_smt2(assumptions, goal))
        dt2 = time.time() - t1
        STATS["cvc5"] += 1
        STATS["cvc5_time"] += dt2
        if r2 == "unsat":
            return {"status": "discharged", "backend": "cvc5", "time_s": dt + dt2, "model": None}
        if r2 == "sat":
            return {"status": "refuted", "backend": "cvc5", "time_s": dt + dt2, "model": None}
    return {"status": "unknown", "backend": "z3+cvc5" if use_cvc5 else "z3", "time_s": time.time() - t0,
            "model": None, "reason": s.reason_unknown()}


def _worker(smt2, timeout_ms, q):
    try:
        s = z3.Solver()
        s.set("timeout", timeout_ms)
        s.from_string(smt2)
        r = s.check()
        q.put(str(r))
    except Exception as e:  # pylint: disable=broad-except
        q.put("error:" + repr(e))


def discharge_killable(assumptions, goal, timeout_s=30):
    """for goals with quantified axioms: run z3 in a forked process that is killed on time-out"""
    t0 = time.time()
    smt2 = _smt2(assumptions, goal)
    ctx = mp.get_context("fork")
    q = ctx.Queue()
    p = ctx.Process(target=_worker, args=(smt2, timeout_s * 1000, q))
    p.start()
    p.join(timeout_s + 5)
    if p.is_alive():
        p.kill()
        p.join()
        r = "unknown"
    else:
        try:
            r = q.get(timeout=1)
        except Exception:  # pylint: disable=broad-except
            r = "unknown"
    dt = time.time() - t0
    STATS["z3"] += 1
    STATS["z3_time"] += dt
    st = {"unsat": "discharged", "sat": "refuted"}.get(r, "unknown")
    return {"status": st, "backend": "z3(subprocess)", "time_s": dt, "model": None}


def sample_smt2(assumptions, goal, limit=1500):
    txt = _smt2(assumptions, goal)
    return txt if len(txt) <= limit else txt[:limit] + "\n; ... truncated"


def _consts(fs):
    seen, out, todo = set(), {}, list(fs)
    while todo:
        t = todo.pop()
        if t.get_id() in seen:
            continue
        seen.add(t.get_id())
        if z3.is_const(t) and t.decl().kind() == z3.Z3_OP_UNINTERPRETED:
            out[t.decl().name()] = t
        todo.extend(t.children())
    return out


def concrete_refute(assumptions, goal_eqs, tries=600, seed=0, rel=1e-6):
    """Refutation by a concrete witness, for goals the solvers leave open: random values for every free constant (reals of several
    magnitudes, booleans, small integers); a witness satisfies every assumption under floating-point evaluation of the terms (sqrt, arctan,
    log, ... taken from libm) and makes the two sides of one goal equation differ by more than `rel` relative. Only ever used to turn
    `unknown` into `refuted` (never to discharge); returns the witness dict or None. Quantifier-free formulas over the known functions only."""
    import math
    import random

    from engine.crosscheck import ev

    rnd = random.Random(seed)
    try:
        cs = _consts(list(assumptions) + [x for ab in goal_eqs for x in ab])
    except Exception:  # pylint: disable=broad-except
        return None
    bools = [n for n, c in cs.items() if z3.is_bool(c)]
    import re

    groups = sorted({re.sub(r"(_\d+)+$", "", n) for n in cs})
    for k in range(tries):
        env = {"__tol__": 1e-9}
        gscale = {g: rnd.choice((1.0, 1.0, 1e-3, 1e3, 1e-6, 1e6)) for g in groups}  # whole arrays far away from / tiny against each other
        for n, c in cs.items():
            if z3.is_bool(c):
                env[n] = rnd.random() < 0.5
            elif z3.is_int(c):
                env[n] = rnd.randint(1, 4)
            else:
                v = rnd.choice((1.0, 1.0, 1.0, 0.1, 10.0)) * rnd.gauss(0, 1) if rnd.random() > 0.05 else rnd.choice((0.0, 1.0, -1.0))
                env[n] = v * gscale[re.sub(r"(_\d+)+$", "", n)]
        try:
            cache = {}
            if not all(ev(a, env, cache) for a in assumptions):
                # try to repair the boolean (batch-global) symbols only
                ok = False
                for bits in range(1 << min(len(bools), 8)):
                    for bi, n in enumerate(bools[:8]):
                        env[n] = bool(bits >> bi & 1)
                    cache = {}
                    if all(ev(a, env, cache) for a in assumptions):
                        ok = True
                        break
                if not ok:
                    continue
            for a, b in goal_eqs:
                va, vb = ev(a, env, cache), ev(b, env, cache)
                if isinstance(va, bool) or isinstance(vb, bool):
                    if bool(va) != bool(vb):
                        return env
                    continue
                if math.isnan(va) or math.isnan(vb) or math.isinf(va) or math.isinf(vb):
                    break
                if abs(va - vb) > rel * (abs(va) + abs(vb) + 1e-300):
                    return env
        except (NotImplementedError, KeyError, ZeroDivisionError, OverflowError, ValueError):
            return None
    return None


def discharge_quantified(assumptions, goal, timeout_ms=20000):
    """obligations whose assumptions contain quantified axioms (E-matching); z3 in-process first, cvc5 for what it leaves open"""
    return discharge(assumptions, goal, timeout_ms=timeout_ms)
