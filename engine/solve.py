"""Discharging obligations: z3 (python API) first, cvc5 for what z3 leaves open.

An obligation is  (assumptions) => goal ; we send assumptions ∧ ¬goal and expect unsat.
Statuses: "discharged" (unsat), "refuted" (sat, with model), "unknown".
Solver calls that may ignore their time-out (quantified axioms) are run in a
killable forked subprocess.
"""
import multiprocessing as mp
import os
import subprocess
import tempfile
import time

import z3

Z3_TIMEOUT_MS = int(os.environ.get("VERIF_Z3_TIMEOUT_MS", "30000"))
CVC5_TIMEOUT_S = int(os.environ.get("VERIF_CVC5_TIMEOUT_S", "60"))

STATS = {"z3": 0, "cvc5": 0, "z3_time": 0.0, "cvc5_time": 0.0}


def _smt2(assumptions, goal, logic=None):
    s = z3.Solver()
    s.add(*assumptions)
    s.add(z3.Not(goal))
    txt = s.to_smt2()
    if logic:
        txt = f"(set-logic {logic})\n" + txt
    return txt


def cvc5_check(smt2_text, timeout_s=CVC5_TIMEOUT_S, extra=()):
    """returns 'unsat' | 'sat' | 'unknown' using the cvc5 binary (separate process, hard time-out)"""
    with tempfile.NamedTemporaryFile("w", suffix=".smt2", delete=False, dir=os.environ.get("VERIF_SCRATCH") or None) as f:
        f.write(smt2_text)
        name = f.name
    try:
        cmd = ["/usr/bin/cvc5", "--lang=smt2", f"--tlimit={timeout_s * 1000}", *extra, name]
        try:
            out = subprocess.run(cmd, capture_output=True, text=True, timeout=timeout_s + 10, check=False).stdout
        except subprocess.TimeoutExpired:
            return "unknown"
        for line in out.splitlines():
            line = line.strip()
            if line in ("unsat", "sat", "unknown"):
                return line
        return "unknown"
    finally:
        os.unlink(name)


def discharge(assumptions, goal, timeout_ms=None, use_cvc5=True, want_model=True):
    """-> dict(status, backend, time_s, model)"""
    t0 = time.time()
    s = z3.Solver()
    s.set("timeout", timeout_ms or Z3_TIMEOUT_MS)
    s.add(*assumptions)
    s.add(z3.Not(goal))
    r = s.check()
    dt = time.time() - t0
    STATS["z3"] += 1
    STATS["z3_time"] += dt
    if r == z3.unsat:
        if os.environ.get("VERIF_TIER") == "thorough" and os.environ.get("VERIF_NO_CVC5_RECHECK") != "1":
            # thorough tier: every VC discharged by z3 is re-checked by cvc5; a disagreement is reported as undecided, never hidden
            t1 = time.time()
            r2 = cvc5_check(_smt2(assumptions, goal), timeout_s=20)
            STATS["cvc5"] += 1
            STATS["cvc5_time"] += time.time() - t1
            if r2 == "sat":
                return {"status": "unknown", "backend": "z3+cvc5", "time_s": time.time() - t0, "model": None, "reason": "solver disagreement: z3 unsat, cvc5 sat"}
            return {"status": "discharged", "backend": "z3+cvc5(agree)" if r2 == "unsat" else "z3(cvc5: unknown)", "time_s": time.time() - t0, "model": None}
        return {"status": "discharged", "backend": "z3", "time_s": dt, "model": None}
    if r == z3.sat:
        m = s.model() if want_model else None
        return {"status": "refuted", "backend": "z3", "time_s": dt, "model": m}
    if use_cvc5:
        t1 = time.time()
        r2 = cvc5_check(_smt2(assumptions, goal))
        dt2 = time.time() - t1
        STATS["cvc5"] += 1
        STATS["cvc5_time"] += dt2
        if r2 == "unsat":
            return {"status": "discharged", "backend": "cvc5", "time_s": dt + dt2, "model": None}
        if r2 == "sat":
            return {"status": "refuted", "backend": "cvc5", "time_s": dt + dt2, "model": None}
    return {"status": "unknown", "backend": "z3+cvc5" if use_cvc5 else "z3", "time_s": time.time() - t0,
            "model": None, "reason": s.reason_unknown()}


def _worker(smt2, timeout_ms, q):
    try:
        s = z3.Solver()
        s.set("timeout", timeout_ms)
        s.from_string(smt2)
        r = s.check()
        q.put(str(r))
    except Exception as e:  # pylint: disable=broad-except
        q.put("error:" + repr(e))


def discharge_killable(assumptions, goal, timeout_s=30):
    """for goals with quantified axioms: run z3 in a forked process that is killed on time-out"""
    t0 = time.time()
    smt2 = _smt2(assumptions, goal)
    ctx = mp.get_context("fork")
    q = ctx.Queue()
    p = ctx.Process(target=_worker, args=(smt2, timeout_s * 1000, q))
    p.start()
    p.join(timeout_s + 5)
    if p.is_alive():
        p.kill()
        p.join()
        r = "unknown"
    else:
        try:
            r = q.get(timeout=1)
        except Exception:  # pylint: disable=broad-except
            r = "unknown"
    dt = time.time() - t0
    STATS["z3"] += 1
    STATS["z3_time"] += dt
    st = {"unsat": "discharged", "sat": "refuted"}.get(r, "unknown")
    return {"status": st, "backend": "z3(subprocess)", "time_s": dt, "model": None}


def sample_smt2(assumptions, goal, limit=1500):
    txt = _smt2(assumptions, goal)
    return txt if len(txt) <= limit else txt[:limit] + "\n; ... truncated"
