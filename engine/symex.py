"""Path-forking symbolic execution of *real* Python code objects.

CPython interprets the function; symbolic proxies (SymInt/SymBool/...) fork the
execution on `__bool__` through the current context (decision-vector replay,
depth first) until every feasible path has been run.
"""
import z3

FEAS_TIMEOUT_MS = 3000


def _sig(t, depth=3):
    """shape of a z3 term to a small depth (operators and sorts; names of uninterpreted symbols only by sort and arity, since fresh names may
    carry run-dependent counters): enough to notice that a replay meets a different branch condition"""
    k = t.decl().kind()
    if k == z3.Z3_OP_UNINTERPRETED:
        return ("u", t.sort().name(), t.num_args())
    if depth == 0 or t.num_args() == 0:
        return (k, str(t) if t.num_args() == 0 and not z3.is_const(t) or z3.is_int_value(t) or z3.is_rational_value(t) else t.sort().name())
    return (k,) + tuple(_sig(c, depth - 1) for c in t.children()[:6])


class PathAbort(Exception):
    """current path is infeasible"""


class Unsupported(Exception):
    """the code left the vocabulary of the shim: the function is outside the verified subset"""


class Ctx:
    cur = None

    def __init__(self, decisions=(), sigs=()):
        self.decisions = list(decisions)  # prefix to replay
        self.sigs = list(sigs)  # shape signatures of the branch conditions of the prefix (replay divergence check)
        self.trace = []  # decisions taken in this run
        self.pc = []  # path condition (z3 Bools)
        self.oblig = []  # (pc snapshot, formula, label, kind)
        self.axioms = []  # instantiated axioms (sqrt etc.)
        self.notes = []
        self.unknown_feas = 0

    def check(self, extra):
        s = z3.Solver()
        s.set("timeout", FEAS_TIMEOUT_MS)
        s.add(*self.pc, *self.axioms, extra)
        return s.check()

    def branch(self, cond):
        """cond: z3 Bool -> python bool, forking"""
        cond = z3.simplify(cond)
        if z3.is_true(cond):
            return True
        if z3.is_false(cond):
            return False
        t = self.check(cond)
        f = self.check(z3.Not(cond))
        if t == z3.unknown or f == z3.unknown:
            self.unknown_feas += 1
            t = z3.sat if t != z3.unsat else t
            f = z3.sat if f != z3.unsat else f
        if t == z3.sat and f == z3.unsat:
            self.pc.append(cond)
            return True  # forced: no decision consumed (also on replay)
        if f == z3.sat and t == z3.unsat:
            self.pc.append(z3.Not(cond))
            return False
        if t == z3.unsat and f == z3.unsat:
            raise PathAbort()
        i = len(self.trace)
        sig = _sig(cond)
        if i < len(self.decisions):
            d = self.decisions[i]
            # the replayed prefix must meet the same free branches in the same order: code whose branch order changes from run to run (iteration
            # over a hash-ordered set of objects, ...) would silently skip parts of the decision tree
            if i < len(self.sigs) and self.sigs[i] != sig:
                raise Unsupported(f"replay diverged at decision {i}: the code met a different branch condition than on the first visit (nondeterministic branch order)")
        else:
            d = True
            self.decisions.append(True)
        if i >= len(self.sigs):
            self.sigs.append(sig)
        self.trace.append(d)
        self.pc.append(cond if d else z3.Not(cond))
        return d

    def assume(self, cond):
        self.pc.append(cond)

    def oblige(self, formula, label, kind="safety"):
        self.oblig.append((list(self.pc), list(self.axioms), formula, label, kind))


_SHIM_DIRS = None


def _from_shim(e):
    """is this exception an artefact of the verification shim (missing vocabulary, proxy misuse) rather than of the code under contract?
    -> the innermost frame is a file of the framework, or an attribute is missing on a shim object"""
    global _SHIM_DIRS
    import os
    import traceback

    if getattr(e, "modelled", False):  # an exception the shim raises on purpose, modelling the documented behaviour of a dependency
        return False

    if _SHIM_DIRS is None:
        root = os.path.dirname(os.path.dirname(os.path.abspath(__file__)))
        _SHIM_DIRS = tuple(os.path.join(root, d) + os.sep for d in ("engine", "contracts", "standins", "checks"))
    if isinstance(e, AttributeError):
        obj = getattr(e, "obj", None)
        mod = getattr(obj if isinstance(obj, type) else type(obj), "__module__", "") or ""
        if mod.startswith(("engine.", "contracts.", "standins.", "checks.")):
            return True
    tb = traceback.extract_tb(e.__traceback__)
    if tb and tb[-1].filename.startswith(_SHIM_DIRS):
        return True
    if isinstance(e, TypeError) and any(k in str(e) for k in ("SymInt", "SymBool", "Arr", "'G'", "SRot", "ufunc")):
        return True
    return False


def explore(fn, max_paths=20000):
    """run fn() under all feasible paths; yields (ctx, ("ok", result) | ("exc", exception))"""
    stack = [([], [])]
    n = 0
    while stack:
        dec, sigs = stack.pop()
        ctx = Ctx(dec, sigs)
        Ctx.cur = ctx
        try:
            res = ("ok", fn())
        except PathAbort:
            res = None  # the siblings of the decisions taken before the abort are still explored
        except Unsupported as e:
            res = ("unsupported", e)
        except Exception as e:  # pylint: disable=broad-except
            res = ("unsupported", Unsupported(f"{type(e).__name__}: {e}")) if _from_shim(e) else ("exc", e)
        if res is not None and res[0] != "unsupported" and len(ctx.trace) < len(dec):
            res = ("unsupported", Unsupported(f"replay diverged: only {len(ctx.trace)} of the {len(dec)} recorded decisions were met again (nondeterministic branch order)"))
        for i in range(len(dec), len(ctx.decisions)):
            if ctx.decisions[i] is True:
                stack.append((ctx.decisions[:i] + [False], ctx.sigs[: i + 1]))
        if res is None:
            continue
        n += 1
        if n > max_paths:
            raise Unsupported(f"more than {max_paths} paths")
        yield ctx, res
    Ctx.cur = None


def lift(x):
    if isinstance(x, SymInt):
        return x.t
    if isinstance(x, bool):
        return NotImplemented
    if isinstance(x, int):
        return z3.IntVal(x)
    try:
        import numpy as _np

        if isinstance(x, _np.integer):
            return z3.IntVal(int(x))
    except ImportError:  # pragma: no cover
        pass
    return NotImplemented


class SymBool:
    def __init__(self, t):
        self.t = t

    def __bool__(self):
        return Ctx.cur.branch(self.t)

    def _o(self, o):
        if isinstance(o, SymBool):
            return o.t
        if isinstance(o, bool):
            return z3.BoolVal(o)
        return None

    def __and__(self, o):
        t = self._o(o)
        return NotImplemented if t is None else SymBool(z3.And(self.t, t))

    __rand__ = __and__

    def __or__(self, o):
        t = self._o(o)
        return NotImplemented if t is None else SymBool(z3.Or(self.t, t))

    __ror__ = __or__

    def __invert__(self):
        return SymBool(z3.Not(self.t))


class SymInt:
    """mathematical integer (Python int is Z)"""

    def __init__(self, t):
        self.t = z3.Int(t) if isinstance(t, str) else t

    def _b(self, o, f, wrap=True):
        l = lift(o)
        if l is NotImplemented:
            return NotImplemented
        r = f(self.t, l)
        return SymInt(r) if wrap else SymBool(r)

    def __add__(self, o):
        return self._b(o, lambda a, b: a + b)

    __radd__ = __add__

    def __sub__(self, o):
        return self._b(o, lambda a, b: a - b)

    def __rsub__(self, o):
        return self._b(o, lambda a, b: b - a)

    def __mul__(self, o):
        return self._b(o, lambda a, b: a * b)

    __rmul__ = __mul__

    def __neg__(self):
        return SymInt(-self.t)

    def __pos__(self):
        return self

    def __lt__(self, o):
        return self._b(o, lambda a, b: a < b, False)

    def __le__(self, o):
        return self._b(o, lambda a, b: a <= b, False)

    def __gt__(self, o):
        return self._b(o, lambda a, b: a > b, False)

    def __ge__(self, o):
        return self._b(o, lambda a, b: a >= b, False)

    def __eq__(self, o):
        l = lift(o)
        if l is NotImplemented:
            return False  # e.g. comparison with the string "auto"
        return SymBool(self.t == l)

    def __ne__(self, o):
        l = lift(o)
        if l is NotImplemented:
            return True
        return SymBool(self.t != l)

    __hash__ = None

    def __bool__(self):
        return Ctx.cur.branch(self.t != 0)

    def __index__(self):
        raise Unsupported("symbolic integer used as a concrete index")

    def __repr__(self):
        return f"SymInt({self.t})"


def tz(x):
    """to z3 Int term"""
    if isinstance(x, SymInt):
        return x.t
    if isinstance(x, bool):
        raise Unsupported("bool as int")
    if isinstance(x, int):
        return z3.IntVal(x)
    if z3.is_expr(x):
        return x
    try:
        import numpy as _np

        if isinstance(x, _np.integer):
            return z3.IntVal(int(x))
    except ImportError:  # pragma: no cover
        pass
    raise Unsupported(f"not an integer: {type(x).__name__}")


def oblige(formula, label, kind="safety"):
    Ctx.cur.oblige(formula, label, kind)
