"""Lazy index-map arrays over abstract sorts Vec / Rot (paths of positions and orientations).

An (N,3) position path is  (length: z3 Int, elem: index -> Vec term); an (N,4)
quaternion path likewise with Rot terms (scipy's from_quat∘as_quat is the
identity: assumed contract).  Slicing, np.pad(...,"edge"), slice-assign and
+= / -= through views compose closures; postconditions are checked at a fresh
symbolic index, so VCs are quantifier-free (LIA + UF + ite).

Safety obligations (slice within bounds, broadcast lengths agree, pad widths
>= 0) are emitted through engine.symex.oblige: the code is *not* allowed to rely
on numpy's silent clipping of out-of-range slices.
"""
import z3

from engine.symex import Ctx, SymBool, SymInt, Unsupported, oblige, tz

Vec = z3.DeclareSort("Vec")
Rot = z3.DeclareSort("Rot")
act = z3.Function("act", Rot, Vec, Vec)
mul = z3.Function("mul", Rot, Rot, Rot)
inv = z3.Function("inv", Rot, Rot)
vadd = z3.Function("vadd", Vec, Vec, Vec)
vsub = z3.Function("vsub", Vec, Vec, Vec)
RID = z3.Const("RID", Rot)  # identity rotation (quaternion 0,0,0,1)
VZERO = z3.Const("VZERO", Vec)

_WIDTH = {"vec": 3, "quat": 4}


def clamp(j, L):
    return z3.If(j < 0, 0, z3.If(j > L - 1, L - 1, j))


class Arr:
    """ndim 2: length + elem(i);  ndim 1: a single row (length None, elem(None))"""

    def __init__(self, length, elem, kind):
        self._length = None if length is None else tz(length)
        self._elem = elem
        self.kind = kind

    # -- basic protocol
    @property
    def length(self):
        return self._length

    def elem(self, i):
        return self._elem(i)

    @property
    def ndim(self):
        return 1 if self.length is None else 2

    @property
    def shape(self):
        w = _WIDTH[self.kind]
        return (w,) if self.length is None else (SymInt(self.length), w)

    def at(self, i):
        return self.elem(i) if self.length is not None else self.elem(None)

    def __len__(self):
        raise Unsupported("len() of symbolic array reached the builtin (shim `len` not bound)")

    def snapshot(self):
        e, L = self._elem, self._length
        return Arr(L, e, self.kind)

    def copy(self):
        return self.snapshot()

    # -- slicing
    def _bounds(self, k, what):
        if not isinstance(k, slice) or k.step is not None:
            raise Unsupported(f"index {k!r} on path array")
        if self.length is None:
            raise Unsupported("slicing a 1-d row")
        L = self.length
        lo = tz(k.start) if k.start is not None else z3.IntVal(0)
        hi = tz(k.stop) if k.stop is not None else L
        oblige(z3.And(0 <= lo, lo <= hi, hi <= L), f"{what} within bounds (no reliance on numpy clipping/negative wrap)")
        return lo, hi

    def __getitem__(self, k):
        if isinstance(k, (int, SymInt)) and not isinstance(k, bool):
            if self.length is None:
                raise Unsupported("component index on a row")
            L, e = self.length, self._elem
            kk = tz(k)
            oblige(z3.And(-L <= kk, kk < L), "row index within bounds")
            idx = z3.If(kk < 0, L + kk, kk)
            return Arr(None, lambda i: e(idx), self.kind)
        lo, hi = self._bounds(k, "slice")
        return View(self, lo, hi)

    def __setitem__(self, k, v):
        if isinstance(v, View) and v.base is self:
            return  # result of `a[lo:hi] += x` being stored back
        lo, hi = self._bounds(k, "slice-assign")
        v = as_arr(v)
        old = self._elem
        if v.length is None:
            val = v.at(None)
            self._elem = lambda i: z3.If(z3.And(lo <= i, i < hi), val, old(i))
        else:
            oblige(z3.Or(hi - lo == v.length, v.length == 1), "slice-assign: lengths agree")
            ve, vl = v._elem, v.length
            self._elem = lambda i: z3.If(z3.And(lo <= i, i < hi), ve(z3.If(vl == 1, 0, i - lo)), old(i))

    # -- elementwise arithmetic (positions only)
    def _bin(self, o, f):
        if self.kind != "vec":
            raise Unsupported("arithmetic on quaternion array")
        a, b = as_arr(self), as_arr(o)
        if b.kind != "vec":
            raise Unsupported("arithmetic on quaternion array")
        if a.length is None and b.length is None:
            va, vb = a.at(None), b.at(None)
            return Arr(None, lambda i: f(va, vb), "vec")
        if a.length is not None and b.length is not None:
            oblige(z3.Or(a.length == b.length, a.length == 1, b.length == 1), "elementwise op: lengths agree")
            ae, be, al, bl = a._elem, b._elem, a.length, b.length
            L = z3.If(al == 1, bl, al)
            return Arr(L, lambda i: f(ae(z3.If(al == 1, 0, i)), be(z3.If(bl == 1, 0, i))), "vec")
        L = a.length if a.length is not None else b.length
        return Arr(L, lambda i: f(a.at(i), b.at(i)), "vec")

    def __add__(self, o):
        return self._bin(o, vadd)

    def __sub__(self, o):
        return self._bin(o, vsub)


class View(Arr):
    """a[lo:hi] — a window onto `base` (augmented assignment writes through)"""

    def __init__(self, base, lo, hi):  # pylint: disable=super-init-not-called
        self.base, self.lo, self.hi, self.kind = base, lo, hi, base.kind

    @property
    def length(self):
        return self.hi - self.lo

    def elem(self, i):
        return self.base._elem(i + self.lo)

    @property
    def _elem(self):
        """read access like a plain array (the window at the time of the read)"""
        e, lo = self.base._elem, self.lo
        return lambda i: e(i + lo)

    def snapshot(self):
        e, lo = self.base._elem, self.lo
        return Arr(self.hi - self.lo, lambda i: e(i + lo), self.kind)

    def _upd(self, other, f):
        if self.kind != "vec":
            raise Unsupported("in-place arithmetic on quaternion view")
        other = as_arr(other)
        b, lo, hi = self.base, self.lo, self.hi
        old = b._elem
        if other.length is None:
            val = other.at(None)
            b._elem = lambda i: z3.If(z3.And(lo <= i, i < hi), f(old(i), val), old(i))
        else:
            oblige(z3.Or(hi - lo == other.length, other.length == 1), "in-place broadcast: slice length == operand length")
            oe, ol = other._elem, other.length
            b._elem = lambda i: z3.If(z3.And(lo <= i, i < hi), f(old(i), oe(z3.If(ol == 1, 0, i - lo))), old(i))
        return self

    def __isub__(self, o):
        return self._upd(o, vsub)

    def __iadd__(self, o):
        return self._upd(o, vadd)

    def __setitem__(self, k, v):
        raise Unsupported("assignment into a view of a view")

    def __getitem__(self, k):
        return self.snapshot()[k]


def as_arr(x):
    if isinstance(x, View):
        return x.snapshot()
    if isinstance(x, Arr):
        return x
    raise Unsupported(f"not a symbolic array: {type(x).__name__}")


class SRot:
    """shim for a scipy Rotation instance: wraps a quaternion Arr whose elements are Rot terms"""

    def __init__(self, q):
        self.q = as_arr(q)

    @staticmethod
    def identity(num=None):
        """Rotation.identity(): a single unit rotation; identity(n): a sequence of n unit rotations"""
        if num is None:
            return SRot(Arr(None, lambda i: RID, "quat"))
        return SRot(Arr(tz(num), lambda i: RID, "quat"))

    def as_quat(self):
        return self.q.snapshot()

    @property
    def single(self):
        return self.q.length is None

    def __len__(self):
        raise Unsupported("len() of symbolic Rotation reached the builtin")

    def __getitem__(self, k):
        if isinstance(k, int) and not isinstance(k, bool):
            if self.q.length is None:
                raise TypeError("Single rotation is not subscriptable.")
            oblige(z3.And(-self.q.length <= k, k < self.q.length), "Rotation index within bounds")
            e, L = self.q._elem, self.q.length
            kk = z3.IntVal(k) if k >= 0 else L + k
            return SRot(Arr(None, lambda i: e(kk), "quat"))
        if isinstance(k, slice):
            return SRot(self.q[k].snapshot())
        raise Unsupported("Rotation index")

    @staticmethod
    def from_quat(q):
        return SRot(as_arr(q))

    def inv(self):
        q = self.q
        e = q._elem
        return SRot(Arr(q.length, lambda i: inv(e(i)), "quat"))

    def apply(self, v, inverse=False):
        v = as_arr(v)
        q = self.q
        if v.kind != "vec":
            raise Unsupported("apply to non-vector")
        f = (lambda r, x: act(inv(r), x)) if inverse else act
        if q.length is not None and v.length is not None:
            oblige(z3.Or(q.length == v.length, q.length == 1, v.length == 1), "Rotation.apply: lengths agree")
            qe, ve, ql, vl = q._elem, v._elem, q.length, v.length
            L = z3.If(ql == 1, vl, ql)
            return Arr(L, lambda i: f(qe(z3.If(ql == 1, 0, i)), ve(z3.If(vl == 1, 0, i))), "vec")
        L = v.length if v.length is not None else q.length
        return Arr(L, lambda i: f(q.at(i), v.at(i)), "vec")

    def __mul__(self, o):
        if not isinstance(o, SRot):
            return NotImplemented
        a, b = self.q, o.q
        if a.length is not None and b.length is not None:
            oblige(z3.Or(a.length == b.length, a.length == 1, b.length == 1), "Rotation.__mul__: lengths agree")
            ae, be, al, bl = a._elem, b._elem, a.length, b.length
            L = z3.If(al == 1, bl, al)
            return SRot(Arr(L, lambda i: mul(ae(z3.If(al == 1, 0, i)), be(z3.If(bl == 1, 0, i))), "quat"))
        L = a.length if a.length is not None else b.length
        return SRot(Arr(L, lambda i: mul(a.at(i), b.at(i)), "quat"))


class SR:
    """shim for the class scipy.spatial.transform.Rotation (name `R` in the modules)"""

    @staticmethod
    def from_quat(q):
        return SRot(as_arr(q))


class NPs:
    """shim for the name `np` in the path-handling modules"""

    ndarray = Arr

    @staticmethod
    def pad(arr, spec, mode="constant"):
        if mode != "edge":
            raise Unsupported(f"np.pad mode {mode}")
        arr = as_arr(arr)
        (pb, pa), z = spec
        if tuple(z) != (0, 0) or arr.length is None:
            raise Unsupported("np.pad spec")
        pb, pa = tz(pb), tz(pa)
        oblige(z3.And(pb >= 0, pa >= 0), "np.pad widths non-negative")
        L, e = arr.length, arr._elem
        return Arr(L + pb + pa, lambda i: e(clamp(i - pb, L)), arr.kind)

    @staticmethod
    def reshape(arr, shape):
        arr = as_arr(arr)
        if arr.length is None and len(shape) == 2 and shape[0] in (1, -1) and shape[1] == _WIDTH[arr.kind]:
            v = arr.at(None)
            return Arr(1, lambda i: v, arr.kind)
        if arr.length is not None and len(shape) == 2 and shape[0] == -1 and shape[1] == _WIDTH[arr.kind]:
            return arr
        raise Unsupported("np.reshape")

    @staticmethod
    def size(a):
        """number of scalar entries"""
        a = as_arr(a)
        w = _WIDTH[a.kind]
        return w if a.length is None else SymInt(a.length * w)

    @staticmethod
    def allclose(a, b, rtol=1e-5, atol=1e-8):
        """a numerical closeness test on path arrays: an uninterpreted batch-global fact (no axioms) — both outcomes are explored, so code whose
        result depends on it is checked against the specification on both branches"""
        import hashlib

        arr = as_arr(a) if isinstance(a, Arr) else as_arr(b)
        probe = arr.at(z3.Int("probe_index"))
        g = z3.Bool("allclose_" + hashlib.sha1(probe.sexpr().encode()).hexdigest()[:10])
        return Ctx.cur.branch(g)

    isclose = allclose

    @staticmethod
    def squeeze(arr):
        arr = as_arr(arr)
        if arr.length is None:
            return arr
        if Ctx.cur.branch(arr.length == 1):
            e = arr._elem
            return Arr(None, lambda i: e(z3.IntVal(0)), arr.kind)
        return arr

    import numpy as _np

    integer = _np.integer
    pi = _np.pi

    @staticmethod
    def array(x, *a, **k):
        if isinstance(x, tuple) and len(x) == 4 and all(isinstance(c, (int, float)) for c in x):
            if tuple(x) != (0, 0, 0, 1):
                raise Unsupported("literal quaternion other than identity")
            return Arr(None, lambda i: RID, "quat")
        if isinstance(x, tuple) and len(x) == 3 and all(isinstance(c, (int, float)) for c in x):
            if tuple(x) != (0, 0, 0):
                raise Unsupported("literal vector other than zero")
            return Arr(None, lambda i: VZERO, "vec")
        return as_arr(x)


def slen(x):
    """shim for the builtin `len`"""
    if isinstance(x, Arr):
        if x.length is None:
            return _WIDTH[x.kind]
        return SymInt(x.length)
    if isinstance(x, SRot):
        if x.q.length is None:
            raise TypeError("Single rotation has no len().")
        return SymInt(x.q.length)
    return len(x)


def fresh_path(name, N):
    """(position Arr, orientation SRot) of symbolic length N over functions P_name, O_name"""
    P = z3.Function("P_" + name, z3.IntSort(), Vec)
    O = z3.Function("O_" + name, z3.IntSort(), Rot)
    return Arr(N, lambda i: P(i), "vec"), SRot(Arr(N, lambda i: O(i), "quat")), P, O
