"""regenerates the table of DESIGN.md §9.6 from seeded/*/meta.json (written by tools/seed_matrix.sh)"""
import glob
import json
import os
import re

rows = []
n = own = 0
for d in sorted(glob.glob(os.path.join(os.path.dirname(__file__), "..", "seeded", "*", ""))):
    sid = os.path.basename(os.path.dirname(d))
    m = json.load(open(d + "meta.json"))
    files = sorted({os.path.basename(x[6:].strip()) for x in open(d + "patch.diff") if x.startswith("+++ b/")})
    res = m.get("checks_run_against_it", {})
    cells = []
    if isinstance(res, dict):
        for p, r in res.items():
            if r["violations"]:
                fo = r["first_failed_obligation"]
                kind = "bounded stand-in" if fo.startswith("standin.") else "obligation"
                cells.append(f"{p}: {kind}: {fo.replace('standin.', '')[:80].replace('|', '/')}" + ("" if r["with_replayed_input"] else " (no-failing-input-found)"))
            else:
                cells.append(f"{p}: missed")
        n += 1
        own += bool(res.get(m["property"], {}).get("violations"))
    rows.append(f"| {sid} | {', '.join(files)} | {m.get('change', '')[:110].replace('|', '/')} | {'; '.join(cells)} |")
table = "| seed | file(s) touched | change | caught by |\n|---|---|---|---|\n" + "\n".join(rows) + f"\n\n{own} of {n} seeds are caught by the check of their own property.\n"
p = os.path.join(os.path.dirname(__file__), "..", "DESIGN.md")
s = open(p).read()
a = s.index("| seed | file(s) touched |")
b = s.index("Seeds caught only by a bounded stand-in")
s = s[:a] + table + "\n" + s[b:]
open(p, "w").write(s)
print(own, n)
