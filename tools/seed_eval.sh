#!/bin/bash
# usage: seed_eval.sh <PID> <i> [other PIDs to run too]
# confirms a seeded change in the agent's scratch worktree (demo fails with it / passes without, suite passes), stores it under
# /verif/seeded/<PID>_<i>/, then applies it to /repo, runs the checks, and reverts /repo.
PID=$1; I=$2; shift 2; OTHERS="$@"
WT=/tmp/wt_$PID
J=${AS:-$I}   # store under another index (round 2: AS=3 / AS=4)
D=/verif/seeded/${PID}_$J
set -u
export VERIF_EVIDENCE_DIR=$(mktemp -d /tmp/verif_seed_evidence.XXXXXX)  # never overwrite the evidence of the unchanged tree
trap 'rm -rf "$VERIF_EVIDENCE_DIR"' EXIT
cd $WT || exit 2
git checkout -q -- magpylib tests 2>/dev/null
PYTHONPATH=$WT timeout 600 /venv/bin/python demo_$I.py >/tmp/seed_clean.out 2>&1; C=$?
git apply seed_$I.diff || { echo "patch does not apply in worktree"; exit 2; }
PYTHONPATH=$WT timeout 600 /venv/bin/python demo_$I.py >/tmp/seed_mut.out 2>&1; M=$?
T=$(timeout 1500 /venv/bin/python -m pytest -q -p no:cacheprovider --timeout=900 -n 14 tests --deselect tests/test_obj_BaseGeo.py::test_scipy_from_methods --ignore tests/test_display_pyvista.py 2>&1 | tail -1)
git checkout -q -- magpylib
echo "demo clean exit=$C  with change exit=$M  tests: $T"
mkdir -p $D; cp seed_$I.diff $D/patch.diff; cp demo_$I.py $D/demo.py
cd /repo; git apply --check $D/patch.diff || { echo "patch does not apply to /repo HEAD"; exit 2; }
git apply $D/patch.diff
RES=""
for P in $PID $OTHERS; do
  OUT=$(cd /verif && timeout 1800 ./vv check $P 2>&1); RC=$?
  V=$(echo "$OUT" | grep -c "^VIOLATION property=$P")
  FIRST=$(echo "$OUT" | grep "failed obligation" | head -2 | tr '\n' ';')
  NF=$(echo "$OUT" | grep "^VIOLATION" | head -1 | grep -c "no-failing-input-found")
  echo "  check $P: exit=$RC violations=$V nofailinginput(first)=$NF  $FIRST"
  RES="$RES $P:exit=$RC,violations=$V;"
done
git -C /repo checkout -- .
git -C /repo status --short | head -3
cat > $D/meta.json <<EOM
{"property": "$PID", "seed": $J, "demo_exit_clean": $C, "demo_exit_with_change": $M, "test_suite_with_change": "$T",
 "checks_run_against_it": "$RES"}
EOM
