#!/bin/bash
# applies every stored seed to /repo in turn, runs the check of its property (+ extra checks given in seeded/<id>/also), restores /repo,
# and writes the outcome into seeded/<id>/meta.json; prints one line per seed. /repo must be clean.
cd /verif
export VERIF_EVIDENCE_DIR=$(mktemp -d /tmp/verif_seed_evidence.XXXXXX)  # never overwrite the evidence of the unchanged tree
trap 'rm -rf "$VERIF_EVIDENCE_DIR"' EXIT
[ -n "$(git -C /repo status --porcelain)" ] && { echo "/repo not clean"; exit 1; }
for D in seeded/*/; do
  ID=$(basename $D); PID=${ID%_*}
  # ONLY="C02_5 C07_6 ..." restricts the run to these seeds
  if [ -n "${ONLY:-}" ] && ! echo " $ONLY " | grep -q " $ID "; then continue; fi
  ALSO=$(cat $D/also 2>/dev/null)
  git -C /repo apply /verif/$D/patch.diff 2>/dev/null || { echo "$ID: patch does not apply"; continue; }
  LINE="$ID:"
  RES="{"
  for P in $PID $ALSO; do
    OUT=$(timeout 1800 ./vv check $P 2>&1); RC=$?
    V=$(echo "$OUT" | grep -c "^VIOLATION property=$P")
    NF=$(echo "$OUT" | grep "^VIOLATION" | grep -vc "no-failing-input-found")
    FIRST=$(echo "$OUT" | grep "failed obligation" | head -1 | sed 's/.*failed obligation: //' | cut -c1-90)
    LINE="$LINE  $P exit=$RC viol=$V withinput=$NF [$FIRST]"
    RES="$RES\"$P\": {\"exit\": $RC, \"violations\": $V, \"with_replayed_input\": $NF, \"first_failed_obligation\": \"$(echo $FIRST | sed 's/"/\\"/g')\"},"
  done
  git -C /repo checkout -- .
  echo "$LINE"
  python3 - "$D" "${RES%,}}" <<'PY'
import json, sys
d, res = sys.argv[1], json.loads(sys.argv[2])
p = d + "meta.json"
m = json.load(open(p))
m["checks_run_against_it"] = res
json.dump(m, open(p, "w"), indent=1)
PY
done
