#!/bin/bash
# regenerate every evidence file from the unchanged /repo tree (run before committing after mutant / seed experiments)
cd /verif
if [ -n "$(git -C /repo status --porcelain)" ]; then echo "/repo is not clean"; exit 1; fi
for c in $(python3 -c "import json; print(' '.join(x['property_id'] for x in json.load(open('MANIFEST.json'))['checks']))"); do
  ./vv check $c --tier quick 2>&1 | grep "^\[\|^VIOL\|UNDEC\|CRASH" | head -3
done
